#!/bin/sh
# run every check's quick (or $1) tier sequentially, print exit code and wall time
tier="${1:-quick}"; shift
cd "$(dirname "$0")/.."
ids="$*"; [ -n "$ids" ] || ids=$(ls harness/manifest_entries | sed 's/.json//')
for c in $ids; do
  s=$(date +%s)
  ./check $c --tier $tier > /tmp/runall_$c.log 2>&1; e=$?
  echo "$c exit=$e wall=$(( $(date +%s) - s ))s $(grep -m1 -E 'VIOLATION|MACHINERY|KNOWN-FINDING' /tmp/runall_$c.log | cut -c1-160)"
done
