#!/bin/sh
# usage: harness/seed_recheck.sh [seed ids...]   (default: all)
# Re-runs, for every stored seeded change, the check of its property against the changed tree (scratch worktree)
# and records the result under "latest_recheck" in seeded/<id>/meta.json.
cd "$(dirname "$0")/.." || exit 2
ids="$*"; [ -n "$ids" ] || ids=$(ls seeded | grep '^C')
for id in $ids; do
  p=${id%_*}
  line=$(harness/seedtest.sh seeded/$id $p 2>&1 | grep "^seed=")
  echo "$line"
  /venv/bin/python - "seeded/$id/meta.json" "$line" <<'PY'
import json,sys,re,subprocess
p,line=sys.argv[1],sys.argv[2]
m=json.load(open(p))
e=re.search(r"exit=(\d+)",line)
m["latest_recheck"]={"check_exit":int(e.group(1)) if e else None,"line":line.strip(),"verif_commit":subprocess.run(["git","-C","/verif","rev-parse","--short","HEAD"],capture_output=True,text=True).stdout.strip()}
json.dump(m,open(p,"w"),indent=1)
PY
done
