#!/bin/sh
# usage: harness/seed_intake.sh <Cnn> <k> [extra check ids...]
# Confirms a seeded change produced by an independent sub-agent (/tmp/mut_<Cnn>_out/patch<k>.diff, demo<k>.py,
# meta<k>.json): demo passes on /repo and fails on the changed tree, the repository's test-suite still passes
# with the change (apart from the baseline's 14 always-failing tests); then runs the property's check (and any
# extra ones) against the changed tree and stores everything under seeded/<Cnn>_<k>/.
p="$1"; k="$2"; shift 2
src="${MUT_SRC_PREFIX:-/tmp/mut_}${p}_out"
id="${p}_$(( k + ${MUT_K_OFFSET:-0} ))"
cd "$(dirname "$0")/.." || exit 2
[ -f "$src/patch$k.diff" ] || { echo "no $src/patch$k.diff"; exit 2; }
dst="seeded/$id"; mkdir -p "$dst"
cp "$src/patch$k.diff" "$dst/patch.diff"; cp "$src/demo$k.py" "$dst/demo.py"; cp "$src/meta$k.json" "$dst/agent_meta.json" 2>/dev/null
wt="/tmp/seedwt_$id.$$"
git -C /repo worktree add --detach "$wt" HEAD -q || exit 2
trap 'git -C /repo worktree remove --force "$wt" >/dev/null 2>&1' EXIT
git -C "$wt" apply "$PWD/$dst/patch.diff" || { echo "PATCH DOES NOT APPLY"; exit 2; }
(cd /tmp && PYTHONPATH=/repo timeout 600 /venv/bin/python "$OLDPWD/$dst/demo.py" >/tmp/demo_$id.base 2>&1); d0=$?
(cd /tmp && PYTHONPATH="$wt" timeout 600 /venv/bin/python "$OLDPWD/$dst/demo.py" >/tmp/demo_$id.mut 2>&1); d1=$?
(cd "$wt" && env -u VC2_CONFORMANCE_VERIF /venv/bin/python -m pytest -q -p no:cacheprovider -n 12 --timeout=900 2>&1 | tail -3 > /tmp/suite_$id.txt)
suite=$(tail -1 /tmp/suite_$id.txt)
out="/tmp/seedout_$id.$$"; mkdir -p "$out/evidence" "$out/replay"
res=""
for c in $p "$@"; do
  s=$(date +%s)
  VERIF_REPO="$wt" VERIF_EVIDENCE_DIR="$out/evidence" VERIF_REPLAY_DIR="$out/replay" ./check "$c" --tier quick > "$out/$c.log" 2>&1; e=$?
  sig=$(grep -m2 'signature:' "$out/$c.log" | sed 's/^ *signature: //' | tr '\n' ';')
  res="$res $c:exit=$e($(( $(date +%s) - s ))s)[$sig]"
  cp "$out/$c.log" "$dst/check_$c.log"
done
rm -rf "$out"
echo "seed=$id demo_unchanged=$d0 demo_changed=$d1 suite='$suite' checks:$res"
/venv/bin/python - "$dst" "$p" "$d0" "$d1" "$suite" "$res" <<'PY'
import json,sys,os
dst,p,d0,d1,suite,res=sys.argv[1:7]
am={}
try: am=json.load(open(os.path.join(dst,'agent_meta.json')))
except Exception: pass
meta={"property":p,"summary":am.get("summary"),"files_changed":am.get("files_changed"),"needs_to_manifest":am.get("needs_to_manifest"),
 "why_tests_pass":am.get("why_tests_pass"),
 "confirmed_by_coordinator":{"demo_exit_on_repo":int(d0),"demo_exit_on_changed_tree":int(d1),"test_suite_with_change":suite,
   "checks_on_changed_tree":res.strip(),"how":"harness/seed_intake.sh: scratch worktree of /repo HEAD + git apply patch.diff; demo.py with PYTHONPATH=tree; full pytest -n 12 (baseline: 3499 passed, 14 always-failing); ./check with VERIF_REPO=tree"}}
json.dump(meta,open(os.path.join(dst,'meta.json'),'w'),indent=1)
PY
