import os
import sys

from . import tlaval, tlc, common


def main():
    tlaval.selftest()
    common.assert_repo()
    bad = 0
    gen = os.path.join(tlc.SPEC, "gen")
    if os.path.isdir(os.path.join(os.path.dirname(__file__), "gentables.py")) or os.path.exists(os.path.join(os.path.dirname(__file__), "gentables.py")):
        from . import gentables

        gentables.main()
    wd = tlc.mkscratch("sany")
    import shutil

    mods = []
    for d in (tlc.SPEC, gen):
        if os.path.isdir(d):
            for fn in sorted(os.listdir(d)):
                if fn.endswith(".tla"):
                    shutil.copy(os.path.join(d, fn), wd)
                    mods.append(fn)
    for fn in mods:
        ok, out = tlc.sany(os.path.join(wd, fn))
        if not ok:
            bad += 1
            print("SANY FAILED", fn)
            print(out[-2000:])
    print("setup: %d modules parsed, %d failed" % (len(mods), bad))
    return 1 if bad else 0


if __name__ == "__main__":
    sys.exit(main())
