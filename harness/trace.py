"""Validation of recorded implementation traces by TLC (the T direction).

records: list of JSON-able dicts, one per event, each with 'tid' and 'ev'.  Integers must be < 2^31
(use limbs() for larger ones).  The trace spec <module> must define Log == ndJsonDeserialize(IOEnv.TRACE_FILE),
fold every line into `bad` and print it once with PrintT(<<"BAD", ToJson(bad)>>); cfg = spec/mc/Trace.cfg.
"""
import json
import os

from . import tlc

LIMB = 1 << 15


def limbs(n):
    """non-negative int -> little-endian base-2^15 limbs; negative -> {'neg': limbs}"""
    if n < 0:
        return {"neg": limbs(-n)}
    out = []
    while True:
        out.append(n % LIMB)
        n //= LIMB
        if n == 0:
            return out


MAX_LINES = 20000  # per TLC invocation: a fold over more lines makes TLC's recursion / verdict printing overflow


def _batches(records, max_lines):
    """cut the record list into runs of at most ~max_lines lines, only where no trace (tid) straddles the cut"""
    last = {}
    for i, r in enumerate(records):
        last[r.get("tid")] = i
    out, start, horizon = [], 0, -1
    for i, r in enumerate(records):
        horizon = max(horizon, last[r.get("tid")])
        if i + 1 - start >= max_lines and horizon <= i and i + 1 < len(records):
            out.append((start, i + 1))
            start = i + 1
    out.append((start, len(records)))
    return out


def validate(module, records, cfg="mc/Trace.cfg", timeout=3600, deque=False, env=None, heap="8g", extra_files=(), max_lines=None):
    """Returns (bad, res): bad = list of verdict dicts (tid, line, clause, alarm?, ...) from the trace spec.
    Long record lists are validated in several TLC invocations (cut between traces); line numbers in `bad` refer
    to `records`, and res carries the summed state counts."""
    max_lines = max_lines or MAX_LINES
    if len(records) <= max_lines:
        return _validate(module, records, cfg, timeout, deque, env, heap, extra_files)
    bad, res = [], None
    distinct = generated = 0
    wall = 0.0
    for a, b in _batches(records, max_lines):
        part, res = _validate(module, records[a:b], cfg, timeout, deque, env, heap, extra_files)
        for x in part:
            if isinstance(x, dict) and isinstance(x.get("line"), int):
                x["line"] += a
        bad += part
        distinct += res.distinct
        generated += res.generated
        wall += res.wall_s
    res.distinct, res.generated, res.wall_s = distinct, generated, wall
    return bad, res


def _validate(module, records, cfg, timeout, deque, env, heap, extra_files):
    wd = tlc.mkscratch("trace")
    path = os.path.join(wd, "trace.ndjson")
    with open(path, "w") as f:
        for r in records:
            f.write(json.dumps(r, separators=(",", ":")))
            f.write("\n")
    e = {"TRACE_FILE": path}
    if env:
        e.update(env)
    res = tlc.run(module, cfg, workers=1, env=e, timeout=timeout, coverage=False, deque=deque, heap=heap, extra_files=extra_files)
    got = tlc.printed(res, "BAD")
    if len(got) < 1:
        raise tlc.TLCError("trace spec %s printed no verdict line\n%s" % (module, res.out[-2000:]))
    bad = json.loads(got[-1][0])
    if isinstance(bad, dict):
        bad = [bad[k] for k in sorted(bad, key=lambda x: int(x))]
    if res.distinct != len(records) + 1:
        raise tlc.TLCError("trace spec %s consumed %d of %d lines" % (module, res.distinct - 1, len(records)))
    return bad, res
