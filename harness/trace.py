"""Validation of recorded implementation traces by TLC (the T direction).

records: list of JSON-able dicts, one per event, each with 'tid' and 'ev'.  Integers must be < 2^31
(use limbs() for larger ones).  The trace spec <module> must define Log == ndJsonDeserialize(IOEnv.TRACE_FILE),
fold every line into `bad` and print it once with PrintT(<<"BAD", ToJson(bad)>>); cfg = spec/mc/Trace.cfg.
"""
import json
import os

from . import tlc

LIMB = 1 << 15


def limbs(n):
    """non-negative int -> little-endian base-2^15 limbs; negative -> {'neg': limbs}"""
    if n < 0:
        return {"neg": limbs(-n)}
    out = []
    while True:
        out.append(n % LIMB)
        n //= LIMB
        if n == 0:
            return out


def validate(module, records, cfg="mc/Trace.cfg", timeout=3600, deque=False, env=None, heap="8g", extra_files=()):
    """Returns (bad, res): bad = list of verdict dicts (tid, line, clause, alarm?, ...) from the trace spec."""
    wd = tlc.mkscratch("trace")
    path = os.path.join(wd, "trace.ndjson")
    with open(path, "w") as f:
        for r in records:
            f.write(json.dumps(r, separators=(",", ":")))
            f.write("\n")
    e = {"TRACE_FILE": path}
    if env:
        e.update(env)
    res = tlc.run(module, cfg, workers=1, env=e, timeout=timeout, coverage=False, deque=deque, heap=heap, extra_files=extra_files)
    got = tlc.printed(res, "BAD")
    if len(got) < 1:
        raise tlc.TLCError("trace spec %s printed no verdict line\n%s" % (module, res.out[-2000:]))
    bad = json.loads(got[-1][0])
    if isinstance(bad, dict):
        bad = [bad[k] for k in sorted(bad, key=lambda x: int(x))]
    if res.distinct != len(records) + 1:
        raise tlc.TLCError("trace spec %s consumed %d of %d lines" % (module, res.distinct - 1, len(records)))
    return bad, res
