"""Round-2 prompts: as round 1, plus the list of ideas already used for the property (to be avoided)."""
import json, os, glob, sys
R = sys.argv[1] if len(sys.argv) > 1 else "2"   # round number: prompts in /tmp/mutprompts<R>, worktrees /tmp/mut<R>_<Cnn>
T = open(os.path.join(os.path.dirname(__file__), "mutation_prompt_template.txt")).read()
os.makedirs("/tmp/mutprompts%s" % R, exist_ok=True)
V = os.path.join(os.path.dirname(__file__), "..")
for l in open(os.path.join(V, "properties.jsonl")):
    p = json.loads(l)
    s = T.replace("{id}", p["id"]).replace("{title}", p["title"]).replace("{statement}", p["statement"]).replace("{quant}", p["quantifier"]["text"])
    s = s.replace("/tmp/mut_%s" % p["id"], "/tmp/mut%s_%s" % (R, p["id"]))
    used = []
    for d in sorted(glob.glob(os.path.join(V, "seeded", p["id"] + "_*"))):
        try:
            m = json.load(open(os.path.join(d, "agent_meta.json")))
            used.append("- %s (files: %s)" % (m.get("summary"), m.get("files_changed")))
        except Exception:
            pass
    s += "\n\nIdeas ALREADY USED for this property by earlier testers -- do not repeat them or close variants; find defects of a different kind, at different sites, needing different circumstances to manifest:\n" + "\n".join(used)
    s += "\n\nDo not use `git stash` in your worktree (the stash is shared with /repo); to check that a patch applies cleanly use `git apply --check` in a second scratch worktree (remove it afterwards)."
    open("/tmp/mutprompts%s/%s.txt" % (R, p["id"]), "w").write(s)
print("ok")
