"""Run TLC (exhaustive / simulate / trace validation) and parse its statistics."""
import os
import re
import shutil
import subprocess
import tempfile
import time
import atexit

from . import tlaval

VERIF = os.path.dirname(os.path.dirname(os.path.abspath(__file__)))
SPEC = os.path.join(VERIF, "spec")
JAR = "/opt/veriftools/tla/tla2tools.jar:/opt/veriftools/tla/CommunityModules-deps.jar"

_SCRATCH = None


def scratch_root():
    """A per-process scratch directory outside /repo and /verif, removed at exit."""
    global _SCRATCH
    if _SCRATCH is None or not os.path.isdir(_SCRATCH) or _SCRATCH_PID != os.getpid():
        base = os.environ.get("VERIF_SCRATCH") or tempfile.gettempdir()
        _set_scratch(tempfile.mkdtemp(prefix="vc2verif_", dir=base))
    return _SCRATCH


_SCRATCH_PID = None


def _set_scratch(path):
    global _SCRATCH, _SCRATCH_PID
    _SCRATCH = path
    _SCRATCH_PID = os.getpid()
    pid = os.getpid()

    def _rm():
        if os.getpid() == pid:
            shutil.rmtree(path, ignore_errors=True)

    atexit.register(_rm)


def mkscratch(prefix="d"):
    return tempfile.mkdtemp(prefix=prefix + "_", dir=scratch_root())


class TLCError(Exception):
    """Machinery failure (TLC crashed, spec error): exit code 2, never a verdict."""


class TLCResult(object):
    def __init__(self):
        self.generated = 0
        self.distinct = 0
        self.depth = 0
        self.coverage = {}
        self.out = ""
        self.wall_s = 0.0
        self.invariant_violated = None
        self.error = None
        self.dump_path = None
        self.workdir = None
        self.cmd = ""

    def summary(self):
        return {
            "cmd": self.cmd,
            "states_generated": self.generated,
            "distinct_states": self.distinct,
            "depth": self.depth,
            "wall_s": round(self.wall_s, 2),
            "actions": self.coverage,
        }


_RE_STATS = re.compile(r"(\d+) states generated, (\d+) distinct states found")
_RE_DEPTH = re.compile(r"The depth of the complete state graph search is (\d+)")
_RE_COV = re.compile(r"^<([A-Za-z_][A-Za-z0-9_]*) line \d+, col \d+ to line \d+, col \d+ of module ([A-Za-z0-9_]+)(?: \([\d ]+\))?>: (\d+):(\d+)", re.M)
_RE_INV = re.compile(r"Error: Invariant ([A-Za-z0-9_]+) is violated")
_RE_ERR = re.compile(r"^Error: (.*)$", re.M)


def run(
    module,
    cfg,
    workers=16,
    dump=False,
    simulate=None,
    depth=None,
    seed=None,
    env=None,
    timeout=5400,
    coverage=True,
    deque=False,
    extra_files=(),
    allow_invariant_violation=False,
    heap="8g",
):
    """Run TLC on spec/<module>.tla with config `cfg` (a path under spec/ or literal cfg text).

    Returns TLCResult.  Raises TLCError on any outcome other than a completed run (or an invariant
    violation when allow_invariant_violation)."""
    wd = mkscratch("tlc")
    for fn in os.listdir(SPEC):
        p = os.path.join(SPEC, fn)
        if fn.endswith(".tla") and os.path.isfile(p):
            shutil.copy(p, wd)
    for sub in ("gen", "trace"):
        d = os.path.join(SPEC, sub)
        if os.path.isdir(d):
            for fn in os.listdir(d):
                if fn.endswith(".tla"):
                    shutil.copy(os.path.join(d, fn), wd)
    for p in extra_files:
        shutil.copy(p, wd)
    if "\n" in cfg or not cfg.endswith(".cfg"):
        cfg_text = cfg
    else:
        with open(cfg if os.path.isabs(cfg) else os.path.join(SPEC, cfg)) as f:
            cfg_text = f.read()
    with open(os.path.join(wd, "MC.cfg"), "w") as f:
        f.write(cfg_text)
    cmd = ["java", "-XX:+UseParallelGC", "-Xmx" + heap]
    if not (env and "-Xss" in env.get("JAVA_TOOL_OPTIONS", "")):
        # recursive operators over long sequences (folds, sums over slices) overflow the default 1 MB thread stack
        cmd.append("-Xss512m")
    if deque:
        cmd.append("-Dtlc2.tool.queue.IStateQueue=StateDeque")
    if dump:
        # TLC pretty-prints dumped values to 80 columns, which dominates a dumping run; one value per line instead
        cmd.append("-Dtlc2.value.Values.width=100000000")
    cmd += ["-cp", JAR, "tlc2.TLC", "-workers", str(workers), "-metadir", os.path.join(wd, "meta"), "-noGenerateSpecTE", "-config", "MC.cfg"]
    if coverage and not simulate:
        cmd += ["-coverage", "1"]
    res = TLCResult()
    if dump:
        res.dump_path = os.path.join(wd, "states")
        cmd += ["-dump", res.dump_path]
        res.dump_path += ".dump"
    if simulate:
        simdir = os.path.join(wd, "sim")
        os.makedirs(simdir)
        cmd += ["-simulate", "file=%s/tr,num=%d" % (simdir, simulate)]
        res.sim_dir = simdir
        if depth:
            cmd += ["-depth", str(depth)]
        if seed is not None:
            cmd += ["-seed", str(seed)]
    cmd.append(module + ".tla")
    e = dict(os.environ)
    e.pop("JAVA_TOOL_OPTIONS", None)
    if env:
        e.update(env)
    t0 = time.time()
    try:
        p = subprocess.run(cmd, cwd=wd, env=e, stdout=subprocess.PIPE, stderr=subprocess.STDOUT, timeout=timeout)
    except subprocess.TimeoutExpired:
        raise TLCError("TLC timed out after %ss on %s" % (timeout, module))
    res.wall_s = time.time() - t0
    res.out = p.stdout.decode("utf-8", "replace")
    res.workdir = wd
    res.cmd = "tlc -workers %d %s%s.tla (cfg: %s)" % (
        workers,
        ("-simulate num=%d -depth %s " % (simulate, depth)) if simulate else "",
        module,
        cfg if cfg.endswith(".cfg") else "inline",
    )
    ms = _RE_STATS.findall(res.out)
    if ms:
        res.generated, res.distinct = int(ms[-1][0]), int(ms[-1][1])
    m = _RE_DEPTH.search(res.out)
    if m:
        res.depth = int(m.group(1))
    for m in _RE_COV.finditer(res.out):
        name = m.group(1)
        a, b = int(m.group(3)), int(m.group(4))
        if name in res.coverage:
            res.coverage[name] = [res.coverage[name][0] + a, res.coverage[name][1] + b]
        else:
            res.coverage[name] = [a, b]
    m = _RE_INV.search(res.out)
    if m:
        res.invariant_violated = m.group(1)
    errs = _RE_ERR.findall(res.out)
    if res.invariant_violated and allow_invariant_violation:
        return res
    finished = "Model checking completed. No error has been found." in res.out or (simulate and p.returncode == 0 and not errs)
    if not finished or errs:
        res.error = "; ".join(errs) or ("TLC exit %d" % p.returncode)
        raise TLCError("TLC failed on %s: %s\n%s" % (module, res.error, res.out[-3000:]))
    return res


def printed(res, tag):
    """Values printed with PrintT(<<"tag", x>>): returns list of x (parsed)."""
    out = []
    for line in res.out.splitlines():
        line = line.strip()
        if line.startswith('<<"%s"' % tag):
            out.append(tlaval.parse(line)[1:])
    return out


def sany(module_path):
    p = subprocess.run(
        ["java", "-cp", JAR, "tla2sany.SANY", os.path.basename(module_path)],
        cwd=os.path.dirname(module_path),
        stdout=subprocess.PIPE,
        stderr=subprocess.STDOUT,
    )
    out = p.stdout.decode("utf-8", "replace")
    ok = p.returncode == 0 and "error" not in out.lower().replace("errors: 0", "")
    return ok, out
