"""Regenerates /tmp/mutprompts/Cnn.txt (prompts for independent seeded-defect sub-agents, which must not read /verif)."""
import json, os
T = open(os.path.join(os.path.dirname(__file__), "mutation_prompt_template.txt")).read()
os.makedirs("/tmp/mutprompts", exist_ok=True)
for l in open(os.path.join(os.path.dirname(__file__), "..", "properties.jsonl")):
    p = json.loads(l)
    s = T.replace("{id}", p["id"]).replace("{title}", p["title"]).replace("{statement}", p["statement"]).replace("{quant}", p["quantifier"]["text"])
    open("/tmp/mutprompts/%s.txt" % p["id"], "w").write(s)
print("ok")
