"""Corpus of base streams and byte-level mutators for the consumer properties C02, C25, C26.

Base streams: (a) realistic streams produced by the library's encoder for a spread of small codec
configurations (the property's quantifier: "mutations of valid streams for many codec configurations"),
(b) tiny hand-assembled streams from harness/vc2bytes.py (independent of the library).
Mutators are seeded and field-aware (parse codes, offsets, header bits, slice lengths) as well as blind
(bit flips, byte substitution, insertion, deletion, truncation, splicing, pure random bytes).
"""
import io
import os
import random

from . import vc2bytes as vb

_BASE = None


def _features():
    from vc2_conformance.codec_features import read_codec_features_csv, CodecFeatures
    from vc2_data_tables import Profiles, PictureCodingModes, WaveletFilters, ColorDifferenceSamplingFormats, SourceSamplingModes, Levels

    repo = os.environ.get("VERIF_REPO", "/repo")
    with open(os.path.join(repo, "tests", "sample_codec_features.csv")) as f:
        minimal = read_codec_features_csv(f)["minimal"]

    def mk(**kw):
        cf = CodecFeatures(minimal)
        vp = kw.pop("video_parameters", None)
        for k, v in kw.items():
            cf[k] = v
        if vp:
            cf["video_parameters"] = type(minimal["video_parameters"])(minimal["video_parameters"], **vp)
        return cf

    out = []
    out.append(("hq_minimal", mk()))
    out.append(("hq_lossless", mk(lossless=True, picture_bytes=None)))
    out.append(("hq_fragments", mk(fragment_slice_count=1)))
    out.append(("hq_fragments_fields", mk(fragment_slice_count=2, picture_coding_mode=PictureCodingModes.pictures_are_fields, video_parameters=dict(frame_height=8, clean_height=8))))
    out.append(("ld_minimal", mk(profile=Profiles.low_delay, picture_bytes=32)))
    out.append(("ld_fragments", mk(profile=Profiles.low_delay, picture_bytes=32, fragment_slice_count=1)))
    out.append(("hq_legall_depth2", mk(wavelet_index=WaveletFilters.le_gall_5_3, wavelet_index_ho=WaveletFilters.le_gall_5_3, dwt_depth=2, picture_bytes=64, video_parameters=dict(frame_width=16, frame_height=8, clean_width=16, clean_height=8))))
    out.append(("hq_asym", mk(wavelet_index=WaveletFilters.haar_no_shift, wavelet_index_ho=WaveletFilters.le_gall_5_3, dwt_depth=1, dwt_depth_ho=1, picture_bytes=64, video_parameters=dict(frame_width=16, frame_height=8, clean_width=16, clean_height=8))))
    out.append(("hq_420_fields", mk(picture_coding_mode=PictureCodingModes.pictures_are_fields, video_parameters=dict(frame_width=8, frame_height=8, clean_width=8, clean_height=8, color_diff_format_index=ColorDifferenceSamplingFormats.color_4_2_0, source_sampling=SourceSamplingModes.interlaced))))
    out.append(("hq_422_10bit", mk(picture_bytes=48, video_parameters=dict(color_diff_format_index=ColorDifferenceSamplingFormats.color_4_2_2, luma_offset=64, luma_excursion=876, color_diff_offset=512, color_diff_excursion=896))))
    out.append(("hq_slices_3x2", mk(slices_x=3, slices_y=2, picture_bytes=60, video_parameters=dict(frame_width=12, frame_height=8, clean_width=12, clean_height=8))))
    return out


def _pictures(cf, n, rnd):
    from vc2_conformance.dimensions_and_depths import compute_dimensions_and_depths

    dd = compute_dimensions_and_depths(cf["video_parameters"], cf["picture_coding_mode"])
    pics = []
    for i in range(n):
        p = {}
        for comp, d in dd.items():
            hi = (1 << d.depth_bits) - 1
            p[comp] = [[rnd.randint(0, hi) for _ in range(d.width)] for _ in range(d.height)]
        pics.append(p)
    return pics


def encode(cf, n, rnd, *patterns):
    from vc2_conformance.encoder import make_sequence
    from vc2_conformance.bitstream import Stream, autofill_and_serialise_stream

    seq = make_sequence(cf, _pictures(cf, n, rnd), *patterns)
    f = io.BytesIO()
    autofill_and_serialise_stream(f, Stream(sequences=[seq]))
    return f.getvalue()


def tiny_streams():
    """hand-assembled conformant streams (independent of the library)"""
    out = []
    for prof, ver, frag, pn0 in (("HQ", 2, False, 0), ("LD", 1, False, 0), ("HQ", 3, True, 0), ("LD", 3, True, 0), ("HQ", 2, False, 7), ("HQ", 3, True, (1 << 32) - 2)):
        for fields in (False, True):
            if pn0 == 7 and fields:
                continue
            f = vb.Fmt(profile=prof, version=ver, fields=fields)
            pc = (vb.PC_HQ_PIC if prof == "HQ" else vb.PC_LD_PIC) if not frag else (vb.PC_HQ_FRAG if prof == "HQ" else vb.PC_LD_FRAG)
            units = [dict(code=vb.PC_SH, payload=vb.sequence_header_payload(f), first_in_sequence=True)]
            for pn in [(pn0 + i) % (1 << 32) for i in range(2 if pn0 == 0 else 4)]:
                if not frag:
                    units.append(dict(code=pc, payload=vb.picture_payload(f, prof, pn)))
                else:
                    units.append(dict(code=pc, payload=vb.fragment0_payload(f, prof, pn)))
                    units.append(dict(code=pc, payload=vb.fragmentn_payload(f, prof, pn, 1, 0, 0)))
                    units.append(dict(code=vb.PC_PAD, payload=b"\x00\xff"))
                    units.append(dict(code=pc, payload=vb.fragmentn_payload(f, prof, pn, 1, 1, 0)))
            units.append(dict(code=vb.PC_AUX, payload=b"aux!"))
            units.append(dict(code=vb.PC_EOS, payload=b"", npo="zero"))
            data, _ = vb.assemble(units)
            out.append(("tiny_%s_v%d_%s_%s%s" % (prof, ver, "frag" if frag else "pic", "fields" if fields else "frames", "" if pn0 == 0 else "_pn%d" % pn0), data))
    return out


HUGE = (1 << 15000) - 1  # 4516 decimal digits; as an exp-Golomb code 30001 bits (3751 bytes)


def huge_value_streams():
    """hand-assembled streams in which ONE variable-length (exp-Golomb) field holds an integer of more than 4300
    decimal digits -- legal bitstream syntax, a few kB long, and nothing the resource bounds exclude (picture size,
    depths, slice counts and sample depths stay tiny).  A tool that prints or explains the value must cope."""
    out = []

    def stream(name, f, prof="HQ", sh_payload=None):
        units = [dict(code=vb.PC_SH, payload=sh_payload or vb.sequence_header_payload(f), first_in_sequence=True)]
        units.append(dict(code=(vb.PC_HQ_PIC if prof == "HQ" else vb.PC_LD_PIC), payload=vb.picture_payload(f, prof, 0)))
        units.append(dict(code=vb.PC_EOS, payload=b"", npo="zero"))
        data, _ = vb.assemble(units)
        out.append(("huge_" + name, data))

    stream("major_version", vb.Fmt(profile="HQ", version=HUGE))
    stream("level", vb.Fmt(profile="HQ", version=2, level=HUGE))
    stream("base_video_format", vb.Fmt(profile="HQ", version=2, base=HUGE))
    stream("wavelet_index", vb.Fmt(profile="HQ", version=2, wavelet=HUGE))
    # profile and minor_version: patch the header of a plain format (fields are, in order, major, minor, profile)
    for name, idx in (("minor_version", 1), ("profile", 2)):
        f = vb.Fmt(profile="HQ", version=2)
        b = vb.Bits()
        vals = [2, 0, 3, 0, 0]
        vals[idx] = HUGE
        for v in vals:
            b.uint(v)
        b.bool(1)
        b.uint(f.width)
        b.uint(f.height)
        for _ in range(4):
            b.bool(0)
        b.bool(1)
        b.uint(f.width)
        b.uint(f.height)
        b.uint(0)
        b.uint(0)
        b.bool(0)
        b.bool(0)
        b.uint(0)
        stream(name, f, sh_payload=b.tobytes())
    return out


def padded_slice_streams():
    """streams of the library's own decoder test-case generators whose slices carry long, non-constant padding
    (alternating bits, a dummy end-of-sequence) or values dangling off the end of a bounded block: conformant
    streams in which the unused bits of a slice are dozens of bits of structured data"""
    from vc2_conformance.test_cases import DECODER_TEST_CASE_GENERATOR_REGISTRY as reg, normalise_test_case_generator
    from vc2_conformance.bitstream import autofill_and_serialise_stream
    from vc2_data_tables import Profiles

    fns = dict((g.__name__, g) for g in reg.iter_registered_functions())
    minimal = dict(_features())["hq_minimal"]
    cfs = {"hq": type(minimal)(minimal, picture_bytes=150), "ld": type(minimal)(minimal, profile=Profiles.low_delay, picture_bytes=90)}
    want = {
        "hq": ["slice_padding_data[Y_alternating_0s_and_1s]", "slice_padding_data[C1_dummy_end_of_sequence]", "slice_padding_data[C2_alternating_0s_and_1s]", "dangling_bounded_block_data[lsb_stop_and_sign_dangling_C2]"],
        "ld": ["slice_padding_data[Y_alternating_1s_and_0s]", "slice_padding_data[C_dummy_end_of_sequence]", "slice_padding_data[C_alternating_0s_and_1s]", "dangling_bounded_block_data[sign_dangling_Y]"],
    }
    out = []
    for key, cf in sorted(cfs.items()):
        for gname in ("slice_padding_data", "dangling_bounded_block_data"):
            for tc in normalise_test_case_generator(fns[gname], cf):
                if tc.name in want[key]:
                    f = io.BytesIO()
                    autofill_and_serialise_stream(f, tc.value)
                    out.append(("%s_%s" % (key, tc.name.replace("[", "_").replace("]", "")), f.getvalue()))
    if len(out) < 6:
        raise RuntimeError("padded_slice_streams: only %d of the expected test cases were generated" % len(out))
    return out


def custom_header_streams():
    """hand-assembled streams whose sequence header codes every source parameter explicitly; the variants carry a
    zero frame-rate / pixel-aspect-ratio denominator (not conformant, but every tool must cope with the value)"""
    out = []
    f = vb.Fmt(profile="HQ", version=2)
    for name, fr, par in (("all_custom", (25, 1), (1, 1)), ("zero_frame_rate_denominator", (25, 0), (1, 1)), ("zero_aspect_ratio_denominator", (30000, 1001), (0, 0))):
        units = [dict(code=vb.PC_SH, payload=vb.sequence_header_all_custom(f, fr, par), first_in_sequence=True)]
        units.append(dict(code=vb.PC_HQ_PIC, payload=vb.picture_payload(f, "HQ", 0)))
        units.append(dict(code=vb.PC_EOS, payload=b"", npo="zero"))
        out.append(("tiny_header_" + name, vb.assemble(units)[0]))
    return out


def _units(data):
    offs = pi_offsets(data)
    return [data[o:(offs[i + 1] if i + 1 < len(offs) else len(data))] for i, o in enumerate(offs)]


def mixed_parameter_streams(rnd):
    """One sequence whose pictures use different transform parameters (legal: they are per picture): the picture
    data units of a second encoding are spliced, at byte level, into the sequence of a first one."""
    from vc2_conformance.codec_features import CodecFeatures
    from vc2_data_tables import WaveletFilters, Profiles

    minimal = dict(_features())["hq_minimal"]
    vp = type(minimal["video_parameters"])(minimal["video_parameters"], frame_width=16, frame_height=8, clean_width=16, clean_height=8)

    def qm(d, dho):
        m = {0: {"LL": 0}} if dho == 0 else dict([(0, {"L": 0})] + [(l, {"H": 1}) for l in range(1, dho + 1)])
        for l in range(dho + 1, dho + d + 1):
            m[l] = {"HL": 1, "LH": 1, "HH": 2}
        return m

    def enc(d, dho, first_pn, profile=Profiles.high_quality, fsc=0, height=8):
        vp = type(minimal["video_parameters"])(minimal["video_parameters"], frame_width=16, frame_height=height, clean_width=16, clean_height=height)
        cf = CodecFeatures(minimal, video_parameters=vp, wavelet_index=WaveletFilters.haar_no_shift, wavelet_index_ho=WaveletFilters.le_gall_5_3,
                           dwt_depth=d, dwt_depth_ho=dho, quantization_matrix=qm(d, dho), picture_bytes=96, profile=profile, fragment_slice_count=fsc)
        pics = _pictures(cf, 1, rnd)
        pics[0]["pic_num"] = first_pn
        return encode_pics(cf, pics)

    out = []
    for name, plan, kw in (
        ("hq_mixed_dho_up", [(1, 0), (1, 1), (1, 0)], {}),
        ("hq_mixed_depth_down", [(2, 0), (1, 0), (0, 1)], {}),
        ("ld_mixed_fragments", [(1, 1), (1, 0)], {"profile": Profiles.low_delay, "fsc": 1}),
        # the same TOTAL depth split differently, on a height (6) that the two splits pad differently (8 and 6)
        ("hq_mixed_same_total_depth", [(2, 0), (0, 0), (1, 1), (0, 2), (2, 0)], {"height": 6}),
    ):
        parts = [_units(enc(d, dho, i, **kw)) for i, (d, dho) in enumerate(plan)]
        units = parts[0][:-1]
        for p in parts[1:]:
            units += p[1:-1]
        units.append(parts[0][-1])
        out.append((name, fix_offsets(b"".join(units))))
    return out


def encode_pics(cf, pics, *patterns):
    from vc2_conformance.encoder import make_sequence
    from vc2_conformance.bitstream import Stream, autofill_and_serialise_stream

    f = io.BytesIO()
    autofill_and_serialise_stream(f, Stream(sequences=[make_sequence(cf, pics, *patterns)]))
    return f.getvalue()


def base_streams():
    """[(name, bytes)] -- deterministic (fixed seed), cached per process"""
    global _BASE
    if _BASE is None:
        rnd = random.Random(12345)
        out = []
        for name, cf in _features():
            n = 2
            out.append((name, encode(cf, n, rnd)))
        name, cf = _features()[0]
        out.append(("hq_minimal_padded", encode(cf, 2, rnd, "sequence_header (padding_data . auxiliary_data)* end_of_sequence")))
        out.append(("hq_minimal_two_sequences", out[0][1] + out[1][1]))
        out += tiny_streams()
        out += mixed_parameter_streams(rnd)
        # two sequences with EQUAL video parameters but different picture coding mode (frames / fields), both orders
        tiny = dict(out)
        out.append(("tiny_frames_then_fields", tiny["tiny_HQ_v2_pic_frames"] + tiny["tiny_HQ_v2_pic_fields"]))
        out.append(("tiny_fields_then_frames_then_fields", tiny["tiny_LD_v1_pic_fields"] + tiny["tiny_LD_v1_pic_frames"] + tiny["tiny_LD_v1_pic_fields"]))
        # sequences declaring DIFFERENT levels in one stream (level 1's value table is the any-value column the
        # validator family installs; its ordering pattern is the repository's)
        f1 = vb.Fmt(profile="HQ", version=2, level=1)
        lvl1, _ = vb.assemble([dict(code=vb.PC_SH, payload=vb.sequence_header_payload(f1), first_in_sequence=True), dict(code=vb.PC_HQ_PIC, payload=vb.picture_payload(f1, "HQ", 0)), dict(code=vb.PC_EOS, payload=b"", npo="zero")])
        out.append(("tiny_level0_then_level1", tiny["tiny_HQ_v2_pic_frames"] + lvl1))
        out.append(("tiny_level1_then_level0", lvl1 + tiny["tiny_LD_v1_pic_frames"]))
        # a transform for which Annex D defines no default quantisation matrix, and no custom matrix in the stream
        fq = vb.Fmt(profile="HQ", version=3, wavelet=0)
        fq.wavelet_ho = 1
        nq, _ = vb.assemble([dict(code=vb.PC_SH, payload=vb.sequence_header_payload(fq), first_in_sequence=True), dict(code=vb.PC_HQ_PIC, payload=vb.picture_payload(fq, "HQ", 0)), dict(code=vb.PC_EOS, payload=b"", npo="zero")])
        out.append(("tiny_no_default_quant_matrix", nq))
        out += padded_slice_streams()
        out += custom_header_streams()
        out += huge_value_streams()
        out.append(("empty_stream", b""))
        _BASE = out
    return _BASE


def conformant_by_construction(name):
    """base streams that are conformant because of how they were made (encoder output, hand-assembled per the
    standard, test-case generator output, concatenations of those) -- everything except the streams made to be wrong"""
    return not (name.startswith("huge_") or name.startswith("tiny_header_zero_") or name == "tiny_no_default_quant_matrix")


def pi_offsets(data):
    """byte offsets of parse_info headers found by following next_parse_offset / scanning for the prefix"""
    offs = []
    i = data.find(vb.PREFIX)
    while i != -1:
        offs.append(i)
        i = data.find(vb.PREFIX, i + 1)
    return offs


MUTATORS = ["bitflip", "byteset", "insert", "delete", "truncate", "parse_code", "next_offset", "prev_offset", "header_bits", "splice", "dup_unit", "drop_unit", "swap_units", "tail_garbage", "random", "multi"]


def fix_offsets(data):
    """Recompute next/previous parse offsets from the positions of the parse_info prefixes, so that a
    structural mutation (inserted / dropped / reordered / resized units) reaches the deeper checks."""
    b = bytearray(data)
    offs = [o for o in pi_offsets(data) if o + 13 <= len(b)]
    for j, o in enumerate(offs):
        nxt = (offs[j + 1] - o) if j + 1 < len(offs) else 0
        if b[o + 4] == 0x10:
            nxt = 0
        prev = (o - offs[j - 1]) if j > 0 and b[offs[j - 1] + 4] != 0x10 else 0
        b[o + 5 : o + 9] = bytearray(vb.u32(nxt))
        b[o + 9 : o + 13] = bytearray(vb.u32(prev))
    return bytes(b)


def mutate(data, rnd, kind=None):
    """returns (kind, mutated bytes)"""
    kind = kind or rnd.choice(MUTATORS)
    if kind in ("insert", "delete", "splice", "dup_unit", "drop_unit", "swap_units", "header_bits", "parse_code", "multi") and rnd.random() < 0.5:
        k, d = _mutate(data, rnd, kind)
        return k + "+fixoffsets", fix_offsets(d)
    return _mutate(data, rnd, kind)


def _mutate(data, rnd, kind):
    b = bytearray(data)
    n = len(b)
    offs = pi_offsets(data)

    def unit_bounds():
        j = rnd.randrange(len(offs))
        return offs[j], (offs[j + 1] if j + 1 < len(offs) else n)

    if kind == "bitflip" and n:
        for _ in range(rnd.choice([1, 1, 1, 2, 3, 8])):
            i = rnd.randrange(n)
            b[i] ^= 1 << rnd.randrange(8)
    elif kind == "byteset" and n:
        for _ in range(rnd.choice([1, 1, 2, 4])):
            b[rnd.randrange(n)] = rnd.choice([0, 1, 0x7F, 0x80, 0xFF, rnd.randrange(256)])
    elif kind == "insert":
        i = rnd.randrange(n + 1)
        b[i:i] = bytearray(rnd.randrange(256) for _ in range(rnd.choice([1, 1, 2, 4, 13])))
    elif kind == "delete" and n:
        i = rnd.randrange(n)
        del b[i : i + rnd.choice([1, 1, 2, 4, 13])]
    elif kind == "truncate" and n:
        del b[rnd.randrange(n) :]
    elif kind == "parse_code" and offs:
        o = rnd.choice([x for x in offs if x + 4 < n] or [0])
        if n > 4:
            b[o + 4] = rnd.choice([0x00, 0x10, 0x20, 0x30, 0xC8, 0xE8, 0xCC, 0xEC, 0x08, 0x11, 0xC0, 0xFF, rnd.randrange(256)])
    elif kind in ("next_offset", "prev_offset") and offs:
        o = rnd.choice(offs) + (5 if kind == "next_offset" else 9)
        v = rnd.choice([0, 1, 12, 13, 14, n, 0xFFFFFFFF, rnd.randrange(0, 64), rnd.randrange(0, max(1, n))])
        b[o : o + 4] = bytearray(vb.u32(v))
    elif kind == "header_bits" and offs:
        # flip bits in the first bytes after a parse_info header (sequence header / picture header / transform parameters)
        o = rnd.choice(offs) + 13
        for _ in range(rnd.choice([1, 1, 2, 3])):
            i = o + rnd.randrange(0, 12)
            if i < n:
                b[i] ^= 1 << rnd.randrange(8)
    elif kind == "splice" and offs:
        s, e = unit_bounds()
        other = rnd.choice(base_streams())[1]
        oo = pi_offsets(other)
        if oo:
            j = rnd.randrange(len(oo))
            b[s:e] = bytearray(other[oo[j] : (oo[j + 1] if j + 1 < len(oo) else len(other))])
    elif kind == "dup_unit" and offs:
        s, e = unit_bounds()
        b[e:e] = b[s:e]
    elif kind == "drop_unit" and offs:
        s, e = unit_bounds()
        del b[s:e]
    elif kind == "swap_units" and len(offs) >= 3:
        j = rnd.randrange(len(offs) - 1)
        s, m = offs[j], offs[j + 1]
        e = offs[j + 2] if j + 2 < len(offs) else n
        b[s:e] = b[m:e] + b[s:m]
    elif kind == "tail_garbage":
        b += bytearray(rnd.randrange(256) for _ in range(rnd.choice([1, 4, 13, 40])))
    elif kind == "random":
        b = bytearray(rnd.randrange(256) for _ in range(rnd.choice([0, 1, 5, 13, 14, 40, 200])))
        if rnd.random() < 0.5:
            b[0:0] = bytearray(vb.PREFIX + bytes(bytearray([rnd.choice([0, 0x10, 0x20, 0xE8, 0xEC, 0xC8])])))
    elif kind == "multi":
        d = bytes(b)
        for _ in range(rnd.choice([2, 3, 5])):
            _, d = _mutate(d, rnd, rnd.choice(MUTATORS[:-2]))
        b = bytearray(d)
    return kind, bytes(b)
