"""C02 -- the validator terminates with a verdict on any byte string.

Spec: spec/ToolOutcomeTrace.tla (the validator's outcome machine has terminal states accept / conformance
error only; after a conformance error explain(), offending_offset() and bitstream_viewer_hint() work) and
spec/Validator.tla (every malformed-history transition of C01 is also executed here via C01's evidence).
Binding (T): seeded byte-level and field-aware mutants of valid streams for many codec configurations
(harness/corpus.py) and random bytes are run through vc2_conformance.decoder.parse_stream under the resource
guard; one event per run is recorded and TLC validates the trace against the outcome machine.
"""
from textwrap import dedent

from .. import common, trace, tlc
from .. import validator_common as vc


def run_one(job):
    name, kind, data = vc.make_mutant(job)
    return judge_bytes(data, name, kind)


def _sig(stage, e, x):
    """signature of a failing explain()/offending_offset()/hint: the interpreter's int->str digit limit (Python
    3.11+) is one cause whatever the conformance error, every other failure is identified by error type and site"""
    if isinstance(x, ValueError) and "integer string conversion" in str(x):
        return "%s:IntMaxStrDigits" % stage
    return "%s:%s:%s" % (stage, type(e).__name__, common.exc_signature(x))


def judge_bytes(data, name, kind):
    r = vc.guarded_validate(data)
    ev = {"ev": "validate", "outcome": r["outcome"], "exc": r["exc"] or "", "explain": "na", "offset": "na", "hint": "na", "base": name, "kind": kind, "len": len(data)}
    detail = None
    if r["outcome"] == "crash":
        detail = "%s: %s" % (r["sig"], r.get("msg"))
        ev["sig"] = r["sig"]
    if r["outcome"] == "reject":
        e = r["error"]
        from vc2_conformance.decoder import tell
        from vc2_conformance.bitstream import to_bit_offset
        from vc2_conformance.string_utils import wrap_paragraphs

        off = None
        try:
            summary, _, details = wrap_paragraphs(e.explain()).partition("\n")
            wrap_paragraphs(summary, 80), wrap_paragraphs(details, 80)
            str(e)
            ev["explain"] = "ok"
        except Exception as x:  # noqa
            ev["explain"] = "fail"
            detail = "explain(): %s" % common.exc_signature(x)
            ev["sig"] = _sig("explain", e, x)
        try:
            off = e.offending_offset()
            if off is None:
                off = to_bit_offset(*tell(r["state"]))
            int(off)
            ev["offset"] = "ok"
        except Exception as x:  # noqa
            ev["offset"] = "fail"
            detail = "offending_offset(): %s" % common.exc_signature(x)
            ev["sig"] = _sig("offset", e, x)
        try:
            dedent(e.bitstream_viewer_hint()).strip().format(cmd="vc2-bitstream-viewer", file="f.vc2", offset=off)
            ev["hint"] = "ok"
        except Exception as x:  # noqa
            ev["hint"] = "fail"
            detail = "bitstream_viewer_hint(): %s" % common.exc_signature(x)
            ev["sig"] = _sig("hint", e, x)
    return ev, detail


# ---------------------------------------------------------------------------------- G direction
# Structured malformed streams: every (abstract validator state, data unit) transition of Validator.tla for a few
# configurations, as bytes from the independent writer.  C01 judges the verdicts; here only the C02 clauses apply
# (no crash; every conformance error can be explained, located and hinted).
G_CFGS = [
    {"prof": "HQ", "ver": 3, "pat": "any", "fields": False, "sx": 1},
    {"prof": "LD", "ver": 3, "pat": "nomix", "fields": True, "sx": 2},
    {"prof": "HQ", "ver": 2, "pat": "althq", "fields": False, "sx": 2},
]


def g_chunk(text):
    vc.install_permissive_levels()
    out = []
    for st in vc.parse_chunk(text):
        if not st["hist"]:
            continue
        data = vc.history_bytes(st["cfg"], st["hist"])
        ev, detail = judge_bytes(data, "validator-history", "+".join(h["u"]["k"] for h in st["hist"]))
        bad = ev["outcome"] == "crash" or "fail" in (ev["explain"], ev["offset"], ev["hint"])
        out.append((ev, detail, {"cfg": st["cfg"], "hist": st["hist"]} if bad else None))
    return out


def g_direction(ctx):
    from . import c01

    cfgs = G_CFGS if ctx.quick else vc.ALL_CFGS[::3]
    mc = vc.write_mc_module(cfgs)
    res = tlc.run("ValidatorMC", c01.MC_CFG, dump=True, extra_files=[mc], timeout=3000)
    ctx.add_tlc(res, "Validator.tla transitions (structured malformed streams)", {"Cfgs": cfgs})
    outs = []
    for part in common.pmap(g_chunk, vc.split_dump(res.dump_path, 128), chunksize=1):
        outs += part
    return outs


def run(ctx):
    vc.install_permissive_levels()
    jobs = vc.mutant_jobs(ctx, 500, 12000)
    outs = common.pmap(run_one, jobs)
    gouts = g_direction(ctx)
    nmut = len(outs)
    outs = outs + [(ev, detail) for ev, detail, case in gouts]
    gcase = {nmut + i: case for i, (ev, detail, case) in enumerate(gouts)}
    records = []
    for tid, (ev, detail) in enumerate(outs):
        ev["tid"] = tid
        records.append(ev)
    # binding self-test: an event recording a crash must be rejected by the trace spec
    probe = dict(records[0], tid=len(records), outcome="crash")
    bad, res = trace.validate("ToolOutcomeTrace", records + [probe])
    ctx.add_tlc(res, "trace validation (ToolOutcomeTrace, validate events)")
    if not any(b["tid"] == probe["tid"] and b["clause"] == "VerdictIsAcceptOrConformanceError" for b in bad):
        raise RuntimeError("binding self-test failed: a recorded crash was accepted by the trace spec")
    counts = {}
    excs = {}
    for ev in records:
        counts[ev["outcome"]] = counts.get(ev["outcome"], 0) + 1
        if ev["outcome"] == "reject":
            excs[ev["exc"]] = excs.get(ev["exc"], 0) + 1
    for b in bad:
        if b["tid"] == probe["tid"] or not b["alarm"]:
            continue
        ev, detail = outs[b["tid"]]
        if b["tid"] >= nmut:
            ctx.violation("C02|%s|%s" % (b["clause"], ev.get("sig", ev["exc"])), "%s on the structured stream %s: %s" % (b["clause"], ev["kind"], detail), gcase[b["tid"]])
        else:
            ctx.violation("C02|%s|%s" % (b["clause"], ev.get("sig", ev["exc"])), "%s on mutant %s/%s of %s: %s" % (b["clause"], ev["kind"], jobs[b["tid"]][1], ev["base"], detail), {"job": list(jobs[b["tid"]])})
    if counts.get("accept", 0) == 0 or counts.get("reject", 0) < 10:
        raise RuntimeError("vacuous corpus: %s" % counts)
    distinct = len(set((ev["base"], ev["kind"], ev["outcome"], ev["exc"], ev["len"]) for ev in records))
    ctx.coverage.update(
        {
            "traces_validated_against_impl": len(records),
            "evaluations": len(records),
            "distinct_nontrivial": distinct,
            "rule": "one validator run per seeded mutant (16 mutator kinds incl. parse codes, offsets, header bits, splices, truncation, random bytes) of 21 valid base streams; distinct = different (base, mutator, outcome, exception class, length); non-trivial = all (identity mutants are 2%)",
            "exhaustive": False,
            "outcomes": counts,
            "structured_histories_from_Validator_tla": len(gouts),
            "conformance_error_classes_reached": len(excs),
            "conformance_error_classes": excs,
            "out_of_scope": counts.get("oos", 0) + counts.get("timeout", 0),
            "bounds": vc.BOUNDS,
            "binding_selftest": "an appended event with outcome=crash is rejected with clause VerdictIsAcceptOrConformanceError",
            "spec_disagreements": sum(1 for b in bad if not b["alarm"]),
            "samples": [dict((k, records[i][k]) for k in ("base", "kind", "len", "outcome", "exc", "explain", "offset", "hint")) for i in (0, 1, len(records) // 2, len(records) - 1)],
        }
    )
    ctx.assumptions += ["streams declaring more than 64x64 pixels, depth > 4, > 256 slices or > 16-bit excursions are aborted by an in-process wrapper and counted as out of scope", "5 s per-run timeout (timeouts counted, not judged)"]


def replay(case):
    vc.install_permissive_levels()
    if "hist" in case:
        data = vc.history_bytes(case["cfg"], case["hist"])
        ev, detail = judge_bytes(data, "validator-history", "")
        bad = ev["outcome"] == "crash" or "fail" in (ev["explain"], ev["offset"], ev["hint"])
        return {"event": ev, "detail": detail, "bytes_hex": data.hex(), "violations": [detail] if bad else []}
    ev, detail = run_one(tuple(case["job"]))
    name, kind, data = vc.make_mutant(tuple(case["job"]))
    bad = ev["outcome"] == "crash" or "fail" in (ev["explain"], ev["offset"], ev["hint"])
    return {"event": ev, "detail": detail, "bytes_hex": data.hex(), "violations": [detail] if bad else []}
