"""C04 -- lossless and unquantised encodings reconstruct pictures exactly.

Spec: CodecOps!ExactExpected (lossless, or every slice of the picture coded with qindex 0 as read back from the
serialised bytes) + CodecTrace clause C04.Exact; configurations from CodecConfig.tla (TLC), restricted to those that
can reach qindex 0 (lossless; or minimum_qindex 0 with the spec's sufficient budget class 'q0' or flat content).
Binding: same executions as C03 (harness/drivers/codec_common.py); the decoded samples are compared with the input
picture of the same index (equality only, R2c); TLC decides whether the comparison applies and judges it.
Alarm (R1): a decoded picture of a lossless / all-qindex-0 coded picture differs from its input (C04.Exact).
"""
from . import codec_common as cc


def can_be_exact(c):
    cfg = c["cfg"]
    return cfg["mode"] == "hq_lossless" or (cfg["minq"] == 0 and (cfg["pb"] == "q0" or cfg["content"] in ("zeros", "mid")))


def selftest(ctx, cfgs):
    from vc2_conformance.encoder import pictures as encp

    orig = encp.picture_encode

    def broken(state, picture):
        picture["Y"][0][0] += 1  # the encoder transforms a picture that differs in one sample
        return orig(state, picture)

    encp.picture_encode = broken
    try:
        recs = cc.selftest_runs(cfgs, lambda c: c["mode"] == "hq_lossless")
    finally:
        encp.picture_encode = orig
    bad, _, _ = cc.judge(recs)
    hit = [b for b in bad if b["clause"] == "C04.Exact"]
    if not hit:
        raise RuntimeError("binding self-test failed: an encoder that alters one sample was not flagged")
    good = cc.selftest_runs(cfgs, lambda c: c["mode"] == "hq_lossless")
    bad0, _, _ = cc.judge(good)
    dirty = set(b["line"] for b in bad0 if b["clause"].startswith("C04."))
    probe = [dict(r) for r in good]
    tgt = next((i for i, r in enumerate(probe) if r["pics"] and (i + 1) not in dirty), None)
    note = "skipped: every baseline run already violates C04"
    if tgt is not None:
        probe[tgt] = dict(probe[tgt], pics=[dict(probe[tgt]["pics"][0], equal=False)] + probe[tgt]["pics"][1:])
        bad1, _, _ = cc.judge(probe)
        if not any(b["clause"] == "C04.Exact" and b["line"] == tgt + 1 for b in bad1):
            raise RuntimeError("binding self-test failed: corrupted 'equal' field not rejected")
        note = "pics[0].equal=false rejected with C04.Exact"
    return {"mutant": "picture_encode given a picture with one altered sample (in-process monkeypatch)", "runs_flagged": len(hit), "corrupted_field": note}


def applies(rec):
    return rec["enc"] == "ok" and rec["ser"] == "ok" and bool(rec["pics"]) and (rec["cfg"]["mode"] == "hq_lossless" or (bool(rec["q0"]) and any(rec["q0"])))


def nontrivial(job, result):
    return applies(result["records"][0]) and job["cfg"]["content"] not in ("zeros", "mid")


def run(ctx):
    out = cc.run_family(
        ctx,
        "C04",
        only=can_be_exact,
        selftest=selftest,
        nontrivial=nontrivial,
        rule="one real encode/serialise/decode run per TLC configuration that can reach qindex 0; evaluations = runs with at least one picture judged by C04.Exact (lossless, or all slices read back with qindex 0); non-trivial = such a run with non-flat picture content",
    )
    recs = out["records"]
    lossy_q0 = sum(1 for r in recs if r["cfg"]["mode"] != "hq_lossless" and r["q0"] and all(r["q0"]))
    lossy_q0_nonflat = sum(1 for r in recs if r["cfg"]["mode"] != "hq_lossless" and r["q0"] and all(r["q0"]) and r["cfg"]["content"] not in ("zeros", "mid"))
    ctx.coverage["lossless_runs"] = sum(1 for r in recs if r["cfg"]["mode"] == "hq_lossless")
    ctx.coverage["lossy_runs_all_qindex0"] = lossy_q0
    ctx.coverage["lossy_runs_all_qindex0_nonflat_content"] = lossy_q0_nonflat
    ctx.coverage["lossy_runs_not_applicable"] = sum(1 for r in recs if r["cfg"]["mode"] != "hq_lossless" and not (r["q0"] and any(r["q0"])))
    # (vacuity of the clause as a whole is checked by run_family; the lossy/qindex-0 part is reported, not required,
    #  because a change to the rate control -- property C14 -- may legitimately make it empty)


def replay(case):
    return cc.replay_case(case, "C04")
