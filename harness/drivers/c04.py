"""C04 -- lossless and unquantised encodings reconstruct pictures exactly.

Spec: CodecOps!ExactExpected (lossless, or every slice of the picture coded with qindex 0 as read back from the
serialised bytes) + CodecTrace clause C04.Exact; configurations from CodecConfig.tla (TLC), restricted to those that
can reach qindex 0 (lossless; or minimum_qindex 0 with the spec's sufficient budget class 'q0' or flat content).
Binding: same executions as C03 (harness/drivers/codec_common.py); the decoded samples are compared with the input
picture of the same index (equality only, R2c); TLC decides whether the comparison applies and judges it.
Alarm (R1): a decoded picture of a lossless / all-qindex-0 coded picture differs from its input (C04.Exact).
"""
from .. import common
from . import codec_common as cc


def can_be_exact(c):
    cfg = c["cfg"]
    return cfg["mode"] == "hq_lossless" or (cfg["minq"] == 0 and (cfg["pb"] == "q0" or cfg["content"] in ("zeros", "mid")))


def selftest(ctx, cfgs):
    from vc2_conformance.encoder import pictures as encp

    orig = encp.picture_encode

    def broken(state, picture):
        picture["Y"][0][0] += 1  # the encoder transforms a picture that differs in one sample
        return orig(state, picture)

    encp.picture_encode = broken
    try:
        recs = cc.selftest_runs(cfgs, lambda c: c["mode"] == "hq_lossless")
    finally:
        encp.picture_encode = orig
    bad, _, _ = cc.judge(recs)
    hit = [b for b in bad if b["clause"] == "C04.Exact"]
    if not hit:
        raise RuntimeError("binding self-test failed: an encoder that alters one sample was not flagged")
    good = cc.selftest_runs(cfgs, lambda c: c["mode"] == "hq_lossless")
    bad0, _, _ = cc.judge(good)
    dirty = set(b["line"] for b in bad0 if b["clause"].startswith("C04."))
    probe = [dict(r) for r in good]
    tgt = next((i for i, r in enumerate(probe) if r["pics"] and (i + 1) not in dirty), None)
    note = "skipped: every baseline run already violates C04"
    if tgt is not None:
        probe[tgt] = dict(probe[tgt], pics=[dict(probe[tgt]["pics"][0], equal=False)] + probe[tgt]["pics"][1:])
        bad1, _, _ = cc.judge(probe)
        if not any(b["clause"] == "C04.Exact" and b["line"] == tgt + 1 for b in bad1):
            raise RuntimeError("binding self-test failed: corrupted 'equal' field not rejected")
        note = "pics[0].equal=false rejected with C04.Exact"
    return {"mutant": "picture_encode given a picture with one altered sample (in-process monkeypatch)", "runs_flagged": len(hit), "corrupted_field": note}


def applies(rec):
    return rec["enc"] == "ok" and rec["ser"] == "ok" and bool(rec["pics"]) and (rec["cfg"]["mode"] == "hq_lossless" or (bool(rec["q0"]) and any(rec["q0"])))


def nontrivial(job, result):
    return applies(result["records"][0]) and job["cfg"]["content"] not in ("zeros", "mid")


def run(ctx):
    out = cc.run_family(
        ctx,
        "C04",
        only=can_be_exact,
        selftest=selftest,
        nontrivial=nontrivial,
        rule="one real encode/serialise/decode run per TLC configuration that can reach qindex 0; evaluations = runs with at least one picture judged by C04.Exact (lossless, or all slices read back with qindex 0); non-trivial = such a run with non-flat picture content",
    )
    recs = out["records"]
    lossy_q0 = sum(1 for r in recs if r["cfg"]["mode"] != "hq_lossless" and r["q0"] and all(r["q0"]))
    lossy_q0_nonflat = sum(1 for r in recs if r["cfg"]["mode"] != "hq_lossless" and r["q0"] and all(r["q0"]) and r["cfg"]["content"] not in ("zeros", "mid"))
    ctx.coverage["lossless_runs"] = sum(1 for r in recs if r["cfg"]["mode"] == "hq_lossless")
    ctx.coverage["lossy_runs_all_qindex0"] = lossy_q0
    ctx.coverage["lossy_runs_all_qindex0_nonflat_content"] = lossy_q0_nonflat
    ctx.coverage["lossy_runs_not_applicable"] = sum(1 for r in recs if r["cfg"]["mode"] != "hq_lossless" and not (r["q0"] and any(r["q0"])))
    ctx.coverage["supplementary_runs"] = supplement(ctx, out["cfgs"])
    # (vacuity of the clause as a whole is checked by run_family; the lossy/qindex-0 part is reported, not required,
    #  because a change to the rate control -- property C14 -- may legitimately make it empty)


# ---------------------------------------------------------------------------------- supplements
# (a) low-delay pictures with a generous byte budget (every slice reaches qindex 0) and noisy content: the only
#     place where DC prediction (13.4) and its encoder-side inverse meet exact reconstruction;
# (b) streams of TWO sequences (asymmetric lossless sequence followed by a symmetric one and vice versa): the
#     automatic field filling works per stream, the property per decoded picture.
def _ld_q0_job(i, c, seed):
    cfg = dict(c["cfg"], minq=0, minscaler=1, content=("random" if i % 3 else "checker"), pb="q0")
    dm = c["outcome"]["dims"]
    raw = (dm["yw"] * dm["yh"] + 2 * dm["cw"] * dm["ch"]) * 8 + 64 * cfg["sx"] * cfg["sy"]
    return {"tid": i + 1, "cfg": cfg, "outcome": dict(c["outcome"], picture_bytes=raw), "seed": seed, "repack": []}


def two_sequence_run(arg):
    """encode two configurations as ONE stream of two sequences; decode; compare every picture with its input"""
    from io import BytesIO
    from vc2_conformance.encoder.sequence import make_sequence
    from vc2_conformance.bitstream import Stream, autofill_and_serialise_stream

    tid, a, b, seed = arg
    rec = dict(cc.EMPTY_STREAM)
    rec.update({"tid": tid, "ev": "run", "kind": "encoder", "cfg": a["cfg"], "npics": a["cfg"]["npics"] + b["cfg"]["npics"], "enc": "ok", "ser": "ok", "verdict": "none", "pics": []})
    try:
        fa, fb = cc.make_features(a["cfg"], a["outcome"]), cc.make_features(b["cfg"], b["outcome"])
        pa, pb = cc.make_pictures(dict(a["cfg"], pn="auto"), a["outcome"], seed), cc.make_pictures(dict(b["cfg"], pn="auto"), b["outcome"], seed + 1)
        f = BytesIO()
        autofill_and_serialise_stream(f, Stream(sequences=[make_sequence(fa, pa), make_sequence(fb, pb)]))
        data = f.getvalue()
    except Exception as e:  # noqa
        rec["enc"] = "crash"
        return {"records": [rec], "detail": {"exc": common.exc_signature(e)}}
    verdict, sig, pics = cc.decode(data, None, pa + pb)
    rec["verdict"], rec["pics"] = verdict, pics
    # both sequences are lossless: every picture is judged
    rec["q0"] = [True] * len(pics)
    return {"records": [rec], "detail": {"exc": sig}}


def _shared_job(i, c, seed):
    cfg = dict(c["cfg"], content=("random" if i % 2 else "checker"))
    return {"tid": i + 1, "cfg": cfg, "outcome": c["outcome"], "seed": seed, "repack": [], "share": ("rows", "planes", "both")[i % 3]}


def supplement(ctx, cfgs):
    allc = cc.LAST_ALL or cfgs
    # (c) the same picture values held in objects that share storage: rows that are one list object
    #     ([row] * h) and one plane object used for C1 and C2 -- a picture is its values, not its object graph
    llc = [c for c in allc if c["cfg"]["mode"] == "hq_lossless" and c["outcome"]["dims"]["yh"] > 1]
    jobs3 = [_shared_job(i, c, ctx.seed * 23 + i) for i, c in enumerate(llc[: ctx.pick(90, 900)])]
    results3 = cc.run_jobs(jobs3)
    records3, _ = cc.flatten(results3)
    bad3, _, res3 = cc.judge(records3)
    ctx.add_tlc(res3, "trace validation (CodecTrace) of %d supplementary runs (pictures whose rows / planes share objects)" % len(records3))
    n_shared = sum(1 for r in records3 if r["verdict"] == "accepted" and r["pics"])
    for b in bad3:
        if b["clause"].startswith("C04.") and b["alarm"]:
            rec = records3[b["line"] - 1]
            job = jobs3[rec["tid"] - 1]
            ctx.violation("C04|Exact|shared-objects|" + job["share"], "C04.Exact on a picture whose %s share storage: cfg %s" % (job["share"], rec["cfg"]), cc.case_of(job))
    if n_shared < 20:
        raise RuntimeError("vacuous supplement: %d accepted runs on pictures with shared rows/planes" % n_shared)
    ld = [c for c in allc if c["cfg"]["mode"] == "ld_lossy" and c["cfg"]["d"] + c["cfg"]["dho"] <= 2]
    jobs = [_ld_q0_job(i, c, ctx.seed * 13 + i) for i, c in enumerate(ld[: ctx.pick(150, 1500)])]
    results = cc.run_jobs(jobs)
    ll = [c for c in allc if c["cfg"]["mode"] == "hq_lossless"]
    asym = [c for c in ll if c["cfg"]["wi"] != c["cfg"]["wiho"] or c["cfg"]["dho"] > 0]
    sym = [c for c in ll if c["cfg"]["wi"] == c["cfg"]["wiho"] and c["cfg"]["dho"] == 0]
    # prefer symmetric sequences that need a LOWER major_version than an asymmetric one (no fragments, no
    # version-3 preset): then the two sequences of a stream really differ in what automatic filling must write
    low = [c for c in sym if c["cfg"]["fsc"] == 0 and c["cfg"]["range"] in (1, 2, 3, 7, 8, 9) and c["cfg"].get("colour", "base") in ("base", "rgb_matrix", "sd625", "hdtv_rgb")]
    sym = low + [c for c in sym if c not in low]
    plain_asym = [c for c in asym if c["cfg"]["fsc"] == 0 and c["cfg"]["range"] in (1, 2, 3, 7, 8, 9)]
    asym = plain_asym + [c for c in asym if c not in plain_asym]
    pairs = []
    for i in range(min(len(asym), ctx.pick(60, 600))):
        pairs.append((len(pairs) + 1, asym[i], (low[i % len(low)] if low else sym[i % len(sym)]), ctx.seed * 17 + i))
        pairs.append((len(pairs) + 1, sym[i % len(sym)], asym[-1 - i], ctx.seed * 19 + i))
    results2 = common.pmap(two_sequence_run, pairs)
    records, owner = cc.flatten(results + results2)
    bad, applied, res = cc.judge(records)
    ctx.add_tlc(res, "trace validation (CodecTrace) of %d supplementary runs (low-delay qindex-0 pictures, two-sequence streams)" % len(records))
    n_ld_q0 = sum(1 for r in records[: len(results)] if r["q0"] and all(r["q0"]) and r["pics"])
    n_two = sum(1 for r in records[len(results):] if r["verdict"] == "accepted")
    for b in bad:
        if b["clause"].startswith("C04.") and b["alarm"]:
            i = b["line"] - 1
            rec = records[i]
            if i < len(results):
                ctx.violation("C04|Exact|ld-qindex0|", "C04.Exact on a low-delay run with every slice at qindex 0: cfg %s" % rec["cfg"], cc.case_of(jobs[i]))
            else:
                a = pairs[i - len(results)]
                ctx.violation("C04|Exact|two-sequences|", "C04.Exact on a two-sequence stream: cfgs %s / %s" % (a[1]["cfg"], a[2]["cfg"]), {"two": [a[1], a[2], a[3]]})
    if n_ld_q0 < 20 or n_two < 20:
        raise RuntimeError("vacuous supplement: %d low-delay all-qindex-0 runs, %d accepted two-sequence streams" % (n_ld_q0, n_two))
    return {"low_delay_all_qindex0_runs": n_ld_q0, "two_sequence_streams_accepted": n_two, "shared_object_pictures_accepted": n_shared}


def replay(case):
    if "two" in case:
        a, b, seed = case["two"]
        r = two_sequence_run((1, a, b, seed))
        bad, _, _ = cc.judge(r["records"])
        return {"violations": [x for x in bad if x["alarm"] and x["clause"].startswith("C04.")], "detail": r["detail"]}
    return cc.replay_case(case, "C04")
