"""C28 -- codec-features CSV reading either succeeds in-domain or explains.

Spec: spec/CodecFeaturesCsv.tla (mutation model: TLC enumerates every single cell/row/column mutation of
the three sample codec-feature files and pairs of mutations of interacting fields, and predicts ok/invalid),
spec/CodecFeaturesOps.tla (documented domains), spec/CodecFeaturesTables.tla (generated: enumerations of
vc2_data_tables + abstract description of the sample files).
Binding: every TLC-generated mutation history is applied to the real sample CSV, written to a file, opened
the way vc2-test-case-generator opens it and read by read_codec_features_csv; the exception class or the
returned configurations (projected to scalars) are recorded and judged line by line by TLC
(spec/CodecFeaturesCsvTrace.tla): anything but InvalidCodecFeaturesError, or a returned value outside its
documented domain, is an alarm; a wrong ok/invalid prediction is only logged.  Seeded CSV-syntax stress
(quotes, embedded newlines, NUL, BOM, non-ASCII digits, long cells) goes through the same trace spec.
"""
import csv
import enum
import io
import os
import random
import zlib

from .. import common, tlc, tlaval
from .c17 import fix_coverage, require_actions, cfg_text, dump_blocks, J, guard

SAMPLES = ["tests/sample_codec_features.csv", "tests/sample_codec_features_invalid.csv", "docs/source/_static/user_guide/sample_codec_features.csv"]
SAT = 1 << 30
FIELD_LIMIT = 131072

ENUM_TYPE = {
    "level": "Levels",
    "profile": "Profiles",
    "picture_coding_mode": "PictureCodingModes",
    "wavelet_index": "WaveletFilters",
    "wavelet_index_ho": "WaveletFilters",
    "base_video_format": "BaseVideoFormats",
}
VP_ENUM_TYPE = {
    "color_diff_format_index": "ColorDifferenceSamplingFormats",
    "source_sampling": "SourceSamplingModes",
    "color_primaries_index": "PresetColorPrimaries",
    "color_matrix_index": "PresetColorMatrices",
    "transfer_function_index": "PresetTransferFunctions",
}
INT_MIN = {"dwt_depth": 0, "dwt_depth_ho": 0, "slices_x": 1, "slices_y": 1, "fragment_slice_count": 0}
VP_INT_MIN = {
    "frame_width": 1,
    "frame_height": 1,
    "frame_rate_numer": 1,
    "frame_rate_denom": 1,
    "pixel_aspect_ratio_numer": 1,
    "pixel_aspect_ratio_denom": 1,
    "clean_width": 0,
    "clean_height": 0,
    "left_offset": 0,
    "top_offset": 0,
    "luma_offset": 0,
    "luma_excursion": 1,
    "color_diff_offset": 0,
    "color_diff_excursion": 1,
}
TRUE_WORDS = ["TRUE", "true", "1", "y", "Yes", "T"]
FALSE_WORDS = ["FALSE", "false", "0", "n", "No", "f"]


def enum_of(tname):
    import vc2_data_tables

    return getattr(vc2_data_tables, tname)


def repo_path(rel):
    return os.path.join(common.REPO, rel)


# ----------------------------------------------------------------------- sample files, abstractly
def load_grid(rel):
    with open(repo_path(rel), "r", encoding="utf-8-sig", newline="") as f:
        return [list(r) for r in csv.reader(f)]


def row_index(grid):
    idx = {}
    for i, r in enumerate(grid):
        if r and r[0].strip() and not r[0].strip().startswith("#"):
            idx[r[0].strip()] = i
    return idx


def own_cell_valid(field, text):
    """independent (driver-side) reading of a shipped cell, used only to describe the sample files"""
    t = text.strip()
    defaultable = field in VP_ENUM_TYPE or field in VP_INT_MIN or field in ("top_field_first", "quantization_matrix")
    if t.lower() == "default":
        return defaultable
    if field in ENUM_TYPE or field in VP_ENUM_TYPE:
        E = enum_of(ENUM_TYPE.get(field) or VP_ENUM_TYPE[field])
        if t in E.__members__:
            return True
        try:
            return int(t) in [int(m) for m in E]
        except ValueError:
            return False
    if field in INT_MIN or field in VP_INT_MIN or field == "picture_bytes":
        m = INT_MIN.get(field, VP_INT_MIN.get(field, 1))
        try:
            return int(t) >= m
        except ValueError:
            return False
    if field in ("lossless", "top_field_first"):
        return t.lower() in ("1", "true", "t", "y", "yes", "0", "false", "f", "n", "no")
    return True


def describe(rel):
    grid = load_grid(rel)
    idx = row_index(grid)
    ncols = max(len(r) for r in grid) - 1
    cell = lambda f, c: (grid[idx[f]][c] if c < len(grid[idx[f]]) else "").strip()
    d = {"ncols": ncols, "bad": [], "lossless": [], "depths": [], "qmlen": []}
    names = [cell("name", c) for c in range(1, ncols + 1)]
    if len(set(names)) != ncols or any((not n) or n.startswith("column_") or n.endswith(".") for n in names):
        raise RuntimeError("model assumption broken: the names shipped in %s are not distinct explicit names: %r" % (rel, names))
    for c in range(1, ncols + 1):
        d["lossless"].append(cell("lossless", c).lower() in ("1", "true", "t", "y", "yes"))
        d["depths"].append((int(cell("dwt_depth", c)), int(cell("dwt_depth_ho", c))))
        q = cell("quantization_matrix", c)
        d["qmlen"].append(-1 if q.lower() == "default" else len(q.split()))
        for f in idx:
            if f in ("name", "picture_bytes", "quantization_matrix"):
                continue
            if not own_cell_valid(f, cell(f, c)):
                d["bad"].append((c, f))
    return d


def tables_text():
    lines = ["------------------------ MODULE CodecFeaturesTables ------------------------", "(* GENERATED by harness/drivers/c28.py from the vc2_data_tables package (enumerations) and the sample   *)", "(* codec-feature CSV files of the repository (abstract description).  Do not edit.                       *)", "EXTENDS Integers, Sequences", ""]
    names = sorted(set(ENUM_TYPE.values()) | set(VP_ENUM_TYPE.values()))
    lines.append("EnumValues == [")
    lines.append(",\n".join("  %s |-> {%s}" % (n, ", ".join(str(int(m)) for m in enum_of(n))) for n in names))
    lines.append("]")
    lines.append("")
    files = []
    for rel in SAMPLES:
        d = describe(rel)
        tl = lambda xs: "<<" + ", ".join(xs) + ">>"
        files.append(
            "  [ncols |-> %d,\n   bad |-> {%s},\n   lossless |-> %s,\n   depths |-> %s,\n   qmlen |-> %s]"
            % (
                d["ncols"],
                ", ".join('<<%d, "%s">>' % (c, f) for c, f in d["bad"]),
                tl("TRUE" if x else "FALSE" for x in d["lossless"]),
                tl("<<%d, %d>>" % x for x in d["depths"]),
                tl(("(0 - 1)" if x < 0 else str(x)) for x in d["qmlen"]),
            )
        )
    lines.append("\\* " + "; ".join(SAMPLES))
    lines.append("BaseFiles == <<\n" + ",\n".join(files) + "\n>>")
    lines.append("=============================================================================")
    return "\n".join(lines) + "\n"


def tables_file():
    p = os.path.join(tlc.mkscratch("gen"), "CodecFeaturesTables.tla")
    with open(p, "w") as f:
        f.write(tables_text())
    return p


# ------------------------------------------------------------------------------- concretisation
def auto_name(t):
    """the name generated for an unnamed value column t (1-based; the key column is spreadsheet column A)"""
    if not 1 <= t <= 25:
        raise RuntimeError("auto name of column %d not modelled" % t)
    return "column_" + chr(ord("A") + t)


def cell_text(field, k, arg, base, salt, other_name, col=0):
    E = None
    if field in ENUM_TYPE or field in VP_ENUM_TYPE:
        E = list(enum_of(ENUM_TYPE.get(field) or VP_ENUM_TYPE[field]))
    if k == "empty":
        return ["", " ", "\t"][salt % 3]
    if k == "default":
        return ["default", "Default", "DEFAULT"][salt % 3]
    if k == "malformed":
        return ["12x", "1.5", "0x10", "1e3", "--3", "3 4", "١x", "+", "None"][salt % 9]
    if k == "negative":
        return ["-1", "-5", " -1"][salt % 3]
    if k in ("below_min", "at_min"):
        return str(arg)
    if k == "big":
        return "1" + "0" * 30
    if k == "int_ok":
        return str(int(E[salt % len(E)]))
    if k == "int_oob":
        return [str(max(int(m) for m in E) + 1), "999"][salt % 2]
    if k == "name_ok":
        return E[salt % len(E)].name
    if k == "name_bad":
        return ["no_such_member", E[salt % len(E)].name.upper() + "_", E[0].name + " x"][salt % 3]
    if k == "true":
        return TRUE_WORDS[salt % len(TRUE_WORDS)]
    if k == "false":
        return FALSE_WORDS[salt % len(FALSE_WORDS)]
    if k == "ws":
        return ["  %s ", "\t%s", "%s   "][salt % 3] % base
    if k == "nonascii":
        src = base.strip() if base.strip().isdigit() else "7"
        return "".join(chr(0x0660 + int(ch)) for ch in src)
    if k == "odd":
        return ['we"ird, name', "naïve ✓", "#hash", "a\nb", "hd_{1080p50}", "{}", "{0} %s %(x)s", "}{"][salt % 8] + (" %d" % col if salt % 16 >= 8 else "") + "." * col
    if k.startswith("auto_"):
        # an explicit name spelled like the name the reader generates for an unnamed column t
        return ["%s", " %s", "%s\t"][salt % 3] % auto_name(int(k[5:]))
    if k == "dupname":
        return other_name
    if k in ("qm_ok", "qm_short", "qm_long"):
        return " ".join(str((i * 3 + salt) % 7) for i in range(arg))
    if k == "qm_nonint":
        return "1 2 x"
    raise RuntimeError("unknown class %r" % k)


def apply_history(file_index, hist):
    rel = SAMPLES[file_index - 1]
    grid = load_grid(rel)
    idx = row_index(grid)
    ncols = max(len(r) for r in grid) - 1
    for r in grid:
        while len(r) < ncols + 1:
            r.append("")
    deleted = []
    for step_no, m in enumerate(hist):
        salt = zlib.crc32(repr((file_index, step_no, sorted(m.items(), key=repr))).encode()) & 0xFFFF
        if m["m"] == "cell":
            c, f = m["c"], m["f"]
            base = grid[idx[f]][c]
            other = grid[idx["name"]][(c % ncols) + 1]
            grid[idx[f]][c] = cell_text(f, m["k"], m["arg"], base, salt, other, c)
        else:
            s = m["s"]
            if s[0] == "extra":
                grid.append(["bogus_row"] + ["1"] * ncols)
            elif s[0] == "blank":
                for r in grid:
                    if r and r[0].strip() and not r[0].strip().startswith("#"):
                        r[s[1]] = ""
            elif s[0] == "comment":
                grid[idx[s[1]]][0] = "# " + grid[idx[s[1]]][0]
            elif s[0] == "delete":
                deleted.append(idx[s[1]])
    grid = [r for i, r in enumerate(grid) if i not in deleted]
    buf = io.StringIO()
    csv.writer(buf, lineterminator="\n").writerows(grid)
    return buf.getvalue()


# ---------------------------------------------------------------------- running + projecting
_DIR = None


def tmp_path():
    global _DIR
    if _DIR is None or _DIR[0] != os.getpid():
        _DIR = (os.getpid(), tlc.mkscratch("cf"))
    return os.path.join(_DIR[1], "f%d.csv" % os.getpid())


def sat(v):
    return max(-SAT, min(SAT, v))


def project_int(v):
    ok = isinstance(v, int) and not isinstance(v, bool)
    return [ok, sat(v) if ok else 0]


def project_enum(v):
    if isinstance(v, enum.IntEnum):
        return [type(v).__name__, int(v)]
    return ["not-an-enum:" + type(v).__name__, 0]


def project(out):
    cols = []
    keys = []
    shape_ok = isinstance(out, dict)
    if not shape_ok:
        return [], [], False
    for key, feat in out.items():
        keys.append(key if isinstance(key, str) else repr(key))
        try:
            vp = feat["video_parameters"]
            col = {
                "name": feat["name"] if isinstance(feat["name"], str) else repr(feat["name"]),
                "enums": dict([(f, project_enum(feat[f])) for f in ENUM_TYPE if f != "base_video_format"] + [(f, project_enum(vp[f])) for f in VP_ENUM_TYPE]),
                "ints": dict([(f, project_int(feat[f])) for f in INT_MIN] + [(f, project_int(vp[f])) for f in VP_INT_MIN]),
                "bools": {"lossless": [isinstance(feat["lossless"], bool), bool(feat["lossless"])], "top_field_first": [isinstance(vp["top_field_first"], bool), bool(vp["top_field_first"])]},
                "pb_none": feat["picture_bytes"] is None,
                "pb": project_int(feat["picture_bytes"]) if feat["picture_bytes"] is not None else [False, 0],
                "qm_none": feat["quantization_matrix"] is None,
                "qm": [],
                "qm_ints": True,
            }
            qm = feat["quantization_matrix"]
            if qm is not None:
                for level in sorted(qm):
                    col["qm"].append([level if isinstance(level, int) else -1, sorted(str(o) for o in qm[level])])
                    col["qm_ints"] = col["qm_ints"] and all(isinstance(x, int) and not isinstance(x, bool) for x in qm[level].values())
            cols.append(col)
        except (KeyError, TypeError, AttributeError):
            shape_ok = False
    return cols, keys, shape_ok


def given_columns(path):
    """The driver's own reading of the text (opened exactly as it is opened for the reader): one entry per
    column that has at least one non-empty value cell in a row whose key cell is neither empty nor a comment,
    saying whether the column has an explicit name.  Projection of the INPUT; the rule is in the trace spec."""
    cols = {}
    try:
        with open(path, "r", encoding="utf-8-sig") as f:
            for row in csv.reader(f):
                if not row:
                    continue
                key = row[0].strip()
                if not key or key.startswith("#"):
                    continue
                for i, v in enumerate(row[1:]):
                    if v.strip():
                        cols.setdefault(i, {})[key] = v.strip()
    except csv.Error:
        return []
    return [{"named": "name" in cols[i], "name": cols[i].get("name", "")} for i in sorted(cols)]


def run_text(text, oversize=False):
    from vc2_conformance.codec_features import read_codec_features_csv, InvalidCodecFeaturesError

    p = tmp_path()
    with open(p, "w", encoding="utf-8", newline="") as f:
        f.write(text)
    ev = {"exc": "none", "cols": [], "keys": [], "shape_ok": True, "given": given_columns(p)}
    try:
        with open(p, "r", encoding="utf-8-sig") as f:  # as vc2-test-case-generator's FileType("r", encoding="utf-8-sig")
            out = read_codec_features_csv(f)
        ev["cols"], ev["keys"], ev["shape_ok"] = project(out)
    except InvalidCodecFeaturesError:
        ev["exc"] = "invalid"
    except csv.Error as e:
        if oversize and "field larger than field limit" in str(e):
            ev["exc"] = "oversize_cell"
        else:
            ev["exc"] = common.exc_signature(e) + ":" + str(e)[:60]
    except Exception as e:  # noqa
        ev["exc"] = common.exc_signature(e)
    return ev


def g_block(arg):
    idx, block = arg
    st = tlaval.parse_state_block(block)
    if not st["hist"]:
        hist = []
    else:
        hist = J(st["hist"])
    case = {"file": st["file"], "hist": hist, "pred": st["obs"] if hist else "none"}
    return exec_case(case, idx + 1)


def exec_case(case, tid):
    text = apply_history(case["file"], case["hist"])
    ev = run_text(text)
    ev.update({"tid": tid, "ev": "read", "pred": case["pred"], "case": case})
    return ev


# ----------------------------------------------------------------------------- CSV-syntax stress
ODD_CELLS = ['"', '""', "a\"b", "x\ny", "\x00", "٣", "１２", "1_000", " 1 ", "+5", "0b1", "1e2", "TRUE", "default ", "ｄefault", "﻿1", "𝟙", "½", "-0", "00012", "'1'", "=1+1", "#", "# x", ",", ";", "1\r2"]


def stress_text(seed):
    rnd = random.Random(seed)
    rel = SAMPLES[rnd.randrange(len(SAMPLES))]
    grid = load_grid(rel)
    oversize = False
    kind = rnd.choice(["cells", "cells", "chars", "long", "oversize", "rows", "raw"])
    if kind in ("cells", "long", "oversize", "rows"):
        for _ in range(rnd.randrange(1, 4)):
            r = rnd.randrange(len(grid))
            if not grid[r]:
                continue
            c = rnd.randrange(len(grid[r]))
            if kind == "cells":
                grid[r][c] = rnd.choice(ODD_CELLS)
            elif kind == "long":
                grid[r][c] = rnd.choice(["1", "9", "a", " ", "1 "]) * rnd.choice([300, 4096, 5000])
            elif kind == "oversize":
                grid[r][c] = "7" * (FIELD_LIMIT + rnd.randrange(1, 5000))
                oversize = True
            else:
                op = rnd.randrange(4)
                if op == 0:
                    grid.insert(r, list(grid[r]))
                elif op == 1:
                    grid[r] = grid[r][: max(1, c)]
                elif op == 2:
                    grid[r] = grid[r] + [rnd.choice(ODD_CELLS)] * rnd.randrange(1, 4)
                else:
                    grid[r], grid[rnd.randrange(len(grid))] = grid[rnd.randrange(len(grid))], grid[r]
    buf = io.StringIO()
    csv.writer(buf, lineterminator=rnd.choice(["\n", "\r\n", "\r"])).writerows(grid)
    text = buf.getvalue()
    if kind in ("chars", "raw"):
        chars = list(text)
        for _ in range(rnd.randrange(1, 6)):
            pos = rnd.randrange(len(chars) + 1)
            x = rnd.random()
            if x < 0.4:
                chars.insert(pos, rnd.choice(['"', ",", "\n", "\r", "\x00", "﻿", "'", " ", "#", "é", "\t", "\x0b", "\x1c", " "]))
            elif x < 0.7 and chars:
                del chars[min(pos, len(chars) - 1)]
            elif chars:
                p2 = min(pos, len(chars) - 1)
                chars[p2] = rnd.choice(['"', ",", "9", "-", "x", "\n"])
        text = "".join(chars)
    if rnd.random() < 0.1:
        text = "﻿" + text
    return text, oversize, kind


def stress_case(arg):
    tid, seed = arg
    text, oversize, kind = stress_text(seed)
    ev = run_text(text, oversize)
    ev.update({"tid": tid, "ev": "read", "pred": "none", "case": {"stress_seed": seed, "kind": kind}})
    return ev


# ------------------------------------------------------------------------------------------ run
def judge(ctx, events, tables, name):
    from .. import trace

    send = [dict((k, v) for k, v in e.items() if k != "case") for e in events]
    bad, res = trace.validate("CodecFeaturesCsvTrace", send, extra_files=[tables])
    ctx.add_tlc(res, name)
    dis = 0
    for b in bad:
        e = events[b["line"] - 1]
        if b["alarm"]:
            detail = e["exc"] if b["clause"] == "OtherException" else ""
            sig = "C28|%s|%s" % (b["clause"], detail.split(":")[0] if detail else "returned-value")
            if b["clause"] == "OneConfigurationPerColumn":
                detail = "text accepted, %d configurations returned (%r) for %d non-empty columns (%r): columns were silently dropped / merged, the names of the given configurations were not unique" % (len(e["cols"]), e["keys"], len(e["given"]), [g["name"] if g["named"] else None for g in e["given"]])
            ctx.violation(sig, "read_codec_features_csv on %s: clause %s (%s)" % (e["case"], b["clause"], detail or "returned configuration outside its documented domain"), e["case"])
        else:
            dis += 1
    return dis, bad


def selftest_binding(tables):
    """parse_int_at_least without its minimum check must be flagged (IntegerMinimum) on a below-minimum mutant"""
    from vc2_conformance import codec_features as cf
    from .. import trace

    orig = cf.parse_int_at_least
    cf.parse_int_at_least = lambda minimum, value: int(value)
    try:
        ev = exec_case({"file": 1, "hist": [{"m": "cell", "c": 2, "f": "slices_x", "k": "below_min", "arg": 0}], "pred": "invalid"}, 1)
    finally:
        cf.parse_int_at_least = orig
    good = exec_case({"file": 1, "hist": [], "pred": "ok"}, 2)
    corrupt = dict(good)
    cols = [dict(c) for c in good["cols"]]
    cols[0] = dict(cols[0], pb_none=True)
    corrupt["cols"] = cols
    corrupt["tid"] = 3
    # a reader that lets a later column silently replace an earlier one (here: drops the first configuration)
    orig_read = cf.read_codec_features_csv

    def dropping(csvfile):
        out = orig_read(csvfile)
        out.pop(next(iter(out)))
        return out

    cf.read_codec_features_csv = dropping
    try:
        dropped = exec_case({"file": 1, "hist": [{"m": "cell", "c": 2, "f": "name", "k": "empty", "arg": 0}], "pred": "ok"}, 4)
    finally:
        cf.read_codec_features_csv = orig_read
    send = [dict((k, v) for k, v in e.items() if k != "case") for e in (ev, good, corrupt, dropped)]
    bad, _ = trace.validate("CodecFeaturesCsvTrace", send, extra_files=[tables])
    got = sorted((b["line"], b["clause"], b["alarm"]) for b in bad)
    if got != [(1, "IntegerMinimum", True), (3, "PictureBytesIffLossy", True), (4, "OneConfigurationPerColumn", True)]:
        raise RuntimeError("binding self-test failed: %r" % (got,))
    return {
        "mutant": "parse_int_at_least without the minimum check (in-process monkeypatch) on slices_x = 0; read_codec_features_csv that drops one configuration (in-process wrapper) on a file with an unnamed column",
        "verdict": "IntegerMinimum; OneConfigurationPerColumn",
        "trace": "setting pb_none on a recorded lossy configuration is rejected by clause PictureBytesIffLossy",
    }


def run(ctx):
    tables = tables_file()
    committed = os.path.join(tlc.SPEC, "CodecFeaturesTables.tla")
    stale = (not os.path.exists(committed)) or open(committed).read() != open(tables).read()
    consts = ctx.pick({"MaxMut": 2, "PairCols": "{1}"}, {"MaxMut": 2, "PairCols": "{1, 2, 3, 4}"})
    res = tlc.run("CodecFeaturesCsv", cfg_text("CodecFeaturesCsv.cfg", **consts), dump=True, workers=1, extra_files=[tables])
    fix_coverage(res)
    require_actions(res, ["MutateCell", "MutateStruct"])
    ctx.add_tlc(res, "CodecFeaturesCsv exhaustive", consts)
    blocks = dump_blocks(res.dump_path)
    events = common.pmap(g_block, list(enumerate(blocks)))
    dis, bad = judge(ctx, events, tables, "trace validation of mutants (CodecFeaturesCsvTrace)")
    nstress = ctx.pick(1500, 20000)
    sev = common.pmap(stress_case, [(i + 1, ctx.seed * 1000003 + i) for i in range(nstress)])
    sdis, sbad = judge(ctx, sev, tables, "trace validation of CSV-syntax stress (CodecFeaturesCsvTrace)")
    try:
        st = selftest_binding(tables)
    except RuntimeError as e:
        guard(ctx, False, str(e))
        st = {"not_demonstrable": str(e)}
    allev = events + sev
    outcome = {}
    for e in allev:
        k = e["exc"] if e["exc"] in ("none", "invalid", "oversize_cell") else "other"
        outcome[k] = outcome.get(k, 0) + 1
    classes = {}
    for e in events:
        for m in e["case"]["hist"]:
            k = m.get("k") or m["s"][0]
            classes[k] = classes.get(k, 0) + 1
    guard(ctx, outcome.get("none", 0) > 0 and outcome.get("invalid", 0) > 0, "vacuity: outcomes %r" % (outcome,))
    nonbase_ok = sum(1 for e in events if e["exc"] == "none" and e["case"]["hist"])
    guard(ctx, nonbase_ok > 0, "vacuity: no mutant was accepted, the domain clauses were never evaluated on a mutant")
    # name model: unnamed columns accepted (generated names judged), explicit look-alikes of generated names in
    # both column orders predicted invalid and predicted ok
    unnamed_ok = sum(1 for e in events if e["exc"] == "none" and any(not g["named"] for g in e["given"]))
    auto = {"before_ok": 0, "before_invalid": 0, "after_ok": 0, "after_invalid": 0}
    for e in events:
        for m in e["case"]["hist"]:
            if m.get("f") == "name" and m.get("k", "").startswith("auto_") and int(m["k"][5:]) != m["c"]:
                auto[("before_" if m["c"] < int(m["k"][5:]) else "after_") + ("ok" if e["pred"] == "ok" else "invalid")] += 1
    guard(ctx, unnamed_ok > 0 and all(v > 0 for v in auto.values()), "vacuity: unnamed columns accepted %d, look-alike names %r" % (unnamed_ok, auto))
    small = lambda e: {"case": e["case"], "pred": e["pred"], "exc": e["exc"], "columns_returned": len(e["cols"])}
    ctx.coverage.update(
        {
            "traces_validated_against_impl": len(allev),
            "mutants_from_tlc": len(events),
            "syntax_stress_texts": len(sev),
            "outcomes": outcome,
            "mutation_classes_used": classes,
            "mutants_accepted_and_checked_in_domain": nonbase_ok,
            "name_model": {"accepted_texts_with_unnamed_columns": unnamed_ok, "explicit_name_spelled_like_generated_name_of_another_column": auto},
            "out_of_scope": {"oversize_cell": outcome.get("oversize_cell", 0), "note": "cells above csv.field_size_limit (131072 characters) make the csv module raise _csv.Error; counted, not judged"},
            "evaluations": len(allev),
            "distinct_nontrivial": sum(1 for e in events if len(e["case"]["hist"]) >= 2) + sum(1 for e in events if e["exc"] == "none" and e["case"]["hist"]),
            "rule": "one CSV text per mutation history enumerated by TLC (all single mutations of every cell/row/column of the three sample files + pairs on interacting fields) plus seeded CSV-syntax stress texts; non-trivial = two mutations, or a mutant that was accepted (so every returned field was checked against its domain)",
            "exhaustive": True,
            "bounds": dict(consts, cell_length="<= 5000 characters judged; > 131072 counted only", files=SAMPLES),
            "spec_disagreements": dis + sdis,
            "prediction_mismatches": [dict(events[b["line"] - 1]["case"], clause=b["clause"]) for b in bad if not b["alarm"]][:10],
            "generated_tables_stale_in_spec_dir": stale,
            "binding_selftest": st,
            "samples": [small(events[0]), small(events[len(events) // 2]), small(events[-1]), small(sev[0])],
        }
    )
    ctx.assumptions += [
        "the file is opened as vc2-test-case-generator opens it (text mode, utf-8-sig, universal newlines)",
        "integers are projected saturated to +-2^30 (their order relative to the documented minimums 0/1 is preserved)",
        "the sample files are described abstractly (lossless flags, transform depths, matrix lengths, invalid cells) by the driver's own reading, not by the code under test",
        "enumerations come from the third-party vc2_data_tables package (trusted)",
    ]


def replay(case):
    from .. import trace

    tables = tables_file()
    if "stress_seed" in case:
        ev = stress_case((1, case["stress_seed"]))
    else:
        ev = exec_case(case, 1)
    bad, _ = trace.validate("CodecFeaturesCsvTrace", [dict((k, v) for k, v in ev.items() if k != "case")], extra_files=[tables])
    return {"violations": [b for b in bad if b["alarm"]], "exc": ev["exc"], "columns": len(ev["cols"])}
