"""In-process scheduling shim for C24 (imported inside a worker process, never by the check itself).

It wraps os.stat / os.mkdir / open so that the calls a worker makes on the output tree happen in the global order
given by a schedule file (a TLC counterexample of TestCaseGen projected to real calls).  Nothing in /repo is
changed; calls that are not in the schedule run freely; a call waits at most WAIT seconds for its turn.

schedule.json: [[worker, kind, path], ...]   kind in {"stat", "mkdir", "open"}; a step is done when the file
done_<index> exists in the schedule directory (the driver creates the files of a worker that has exited).
"""
import builtins
import io
import json
import os
import time

WAIT = 90.0
_state = {}


def _rel(path):
    try:
        p = os.fspath(path)
    except TypeError:
        return None
    if isinstance(p, bytes):
        p = p.decode("utf-8", "replace")
    p = os.path.normpath(p)
    if os.path.isabs(p):
        try:
            p = os.path.relpath(p, _state["cwd"])
        except ValueError:
            return None
    if p == _state["out"] or p.startswith(_state["out"] + "/"):
        return p
    return None


def _gate(kind, path):
    """Returns the index of the schedule entry this call realises (after waiting for its turn) or None."""
    p = _rel(path)
    if p is None:
        return None
    mine = _state["mine"]
    c = _state["cursor"]
    if c >= len(mine) or mine[c][1] != kind or mine[c][2] != p:
        _state["ungated"] += 1
        return None
    gi = mine[c][0]
    _state["cursor"] = c + 1
    t0 = time.time()
    d = _state["dir"]
    for j in range(gi):
        f = os.path.join(d, "done_%d" % j)
        while not _orig_exists(f):
            if time.time() - t0 > WAIT:
                with _orig_open(os.path.join(d, "timeout_%d_%d" % (_state["id"], gi)), "w") as fh:
                    fh.write("waiting for %d\n" % j)
                return gi
            time.sleep(0.002)
    return gi


def _done(gi):
    if gi is not None:
        with _orig_open(os.path.join(_state["dir"], "done_%d" % gi), "w") as fh:
            fh.write("%d\n" % _state["id"])


_orig_stat = os.stat
_orig_mkdir = os.mkdir
_orig_open = builtins.open


def _orig_exists(p):
    try:
        _orig_stat(p)
        return True
    except OSError:
        return False


def _stat(path, *a, **k):
    gi = _gate("stat", path) if not isinstance(path, int) else None
    try:
        return _orig_stat(path, *a, **k)
    finally:
        _done(gi)


def _mkdir(path, *a, **k):
    gi = _gate("mkdir", path)
    try:
        return _orig_mkdir(path, *a, **k)
    finally:
        _done(gi)


def _open(file, *a, **k):
    gi = _gate("open", file) if not isinstance(file, int) else None
    try:
        return _orig_open(file, *a, **k)
    finally:
        _done(gi)


def install():
    d = os.environ.get("C24_SHIM_DIR")
    if not d:
        return
    wid = int(os.environ["C24_SHIM_ID"])
    with _orig_open(os.path.join(d, "schedule.json")) as f:
        sched = json.load(f)
    _state.update(dir=d, id=wid, cwd=os.getcwd(), out=os.environ.get("C24_SHIM_OUT", "out"), cursor=0, ungated=0, mine=[(i, e[1], e[2]) for i, e in enumerate(sched) if e[0] == wid])
    os.stat = _stat
    os.mkdir = _mkdir
    builtins.open = _open
    io.open = _open
