"""C06 -- deserialising then serialising any parseable stream reproduces its bytes.

Spec: spec/Deser.tla + spec/DeserOps.tla (outcome machine of the lenient parser over a data-unit alphabet that
includes parseable-but-non-conformant variants) and spec/DeserTrace.tla.

G (spec -> code): every abstract transition of Deser.tla comes with a shortest history; the harness's own
bit writer (nothing from vc2_conformance) turns it into bytes; Deserialiser -> (if it completes) Serialiser on
the resulting description -> Deserialiser again.  The alphabet includes units that carry one huge exp-Golomb value
(31 .. 100 data bits, four bit patterns; the code's bit string and its value as limbs are derived by TLC and written
bit for bit).  T (code -> spec): the recorded round trips of those streams
and of seeded byte/bit-level mutants of them (and of library-serialised streams with random coefficients) are
judged by TLC against DeserTrace.tla: parsed => re-serialised, same bytes, same description.
"""
import io
import os
import random
import traceback

from .. import common, tlc, tlaval, trace


# ------------------------------------------------------------------------------------------------
# independent bit writer
# ------------------------------------------------------------------------------------------------
class BW(object):
    def __init__(self):
        self.bits = []

    def bit(self, b):
        self.bits.append(1 if b else 0)

    def nbits(self, n, v):
        for i in range(n - 1, -1, -1):
            self.bits.append((v >> i) & 1)

    def bytes_(self, b):
        for x in b:
            self.nbits(8, x)

    def uint(self, v):
        v += 1
        for i in range(v.bit_length() - 2, -1, -1):
            self.bits.append(0)
            self.bits.append((v >> i) & 1)
        self.bits.append(1)

    def code(self, bits):
        """a ready-made exp-Golomb code (the bit string TLC derived for a huge value)"""
        self.bits += [1 if b else 0 for b in bits]

    def sint(self, v):
        self.uint(abs(v))
        if v:
            self.bits.append(1 if v < 0 else 0)

    def align(self, fill=0):
        while len(self.bits) % 8:
            self.bits.append(fill)

    def pad_to(self, nbits, fill=0):
        while len(self.bits) < nbits:
            self.bits.append(fill)

    def tobytes(self):
        assert len(self.bits) % 8 == 0
        out = bytearray()
        for i in range(0, len(self.bits), 8):
            v = 0
            for b in self.bits[i : i + 8]:
                v = (v << 1) | b
            out.append(v)
        return bytes(out)


def intlog2(n):
    return (n - 1).bit_length()


def sint_bits(vals):
    w = BW()
    for v in vals:
        w.sint(v)
    return w.bits


PCODES = {("PIC", "ld"): 0xC8, ("PIC", "hq"): 0xE8, ("PIC", "none"): 0x88, ("FRAG0", "ld"): 0xCC, ("FRAG0", "hq"): 0xEC, ("FRAG0", "none"): 0x0C, ("FRAGN", "ld"): 0xCC, ("FRAGN", "hq"): 0xEC}
LD_SLICE_BYTES = 9


def coeff_bits(vals, big, n):
    """bits of n coefficients (signed exp-Golomb); big = (pos, code): the first / last one is TLC's huge value"""
    if not big:
        return sint_bits(vals)
    pos, code = big
    at = 0 if pos.startswith("first") else n - 1
    bits = []
    for i, v in enumerate(vals):
        if i == at:
            bits += [1 if b else 0 for b in code] + [1 if pos.endswith("_neg") else 0]
        else:
            bits += sint_bits([v])
    return bits


def hq_slice(w, var, rnd, prefix_bytes, scaler, big=None, n=4):
    w.bytes_(bytes(rnd.randrange(256) for _ in range(prefix_bytes)))
    w.nbits(8, rnd.randrange(0, 64))  # qindex
    bigcomp = rnd.randrange(3) if big else -1
    for comp in range(3):
        vals = [rnd.choice([0, 0, 1, -1, 2, -3, 7, -12, 100]) for _ in range(4)]
        bits = coeff_bits(vals, big if comp == bigcomp else None, n)
        need = (len(bits) + 8 * scaler - 1) // (8 * scaler)
        if var == "exact" or var == "prefix":
            ln = need
            tail = 0
        elif var == "long":
            ln = need + 2
            tail = None  # random non-zero unused bits
        elif var == "short":
            ln = max(0, need - 1) if need > 1 else 0
            if need <= 1:
                # force a value to straddle the end: many zeros (long exp-Golomb prefix)
                bits = [0] * (8 * scaler) + bits
                ln = 1
            tail = 0
        else:  # zerolen
            ln = 0
            tail = 0
        w.nbits(8, ln)
        total = 8 * scaler * ln
        body = bits[:total]
        while len(body) < total:
            body.append(rnd.randrange(2) if tail is None else tail)
        w.bits += body


LD_BIG_SLICE_BYTES = 64  # room for a 201-bit code


def ld_slice(w, var, rnd, big=None, n=4):
    total = 8 * (LD_BIG_SLICE_BYTES if big else LD_SLICE_BYTES)
    start = len(w.bits)
    w.nbits(7, rnd.randrange(0, 64))
    lb = intlog2(total - 7)
    left = total - 7 - lb
    yv = [rnd.choice([0, 1, -1, 2, -5]) for _ in range(4)]
    cv = [rnd.choice([0, 1, -1, 3]) for _ in range(8)]
    inluma = bool(big) and rnd.random() < 0.5
    yb = coeff_bits(yv, big if inluma else None, n)
    cb = coeff_bits(cv, big if big and not inluma else None, 2 * n)
    fill = 0
    if var == "exact":
        ylen = min(len(yb), left)
    elif var == "clamp":
        ylen = (1 << lb) - 1  # larger than the bits that are left: the reader clamps
    elif var == "dangling":
        ylen = max(1, len(yb) - 3)  # last luma value straddles the end of its block
        yb = [0, 0, 0] + yb
    else:  # ones
        ylen = min(len(yb) + 5, left)
        fill = 1
    w.nbits(lb, ylen)
    eff = min(ylen, left)
    body = yb[:eff]
    while len(body) < eff:
        body.append(fill)
    rest = left - eff
    if big and len(cb) > rest:
        raise AssertionError("huge value does not fit the low-delay slice")
    cbody = cb[:rest]
    while len(cbody) < rest:
        cbody.append(fill)
    w.bits += body + cbody
    assert len(w.bits) - start == total


def transform_parameters(w, prof, ver, var, ld_bytes=LD_SLICE_BYTES, qm_code=None):
    w.uint(4)  # wavelet_index haar_with_shift
    w.uint(0)  # dwt_depth
    if ver >= 3:
        w.bit(0)
        w.bit(0)
    w.uint(1)  # slices_x
    w.uint(1)  # slices_y
    if prof == "ld":
        w.uint(ld_bytes)
        w.uint(1)
    elif prof == "hq":
        w.uint(2 if var == "prefix" else 0)  # slice_prefix_bytes
        w.uint(2 if var == "prefix" else 1)  # slice_size_scaler
    if qm_code is None:
        w.bit(0)  # custom_quant_matrix
    else:
        w.bit(1)
        w.code(qm_code)  # dwt_depth = dwt_depth_ho = 0: the single LL entry


def build_bytes(hist, seed):
    """history of Deser.tla (list of steps {u, out, dev}) -> bytes, with per-unit offsets"""
    rnd = random.Random(seed)
    w = BW()
    ver = 3
    hqp = (0, 1)
    nco = 4  # coefficients per component: 2x2 frames, 2x1 fields
    prev_off = None
    offs = []
    how = "clean"

    def parse_info(pc, npo, ppo, prefix=b"BBCD", fill=0):
        w.align(fill)
        offs.append(len(w.bits) // 8)
        w.bytes_(prefix)
        w.nbits(8, pc)
        w.nbits(32, npo)
        w.nbits(32, ppo)

    for step in hist:
        u = step["u"]
        k = u["k"]
        if k == "END":
            how = u["how"]
            break
        fill = 1 if u.get("align") == "ones" else 0
        big = (u["pos"], step["code"]) if "big" in u else None
        if k == "SH":
            parse_info(0x00, 0, 0)
            ver = u["ver"]

            def field(name, small):
                """a variable-length header field: TLC's huge code if this is the chosen position"""
                if big and big[0] == name:
                    w.code(big[1])
                else:
                    w.uint(small)

            pos = big[0] if big else ""
            w.uint(ver)
            field("minor_version", 0)
            w.uint(rnd.choice([0, 3]))
            field("level", 0)
            w.uint(99 if u["bvf"] == "unknown" else 0)
            w.bit(1)
            w.uint(2)
            w.uint(2)  # frame size 2x2
            w.bit(1)
            w.uint(0)  # 4:4:4
            w.bit(0)  # scan format
            unk = u["idx"] == "unknown"
            w.bit(1)
            if pos == "frame_rate_denom":
                w.uint(0)  # custom frame rate: numerator, denominator
                w.uint(25)
                field("frame_rate_denom", 1)
            else:
                w.uint(99 if unk else 12)  # frame rate index
            w.bit(1)
            if pos == "pixel_aspect_ratio_numer":
                w.uint(0)  # custom pixel aspect ratio: numerator, denominator
                field("pixel_aspect_ratio_numer", 1)
                w.uint(1)
            else:
                w.uint(77 if unk else 2)  # pixel aspect ratio index
            if pos == "clean_left_offset":
                w.bit(1)  # clean area: width, height, left offset, top offset
                w.uint(2)
                w.uint(2)
                field("clean_left_offset", 0)
                w.uint(0)
            else:
                w.bit(0)  # clean area
            w.bit(1)
            if pos == "color_diff_excursion":
                w.uint(0)  # custom signal range: luma offset, excursion, colour difference offset, excursion
                w.uint(0)
                w.uint(255)
                w.uint(128)
                field("color_diff_excursion", 255)
            else:
                w.uint(50 if unk else 5)  # signal range index
            w.bit(1)
            if unk:
                w.uint(33)  # colour spec index unknown -> treated as sdtv_525, no nested parts
            else:
                w.uint(0)
                w.bit(1)
                w.uint(4)
                w.bit(1)
                w.uint(9)  # colour matrix index unknown (substituted), still round-trips
                w.bit(0)
            pcm = rnd.choice([0, 1])  # picture coding mode: frames / fields
            nco = 2 if pcm else 4
            w.uint(pcm)
            w.bits += [fill] * ((-len(w.bits)) % 8)
        elif k == "PIC":
            prof = u["prof"]
            parse_info(PCODES[(k, prof)], 0, 0)
            w.nbits(32, rnd.getrandbits(32))
            cbig = big if big and big[0] != "quant_matrix" else None
            transform_parameters(w, prof, ver, u["sl"], ld_bytes=LD_BIG_SLICE_BYTES if cbig else LD_SLICE_BYTES, qm_code=big[1] if big and not cbig else None)
            w.bits += [fill] * ((-len(w.bits)) % 8)
            if prof == "hq":
                hqp = (2, 2) if u["sl"] == "prefix" else (0, 1)
                hq_slice(w, u["sl"], rnd, *hqp, big=cbig, n=nco)
            elif prof == "ld":
                ld_slice(w, u["sl"], rnd, big=cbig, n=nco)
        elif k == "FRAG0":
            prof = u["prof"]
            pc = PCODES[(k, prof)]
            if u["pcx"] == "odd":
                pc |= 0x01
            parse_info(pc, 0, 0)
            w.nbits(32, rnd.getrandbits(32))
            w.nbits(16, rnd.getrandbits(16))
            w.nbits(16, 0)
            transform_parameters(w, prof, ver, "exact", qm_code=big[1] if big else None)
            if prof == "hq":
                hqp = (0, 1)
        elif k == "FRAGN":
            prof = u["prof"]
            parse_info(PCODES[(k, prof)], 0, 0)
            w.nbits(32, rnd.getrandbits(32))
            w.nbits(16, rnd.getrandbits(16))
            w.nbits(16, 1)
            w.nbits(16, 3 if u["at"] == "oob" else 0)
            w.nbits(16, 2 if u["at"] == "oob" else 0)
            if prof == "hq":
                var = u["sl"] if u["sl"] != "prefix" else "exact"
                hq_slice(w, var, rnd, *hqp, big=big, n=nco)
            else:
                ld_slice(w, u["sl"], rnd)
        elif k == "DATA":
            ln = u["len"]
            npo = {"exact": 13 + ln, "zero": 0, "short": rnd.randrange(1, 13), "thirteen": 13, "beyond": 13 + ln + 50}[u["npo"]]
            parse_info(u["pc"], npo, rnd.choice([0, 13]))
            w.bytes_(bytes(rnd.choice(b"\x00\x01\x7f\xff") for _ in range(ln)))
        elif k == "UNK":
            parse_info(u["pc"], rnd.choice([0, 13]), 0)
        elif k == "EOS":
            junk = u["offs"] == "junk"
            parse_info(0x10, rnd.getrandbits(32) if junk else 0, rnd.getrandbits(32) if junk else 0, prefix=b"BBCD" if u["prefix"] == "ok" else b"\x00\xffAB")
    w.align(0)
    data = w.tobytes()
    if how == "trail":
        data += bytes(rnd.randrange(256) for _ in range(rnd.choice([1, 5, 12])))
    elif how == "cut":
        data = data[: -rnd.choice([1, 3])]
    return data


# ------------------------------------------------------------------------------------------------
# the round trip on the real code
# ------------------------------------------------------------------------------------------------
def vc2_frame(e):
    """innermost frame inside bitstream/vc2.py (the pseudocode function that was executing)"""
    inner = None
    for fr in traceback.extract_tb(e.__traceback__):
        if fr.filename.endswith("/bitstream/vc2.py"):
            inner = "bitstream/vc2.py:%s" % fr.name
    return "%s@%s" % (type(e).__name__, inner or common.exc_signature(e).split("@")[1])


def deserialise(data):
    from vc2_conformance.bitstream import BitstreamReader, Deserialiser, parse_stream
    from vc2_conformance.pseudocode.state import State

    r = BitstreamReader(io.BytesIO(data))
    with Deserialiser(r) as des:
        parse_stream(des, State())
    return des.context


def serialise(desc, prefill_len=0):
    from vc2_conformance.bitstream import BitstreamWriter, Serialiser, parse_stream
    from vc2_conformance.pseudocode.state import State

    # what the output file held before is not part of a description: every third description (by its size) is
    # serialised into a rewound file object that still holds an older, LONGER stream; the bytes written are the
    # bytes from the start of the file up to the writer's final position
    old = b"\x42\x42\x43\x44\x10" + b"\xa5" * (prefill_len or 0) if prefill_len else b""
    f = io.BytesIO(old)
    f.seek(0)
    w = BitstreamWriter(f)
    with Serialiser(w, desc) as ser:
        parse_stream(ser, State())
    w.flush()
    end = f.tell()
    return f.getvalue()[:end] if prefill_len else f.getvalue()


def first_diff_bit(a, b):
    n = min(len(a), len(b))
    for i in range(n):
        if a[i] != b[i]:
            x = a[i] ^ b[i]
            return i * 8 + (8 - x.bit_length())
    return n * 8 if len(a) != len(b) else -1


def unit_kinds(desc):
    out = []
    for s in desc.get("sequences", []):
        ks = []
        for du in s.get("data_units", []):
            fsc = du.get("fragment_parse", {}).get("fragment_header", {}).get("fragment_slice_count", -1)
            ks.append([du.get("parse_info", {}).get("parse_code", -1), fsc])
        out.append(ks)
    return out


def strip_state(d):
    """description without the computed '_state' copies (they hold the reader's file object)"""
    if isinstance(d, dict):
        return {k: strip_state(v) for k, v in d.items() if k != "_state"}
    if isinstance(d, list):
        return [strip_state(x) for x in d]
    return d


NBITS_KEYS = ("picture_number", "next_parse_offset", "previous_parse_offset", "parse_info_prefix")  # fixed-width 32 bit fields


def huge_values(d, out=None):
    """the integers of a description that need 31 bits or more (fixed-width fields excluded), as magnitudes"""
    if out is None:
        out = []
    if isinstance(d, dict):
        for k, v in d.items():
            if k not in NBITS_KEYS and k != "_state":
                huge_values(v, out)
    elif isinstance(d, (list, tuple)):
        for x in d:
            huge_values(x, out)
    elif isinstance(d, int) and not isinstance(d, bool) and abs(d).bit_length() >= 31:
        out.append(abs(int(d)))
    return out


class Deadline(BaseException):
    """CPU budget of one case exhausted (a mutant that declares an enormous picture): not a verdict"""


def _on_alarm(signum, frame):
    raise Deadline()


def roundtrip(data, budget=3.0):
    import signal

    old = signal.signal(signal.SIGVTALRM, _on_alarm)
    signal.setitimer(signal.ITIMER_VIRTUAL, budget)
    try:
        return _roundtrip(data)
    except (Deadline, MemoryError):  # CPU or memory budget of one case exhausted: not a verdict
        ev = {"ev": "rt", "n": len(data), "parsed": False, "outcome": "timeout", "ser_ok": False, "ser_exc": "", "same_bytes": False, "same_desc": False, "redes_ok": False, "diff_bit": -1, "seqs": [], "hvg": [], "hvbits": 0}
        return ev
    finally:
        signal.setitimer(signal.ITIMER_VIRTUAL, 0)
        signal.signal(signal.SIGVTALRM, old)


def _roundtrip(data):
    """-> event dict (without tid)"""
    ev = {"ev": "rt", "n": len(data), "parsed": False, "outcome": "", "ser_ok": False, "ser_exc": "", "same_bytes": False, "same_desc": False, "redes_ok": False, "diff_bit": -1, "seqs": [], "hvg": [], "hvbits": 0}
    try:
        desc = deserialise(data)
    except EOFError:
        ev["outcome"] = "eof"
        return ev
    except MemoryError:
        raise
    except Exception as e:  # noqa
        ev["outcome"] = "raises"
        ev["exc"] = common.exc_signature(e)
        return ev
    ev["parsed"] = True
    ev["outcome"] = "complete"
    ev["seqs"] = unit_kinds(desc)
    snapshot = strip_state(desc)
    hv = sorted(huge_values(snapshot))
    ev["hvg"] = sorted(trace.limbs(v) for v in hv)
    ev["hvbits"] = max([v.bit_length() for v in hv] or [0])
    try:
        out = serialise(desc, (len(data) + 64) if len(data) % 3 == 1 else 0)
        ev["prefilled"] = len(data) % 3 == 1
    except MemoryError:
        raise
    except Exception as e:  # noqa
        ev["ser_exc"] = vc2_frame(e)
        return ev
    ev["ser_ok"] = True
    ev["same_bytes"] = out == data
    ev["diff_bit"] = first_diff_bit(out, data)
    ev["out_n"] = len(out)
    try:
        again = deserialise(out)
        ev["redes_ok"] = True
        ev["same_desc"] = strip_state(again) == snapshot
    except Exception as e:  # noqa
        ev["redes_exc"] = common.exc_signature(e)
    return ev




def sim_states(path):
    """states of a `tlc -simulate` trace file (TLC interleaves `\\* <Action ...>` comment lines, which the shared
    value parser does not skip: they are removed here before parsing)"""
    with open(path) as f:
        text = "".join(l for l in f if not l.lstrip().startswith(("\\*", "====", "----")))
    clean = path + ".clean"
    with open(clean, "w") as f:
        f.write(text)
    return list(tlaval.iter_dump(clean))


class _CachedRes(object):
    """stand-in for a TLCResult restored from VERIF_CASE_CACHE (mutation runs re-use the repo-independent TLC output)"""

    def __init__(self, d):
        self.d = d
        self.distinct = d["distinct_states"]
        self.generated = d["states_generated"]

    def summary(self):
        return dict(self.d, cached=True)


def cached_tlc(ctx, name, label, consts, producer):
    """producer() -> (TLCResult, cases).  With VERIF_CASE_CACHE=<dir> the (repo-independent) result is stored / re-used."""
    import json

    d = os.environ.get("VERIF_CASE_CACHE")
    path = os.path.join(d, "%s_%s_%d.json" % (name, ctx.tier, ctx.seed)) if d else None
    if path and os.path.exists(path):
        with open(path) as f:
            blob = json.load(f)
        ctx.add_tlc(_CachedRes(blob["summary"]), label, consts)
        return blob["cases"]
    res, cases = producer()
    ctx.add_tlc(res, label, consts)
    if path:
        with open(path + ".tmp", "w") as f:
            json.dump({"summary": res.summary(), "cases": cases}, f)
        os.replace(path + ".tmp", path)
    return cases


# ------------------------------------------------------------------------------------------------
def load_histories(path):
    """histories of TLC's dump; the steps that carry a huge value get the code (bit string) and the value (limbs) of
    their class from the table TLC computed once (variable tab of the initial state)"""
    out = []
    tab = {}
    for st in tlaval.iter_dump(path):
        if st["hist"]:
            out.append(tlaval.to_jsonable(st["hist"]))
        elif st["tab"]:
            for row in tlaval.to_jsonable(st["tab"]):
                for e in row:
                    tab[(e["k"], e["pat"])] = e
    if not tab:
        raise RuntimeError("the dump holds no table of huge-value codes")
    import json

    out.sort(key=lambda h: json.dumps(h, sort_keys=True))  # the order of a 16-worker dump varies from run to run
    for h in out:
        for s in h:
            b = s["u"].get("big") if isinstance(s["u"], dict) else None
            if b:
                s["code"] = list(tab[(b["k"], b["pat"])]["code"])
                s["val"] = list(tab[(b["k"], b["pat"])]["val"])
    return out


PLAIN_EOS = {"u": {"k": "EOS", "offs": "zero", "prefix": "ok"}, "dev": False}


def g_case(arg):
    tid, hist, seed, close = arg
    ended = hist[-1]["u"]["k"] == "END"
    ev = roundtrip(build_bytes(hist + [PLAIN_EOS] if close and not ended else hist, seed))
    ev["tid"] = tid
    ev["src"] = "tlc"
    ev["predicted"] = hist[-1]["closed" if close else "fin"]
    ev["dev"] = any(s["dev"] for s in hist)
    # the huge values TLC derived for the codes this stream carries (limbs): what a complete parse must report
    ev["hvx"] = True
    ev["hve"] = sorted(list(s["val"]) for s in hist if s.get("val"))
    return ev


def library_stream(seed):
    """a conformant stream produced by the library with random slice content (base for mutation)"""
    from vc2_conformance.bitstream import vc2_fixeddicts as fd
    from vc2_conformance.bitstream.vc2_autofill import autofill_and_serialise_stream
    from bitarray import bitarray

    if seed % 4 == 3:
        # one sequence whose pictures differ in transform depths (symmetric / horizontal-only splits; encoder output
        # spliced at byte level in harness/corpus.py): what the parser computes for one picture must not depend on
        # the pictures parsed or serialised before it
        from .. import corpus

        mixed = [d for n, d in corpus.base_streams() if "_mixed_" in n]
        return mixed[(seed // 4) % len(mixed)]
    rnd = random.Random(seed)
    hq = rnd.random() < 0.5
    sx, sy = rnd.choice([(1, 1), (2, 1), (2, 2)])
    w_, h_ = rnd.choice([(4, 4), (8, 4), (4, 8)])
    depth = rnd.choice([0, 1])
    n = sx * sy

    huge = random.Random(seed * 131 + 5)  # own generator: the stream of small choices stays as it was

    def coeffs(k):
        v = [rnd.choice([0, 0, 0, 1, -1, 2, -7, 31]) for _ in range(k)]
        if seed % 5 == 0:  # every fifth base stream: one coefficient of 31 .. 130 bits per block
            e = huge.choice([31, 32, 47, 48, 49, 53, 54, 63, 64, 65, 100, 129])
            m = (1 << e) - huge.choice([1, 2, 3, huge.randrange(1, 1 << 20)])
            v[huge.randrange(k)] = m if huge.random() < 0.5 else -m
        return v

    luma_per_slice = (w_ * h_) // n
    sh = fd.DataUnit(
        parse_info=fd.ParseInfo(parse_code=0),
        sequence_header=fd.SequenceHeader(
            parse_parameters=fd.ParseParameters(major_version=rnd.choice([2, 3]) if hq else rnd.choice([1, 3]), profile=3 if hq else 0),
            video_parameters=fd.SourceParameters(
                frame_size=fd.FrameSize(custom_dimensions_flag=True, frame_width=w_, frame_height=h_),
                color_diff_sampling_format=fd.ColorDiffSamplingFormat(custom_color_diff_format_flag=True, color_diff_format_index=0),
            ),
        ),
    )
    tp = fd.TransformParameters(wavelet_index=rnd.choice([1, 4]), dwt_depth=depth, slice_parameters=fd.SliceParameters(slices_x=sx, slices_y=sy))
    slices = []
    if hq:
        tp["slice_parameters"]["slice_prefix_bytes"] = rnd.choice([0, 1])
        tp["slice_parameters"]["slice_size_scaler"] = rnd.choice([1, 2])
        for _ in range(n):
            s = fd.HQSlice(qindex=rnd.randrange(20), prefix_bytes=bytes(rnd.randrange(256) for _ in range(tp["slice_parameters"]["slice_prefix_bytes"])))
            for c in ("y", "c1", "c2"):
                v = coeffs(luma_per_slice)
                s[c + "_transform"] = v
                bits = len(sint_bits(v))
                s["slice_%s_length" % c] = (bits + 8 * tp["slice_parameters"]["slice_size_scaler"] - 1) // (8 * tp["slice_parameters"]["slice_size_scaler"]) + rnd.choice([0, 0, 1])
            slices.append(s)
        td = fd.TransformData(hq_slices=slices)
    else:
        per = 0
        for _ in range(n):
            y = coeffs(luma_per_slice)
            c = coeffs(2 * luma_per_slice)
            s = fd.LDSlice(qindex=rnd.randrange(20), y_transform=y, c_transform=c, slice_y_length=len(sint_bits(y)) + rnd.choice([0, 0, 3]))
            per = max(per, (7 + 12 + s["slice_y_length"] + len(sint_bits(c)) + 7) // 8 + rnd.choice([0, 2]))
            slices.append(s)
        tp["slice_parameters"]["slice_bytes_numerator"] = per * n
        tp["slice_parameters"]["slice_bytes_denominator"] = n
        td = fd.TransformData(ld_slices=slices)
    pic = fd.DataUnit(
        parse_info=fd.ParseInfo(parse_code=0xE8 if hq else 0xC8),
        picture_parse=fd.PictureParse(wavelet_transform=fd.WaveletTransform(transform_parameters=tp, transform_data=td)),
    )
    pad = fd.DataUnit(parse_info=fd.ParseInfo(parse_code=rnd.choice([0x30, 0x20])))
    key = "padding" if pad["parse_info"]["parse_code"] == 0x30 else "auxiliary_data"
    pad[key] = (fd.Padding if key == "padding" else fd.AuxiliaryData)(bytes=bytes(rnd.randrange(256) for _ in range(rnd.randrange(0, 6))))
    units = [sh, pic, pad, fd.DataUnit(parse_info=fd.ParseInfo(parse_code=0x10))]
    f = io.BytesIO()
    autofill_and_serialise_stream(f, fd.Stream(sequences=[fd.Sequence(data_units=units)]))
    return f.getvalue()


def mutate(data, rnd):
    b = bytearray(data)
    for _ in range(rnd.choice([1, 1, 1, 2, 3])):
        if not b:
            break
        op = rnd.random()
        p = rnd.randrange(len(b))
        if op < 0.55:
            b[p] ^= 1 << rnd.randrange(8)
        elif op < 0.7:
            b[p] = rnd.choice([0, 0xFF, rnd.randrange(256)])
        elif op < 0.8:
            # target a parse_info next_parse_offset / parse code
            q = bytes(b).find(b"BBCD", rnd.randrange(len(b)))
            if q >= 0 and q + 9 <= len(b):
                if rnd.random() < 0.5:
                    b[q + 4] = rnd.choice([0x00, 0x10, 0x20, 0x21, 0x30, 0x88, 0xC8, 0xE8, 0xCC, 0xEC, 0x40])
                else:
                    b[q + 5 : q + 9] = rnd.choice([0, 1, 12, 13, 14, 20]).to_bytes(4, "big")
        elif op < 0.9:
            del b[p : p + rnd.choice([1, 2, 13])]
        else:
            b[p:p] = bytes(rnd.randrange(256) for _ in range(rnd.choice([1, 13])))
    return bytes(b)


def m_case(arg):
    tid, kind, base_seed, mseed, hist = arg
    rnd = random.Random(mseed)
    try:
        base = build_bytes(hist, base_seed) if kind == "hist" else library_stream(base_seed)
    except Exception as e:  # noqa: the library could not produce the seed stream (producer fault: not C06's subject)
        return {"tid": tid, "src": kind, "ev": "rt", "n": 0, "parsed": False, "outcome": "no-seed", "exc": common.exc_signature(e), "ser_ok": False, "ser_exc": "", "same_bytes": False, "same_desc": False, "redes_ok": False, "diff_bit": -1, "seqs": [], "hvg": [], "hvbits": 0}
    data = mutate(base, rnd) if mseed % 7 else base
    ev = roundtrip(data)
    ev["tid"] = tid
    ev["src"] = kind
    return ev


def _slim(ev):
    d = {k: ev[k] for k in ("tid", "ev", "parsed", "outcome", "ser_ok", "same_bytes", "same_desc", "redes_ok", "seqs")}
    d["hvx"] = bool(ev.get("hvx"))  # a prediction of the huge values exists (TLC histories only)
    d["hve"] = ev.get("hve", [])
    d["hvg"] = ev.get("hvg", [])
    return d


def case_of(ev, job):
    if ev["src"] == "tlc":
        return {"kind": "tlc", "hist": job[1], "seed": job[2], "close": job[3]}
    return {"kind": "mut", "job": [job[1], job[2], job[3], job[4]]}


def selftest(hists, convicted=False):
    """binding demonstration: a writer that disagrees with the reader about unused bounded-block bits, and a
    corrupted recorded field, must be flagged by TLC's verdict."""
    from vc2_conformance.bitstream import io as bio

    h = [
        {"u": {"k": "SH", "ver": 3, "idx": "known", "bvf": "custom", "align": "ones"}, "dev": False},
        {"u": {"k": "PIC", "prof": "hq", "sl": "long", "align": "ones"}, "dev": False},
        {"u": {"k": "PIC", "prof": "ld", "sl": "ones", "align": "zero"}, "dev": False},
        PLAIN_EOS,
    ]
    data = build_bytes(h, 1)
    good = roundtrip(data)
    good["tid"] = 1
    orig = bio.BitstreamWriter.write_bitarray

    def broken(self, bits, value):  # drops the stored padding bits (writes zeros)
        for _ in range(bits):
            self.write_bit(0)

    bio.BitstreamWriter.write_bitarray = broken
    try:
        bad_ev = roundtrip(data)
    finally:
        bio.BitstreamWriter.write_bitarray = orig
    bad_ev["tid"] = 2
    corrupt = dict(good, tid=3, same_desc=False)
    bad, _ = trace.validate("DeserTrace", [_slim(good), _slim(bad_ev), _slim(corrupt)])
    by = {b["tid"]: b for b in bad if b["alarm"]}
    if 1 in by:
        if convicted:
            return {"skipped": "reference round trip of the self-test is itself flagged (%s); violations were already recorded" % by[1]["clause"]}
        raise RuntimeError("binding self-test: reference round trip flagged %r" % (by[1],))
    if 2 not in by or by[2]["clause"] != "SameBytes":
        raise RuntimeError("binding self-test failed: writer that zeroes padding bits not flagged: %r %r" % (bad, bad_ev))
    if 3 not in by or by[3]["clause"] != "SameDescription":
        raise RuntimeError("binding self-test failed: corrupted same_desc accepted")
    return {"mutant": "BitstreamWriter.write_bitarray writing zeros instead of the stored bits (in-process monkeypatch)", "verdict": by[2], "corrupted_field": "same_desc=false -> clause SameDescription"}


def run(ctx):
    def produce():
        res = tlc.run("Deser", "mc/Deser.cfg", dump=True, timeout=1200)
        return res, load_histories(res.dump_path)

    hists = cached_tlc(ctx, "c06_exhaustive", "exhaustive", {"MaxLen": 12}, produce)
    if not ctx.quick:
        import glob

        def produce_sim():
            sim = tlc.run("Deser", open(os.path.join(tlc.SPEC, "mc/Deser.cfg")).read().replace("MaxLen = 12", "MaxLen = 14").replace("WithBig = TRUE", "WithBig = FALSE"), simulate=3000, depth=16, seed=ctx.seed, workers=1, timeout=1200)
            out = []
            for p in sorted(glob.glob(os.path.join(sim.sim_dir, "tr*"))):
                sts = sim_states(p)
                if sts and sts[-1]["hist"]:
                    out.append(tlaval.to_jsonable(sts[-1]["hist"]))
            return sim, out

        hists = hists + cached_tlc(ctx, "c06_simulate", "random walks", {"MaxLen": 14, "simulate": 3000, "depth": 16}, produce_sim)
    sub = int(os.environ.get("VERIF_SUBSAMPLE") or 1)  # mutation-sanity runs only: a subset of the full run
    reps = ctx.pick(3, 12) if sub == 1 else 1
    big_reps = ctx.pick(1, 3) if sub == 1 else 1  # histories with a huge value: the class is TLC's, only the filler is seeded

    def is_big(h):
        return any("big" in s["u"] for s in h)

    jobs = []
    for h in hists:
        for r in range(big_reps if is_big(h) else reps):
            for close in (False, True):
                if close and h[-1]["u"]["k"] == "END":
                    continue
                if not close and "big" in h[-1]["u"]:
                    continue  # a stream that stops right after a huge-value unit is not parsed (eof): only the closed one
                jobs.append((len(jobs) + 1, h, ctx.seed * 1009 + r, close))
    gev = common.pmap(g_case, jobs)
    nm = ctx.pick(20000, 400000) // sub
    complete = [h for h in hists if h[-1]["u"]["k"] == "END" and h[-1]["out"] == "complete" and not is_big(h)]
    # (the dump holds one history per abstract transition: the clean end of a stream is reached first by a history
    # without huge values, so the complete huge-value streams are the huge-value transitions closed by a plain EOS)
    complete_big = [h + [PLAIN_EOS] for h in hists if "big" in h[-1]["u"] and h[-1]["closed"] == "complete"]
    if not complete_big:
        raise RuntimeError("no complete history with a huge value in TLC's dump")
    rnd = random.Random(ctx.seed)
    rnd_big = random.Random(ctx.seed * 31 + 7)
    mjobs = []
    for j in range(nm):
        tid = len(jobs) + 1 + j
        if j % 3 == 0:
            mjobs.append((tid, "lib", rnd.randrange(5000), rnd.randrange(1 << 30), None))
        else:
            a, b, c = rnd.randrange(1 << 20), rnd.randrange(1 << 30), rnd.choice(complete)
            if j % 4 == 1:  # a quarter of all mutants: streams that carry a huge exp-Golomb value
                c = rnd_big.choice(complete_big)
            mjobs.append((tid, "hist", a, b, c))
    mev = common.pmap(m_case, mjobs)
    events = gev + mev
    alljobs = jobs + mjobs
    bad, tres = trace.validate("DeserTrace", [_slim(e) for e in events])
    ctx.add_tlc(tres, "trace validation (DeserTrace)")
    logged = {}
    for b in bad:
        ev = events[b["tid"] - 1]
        job = alljobs[b["tid"] - 1]
        if not b["alarm"]:
            logged[b["clause"]] = logged.get(b["clause"], 0) + 1
            continue
        if b["clause"] == "Reserialises":
            sig = "C06|serialise-raises|%s" % ev["ser_exc"]
            what = "a %d-byte stream (%s) deserialises to completion (data units %s) but serialising the resulting description raises %s" % (ev["n"], ev["src"], ev["seqs"], ev["ser_exc"])
        elif b["clause"] == "SameBytes":
            sig = "C06|bytes-differ"
            what = "a %d-byte stream (%s, data units %s) deserialises and re-serialises to %d bytes that differ from bit %d" % (ev["n"], ev["src"], ev["seqs"], ev.get("out_n", -1), ev["diff_bit"])
        else:
            sig = "C06|description-differs" if ev["redes_ok"] else "C06|output-not-parseable|%s" % ev.get("redes_exc", "?")
            what = "a %d-byte stream (%s, data units %s): re-deserialising the serialiser's output %s" % (ev["n"], ev["src"], ev["seqs"], "gives a different description" if ev["redes_ok"] else "fails")
        ctx.violation(sig, what, case_of(ev, job))
    # spec-only prediction (outcome class) on the unmutated TLC histories
    pred_dis = sum(1 for e in gev if e["predicted"] != e["outcome"])
    parsed = sum(1 for e in events if e["parsed"])
    if parsed < len(events) // 20 or sum(1 for e in gev if e["parsed"]) < 50:
        raise RuntimeError("vacuous: only %d of %d streams parsed to completion" % (parsed, len(events)))
    try:
        st = selftest(hists, bool(ctx.violations))
    except RuntimeError as e:
        if not ctx.violations:
            raise
        st = {"skipped": "self-test not conclusive on code that is already convicted by this run: %s" % e}
    big_parsed = [e for e in gev if e["parsed"] and e.get("hve")]
    big48 = [e for e in events if e["parsed"] and e.get("hvbits", 0) >= 48]
    if len(big_parsed) < 500 or len(big48) < 500:
        raise RuntimeError("vacuous: only %d parsed TLC streams carry a huge value, only %d parsed streams hold an integer of 48 bits or more" % (len(big_parsed), len(big48)))
    kinds = set()
    for e in events:
        if e["parsed"]:
            kinds.add((e["n"], repr(e["seqs"])))
    samples = []
    for e in (gev[0], gev[len(gev) // 2], mev[0], mev[1], mev[2]):
        samples.append({k: e[k] for k in ("src", "n", "outcome", "seqs", "ser_ok", "same_bytes", "same_desc")})
    ctx.coverage.update(
        {
            "traces_validated_against_impl": len(events),
            "evaluations": parsed,
            "distinct_nontrivial": len(kinds),
            "rule": "evaluations = byte strings the deserialiser parsed to completion (the premise of C06), each re-serialised, compared bit for bit and re-deserialised; non-trivial = distinct (length, parsed data-unit sequence) among them",
            "exhaustive": True,
            "histories": len(hists),
            "tlc_history_streams": len(gev),
            "mutants": len(mev),
            "parsed_to_completion": parsed,
            "huge_values": {
                "classes_enumerated_by_tlc": "7 code lengths (31, 47, 48, 53, 63, 64, 100 data bits) x 4 bit patterns (2^k - 1, 2^(k+1) - 2, alternating, 2^(k+1) - 3) x 19 positions (6 sequence header fields, custom quantisation matrix entry of LD/HQ pictures and first fragments, first/last coefficient of either sign in LD/HQ pictures and HQ fragments)",
                "parsed_tlc_streams_with_huge_value": len(big_parsed),
                "parsed_streams_with_integer_of_48_bits_or_more": len(big48),
                "of_which_mutants": sum(1 for e in big48 if e["src"] != "tlc"),
                "largest_integer_bits": max(e.get("hvbits", 0) for e in events),
            },
            "outcomes": {o: sum(1 for e in events if e["outcome"] == o) for o in ("complete", "eof", "raises", "timeout", "no-seed")},
            "spec_disagreements": {"predicted_outcome_differs": pred_dis, "logged_clauses": logged},
            "binding_selftest": st,
            "samples": samples,
        }
    )
    ctx.assumptions += [
        "TLC histories are concretised by the harness's own bit writer (2x2 4:4:4 pictures, one slice, depth 0); library-built base streams (up to 4x4, depth 1, 4 slices) are only used as seeds for mutation",
        "descriptions are compared without the computed '_state' copies",
        "exhaustive box: every abstract transition (state before, unit, state after, plain-so-far flag) of Deser.tla's outcome machine over its alphabet (history length bound 12, never reached); a huge-value unit is explored after every history of plain units and is followed by a plain end of sequence / the end of the stream only",
        "a mutant whose round trip needs more than 3 CPU-seconds (e.g. a corrupted dimension declaring an enormous picture) is counted as 'timeout' and is outside the evaluated set",
    ]


def replay(case):
    if case["kind"] == "tlc":
        ev = g_case((1, case["hist"], case["seed"], case["close"]))
    else:
        j = case["job"]
        ev = m_case((1, j[0], j[1], j[2], j[3]))
    bad, _ = trace.validate("DeserTrace", [_slim(ev)])
    return {"violations": [b for b in bad if b["alarm"]], "event": {k: v for k, v in ev.items()}}
