"""C18 -- the data-unit pattern matcher implements its regular-expression language.

Spec: spec/SymbolRegexOps.tla (language by Brzozowski derivatives, concrete syntax printer, the code's
Thompson automaton with directed and with symmetric empty transitions) + spec/SymbolRegex.tla (one
behaviour = one Matcher: Init picks the pattern, Feed(x)/Refuse(x) = match_symbol).

Binding G (spec -> code): TLC explores every (pattern, accepted prefix) state of the exhaustive box; the dump
carries, per state, what match_symbol must answer for every symbol, what is_complete must answer, and the
concrete syntax of the pattern (minimal and full parenthesisation).  The driver builds a real Matcher from
the printed text, walks the same tree and compares after every step.  The same module in "file" mode does
the same for the real level / test-case / encoder patterns over all data-unit names.

Binding T (code -> spec): random larger patterns and longer sequences are run on the real Matcher, every call
recorded, and spec/SymbolRegexTrace.tla judges each line.

Attribution (R5): a violating case is given the signature of the known defect D3 only if the
DeviationBidirEpsilon model (symmetric empty transitions) predicts every observed answer on that very case.
"""
import ast as pyast
import copy
import json
import os
import random
import re

from .. import common, tlc, tlaval

END = "$"  # spec's name of END_OF_SEQUENCE ("" in the code)
WILD = "."
SIG_D3 = "C18|DeviationBidirEpsilon@symbol_re.py:NFA.from_ast"
FRESH_CAP = 8  # fresh violations recorded per (pattern spelling) before its walk stops


# ------------------------------------------------------------------------------------ TLC runs
def run_tlc(module, cfg, **kw):
    """tlc.run; when VERIF_TLC_CACHE names a directory (mutation campaigns: same spec, many variants of the
    code) the result and dump of an identical earlier run (same spec files, cfg, arguments) are reused."""
    import hashlib
    import pickle
    import shutil

    d = os.environ.get("VERIF_TLC_CACHE")
    if not d:
        return tlc.run(module, cfg, **kw)
    h = hashlib.sha1()
    for fn in sorted(os.listdir(tlc.SPEC)):
        if fn.endswith(".tla"):
            with open(os.path.join(tlc.SPEC, fn), "rb") as f:
                h.update(f.read())
    h.update(repr((module, cfg, sorted((k, v) for k, v in kw.items() if k != "env"))).encode())
    for k, v in sorted((kw.get("env") or {}).items()):
        h.update(k.encode())
        if os.path.isfile(v):
            with open(v, "rb") as f:
                h.update(f.read())
    key = os.path.join(d, h.hexdigest())
    if os.path.exists(key + ".pkl"):
        with open(key + ".pkl", "rb") as f:
            res = pickle.load(f)
        if res.dump_path:
            res.dump_path = key + ".dump"
        return res
    res = tlc.run(module, cfg, **kw)
    os.makedirs(d, exist_ok=True)
    if res.dump_path:
        shutil.copy(res.dump_path, key + ".dump")
    with open(key + ".pkl", "wb") as f:
        pickle.dump(res, f)
    return res


# ------------------------------------------------------------------------------------ dump loading
_HDR = re.compile(r"^State \d+:.*$", re.M)
_VAR = re.compile(r"^/\\ ([A-Za-z_][A-Za-z0-9_]*) = ", re.M)
WANTED = ("pat", "w", "out", "txt")


def _parse_blocks(arg):
    wanted, blocks = arg
    out = []
    for block in blocks:
        ms = list(_VAR.finditer(block))
        st = {}
        for j, m in enumerate(ms):
            if m.group(1) in wanted:
                end = ms[j + 1].start() if j + 1 < len(ms) else len(block)
                st[m.group(1)] = tlaval.parse(block[m.end() : end])
        out.append(st)
    return out


def parse_dump(dump_path, wanted):
    """states of a TLC dump, only the variables in `wanted` parsed (in parallel when the dump is large)"""
    with open(dump_path) as f:
        text = f.read()
    hdrs = list(_HDR.finditer(text))
    blocks = []
    for j, h in enumerate(hdrs):
        end = hdrs[j + 1].start() if j + 1 < len(hdrs) else len(text)
        blocks.append(text[h.end() : end])
    if len(blocks) <= 60000:
        return _parse_blocks((wanted, blocks))
    n = 2000
    chunks = [(wanted, blocks[i : i + n]) for i in range(0, len(blocks), n)]
    out = []
    for states in common.pmap(_parse_blocks, chunks, chunksize=1):
        out += states
    return out


def load_states(dump_path):
    """-> {pattern key: {"pat": ast, "txt": {...}, "table": {w tuple: out}}}"""
    pats = {}
    for st in parse_dump(dump_path, WANTED):
        key = repr(st["pat"])
        p = pats.setdefault(key, {"pat": tlaval.to_jsonable(st["pat"]), "table": {}, "txt": None})
        p["table"][tuple(st["w"])] = _out(st["out"])
        if len(st["w"]) == 0:
            p["txt"] = tlaval.to_jsonable(st["txt"])
    return pats


def _out(o):
    return {
        "complete": bool(o["complete"]),
        "next": sorted(o["next"]),
        "devComplete": bool(o["devComplete"]),
        "devNext": sorted(o["devNext"]),
        "devVns": sorted(o["devVns"]),
        "thVns": sorted(o["thVns"]),
    }


# ------------------------------------------------------------------------------------ concretisation
def join_tokens(toks, style):
    """token list (from the spec's printer) -> pattern text"""
    if style == "compact":
        s = ""
        for t in toks:
            if s and (s[-1].isalnum() or s[-1] == "_") and (t[0].isalnum() or t[0] == "_"):
                s += " "
            s += t
        return s
    if style == "lines":
        # "whitespace is ignored": every kind of separator, alone between two tokens (a lone carriage return too)
        seps = ["\n\t", "\r", "\t", "\r\n", "\n", "\r\r", " \r"]
        s = ""
        for i, t in enumerate(toks):
            s += t + (seps[i % len(seps)] if i + 1 < len(toks) else "")
        return s + "\r\n"
    return " ".join(toks)


def texts_of(txt, only=None):
    """the concrete spellings of one enumerated pattern that are run"""
    out = []
    seen = set()
    for name, toks, style in (("min", txt["min"], "space"), ("full", txt["full"], "space"), ("min-compact", txt["min"], "compact"), ("full-lines", txt["full"], "lines")):
        if only and name not in only:
            continue
        t = join_tokens(toks, style)
        if t not in seen:
            seen.add(t)
            out.append((name, t))
    return out


def to_code_symbol(x):
    return "" if x == END else x


# ------------------------------------------------------------------------------------ observation
def _vns(m):
    return set(END if s == "" else s for s in m.valid_next_symbols())


def observe_fresh(text, w, alphabet):
    """Full observation of the matcher state after `w`, each probe on a fresh Matcher."""
    from vc2_conformance.symbol_re import Matcher

    def fed():
        m = Matcher(text)
        fedok = [bool(m.match_symbol(x)) for x in w]
        return m, fedok

    m, fedok = fed()
    obs = {"fed": fedok, "complete": bool(m.is_complete()), "vns": sorted(_vns(m)), "accept": []}
    for x in alphabet:
        m, _ = fed()
        if bool(m.match_symbol(x)):
            obs["accept"].append(x)
    return obs


def classify(exp, obs, alphabet):
    """-> None if the observation satisfies the property on this case, else (signature, what)."""
    acc = set(obs["accept"])
    nxt = set(exp["next"])
    vns = set(obs["vns"])
    offered = set(x for x in alphabet if x in vns or WILD in vns)
    problems = []
    if not all(obs.get("fed", [])):
        problems.append(("match_symbol|unstable-prefix", "a prefix accepted before is now rejected"))
    if acc - nxt:
        problems.append(("match_symbol|accepts-symbol-no-match-can-follow", "accepts %s" % sorted(acc - nxt)))
    if nxt - acc:
        problems.append(("match_symbol|rejects-symbol-of-a-match", "rejects %s" % sorted(nxt - acc)))
    if obs["complete"] != exp["complete"]:
        problems.append(("is_complete|%s" % ("true-on-incomplete" if obs["complete"] else "false-on-complete"), "is_complete()=%s" % obs["complete"]))
    if offered - nxt:
        problems.append(("valid_next_symbols|lists-symbol-no-match-can-follow", "offers %s" % sorted(offered - nxt)))
    if nxt - offered:
        problems.append(("valid_next_symbols|omits-symbol-of-a-match", "omits %s" % sorted(nxt - offered)))
    if (END in vns) != exp["complete"]:
        problems.append(("valid_next_symbols|end-of-sequence-%s" % ("listed-on-incomplete" if END in vns else "missing-on-complete"), "END_OF_SEQUENCE in result: %s" % (END in vns)))
    if not problems:
        return None
    # attribution: does the symmetric-epsilon automaton predict *every* observed answer on this case?
    if all(obs.get("fed", [True])) and acc == set(exp["devNext"]) and obs["complete"] == exp["devComplete"] and vns == set(exp["devVns"]):
        return SIG_D3, "; ".join(p[1] for p in problems)
    return "C18|" + problems[0][0], "; ".join(p[1] for p in problems)


def walk(text, table, alphabet, maxlen):
    """Walk the tree of accepted prefixes on the real Matcher.  -> (violations, nodes, steps, disagreements)"""
    from vc2_conformance.symbol_re import Matcher

    viol = []
    nodes = steps = dis = 0
    try:
        m0 = Matcher(text)
    except Exception as e:  # noqa
        return [("C18|Matcher|%s" % common.exc_signature(e), "Matcher(%r) raised %r" % (text, e), ())], 0, 0, 0
    stack = [((), m0)]
    alph = sorted(alphabet)
    while stack:
        if sum(1 for v in viol if v[0] != SIG_D3) >= FRESH_CAP:
            break  # this spelling already raises the alarm many times over; cases attributed to D3 never stop the walk
        w, m = stack.pop()
        exp = table[w]
        nodes += 1
        bad = False
        try:
            nxt = set(exp["next"])
            c1 = bool(m.is_complete())
            v1 = _vns(m)
            offered = set(x for x in alph if x in v1 or WILD in v1)
            if c1 != exp["complete"] or offered != nxt or (END in v1) != exp["complete"]:
                bad = True
            elif v1 != set(exp["thVns"]):
                dis += 1  # R1: the exact set Thompson's automaton would list is a spec extra, never an alarm
            refused = [x for x in alph if x not in nxt]
            for x in refused:
                steps += 1
                if m.match_symbol(x):
                    bad = True
                    break
            if not bad and refused:
                # rejected symbols must not have moved the matcher
                if bool(m.is_complete()) != c1 or _vns(m) != v1:
                    viol.append(("C18|match_symbol|rejected-symbol-moved-the-matcher", "%r after %s: answers changed after rejected symbols %s" % (text, list(w), refused), w))
                    continue
            kids = sorted(nxt)
            live = []
            if not bad:
                for i, x in enumerate(kids):
                    mm = m if i == len(kids) - 1 else copy.deepcopy(m)
                    steps += 1
                    if not mm.match_symbol(x):
                        bad = True
                        break
                    live.append((x, mm))
        except Exception as e:  # noqa
            viol.append(("C18|%s" % common.exc_signature(e), "%r after %s raised %r" % (text, list(w), e), w))
            continue
        if bad:
            obs = observe_fresh(text, w, alph)
            r = classify(exp, obs, alph)
            if r is None:
                viol.append(("C18|match_symbol|answers-depend-on-earlier-rejected-symbols", "%r after %s: live matcher disagrees with a fresh one" % (text, list(w)), w))
                continue
            viol.append((r[0], "%r after %s: %s" % (text, list(w), r[1]), w))
            # continue below this node along the symbols both sides accept (fresh matchers)
            live = []
            for x in kids:
                if x in obs["accept"]:
                    mm = Matcher(text)
                    for y in w + (x,):
                        mm.match_symbol(y)
                    live.append((x, mm))
        if len(w) < maxlen:
            for x, mm in live:
                if w + (x,) in table:
                    stack.append((w + (x,), mm))
    return viol, nodes, steps, dis


def exec_pattern(job):
    """job = (key, [(style, text)], table as list of (w, out), alphabet, maxlen)"""
    key, texts, table_items, alphabet, maxlen = job
    table = dict((tuple(w), o) for w, o in table_items)
    res = {"violations": [], "nodes": 0, "steps": 0, "dis": 0}
    for style, text in texts:
        viol, nodes, steps, dis = walk(text, table, alphabet, maxlen)
        res["nodes"] += nodes
        res["steps"] += steps
        res["dis"] += dis
        for sig, what, w in viol:
            res["violations"].append((sig, what, {"text": text, "style": style, "w": list(w), "alphabet": sorted(alphabet), "expect": table[tuple(w)]}))
    return res


# ------------------------------------------------------------------------------------ real patterns
class _PatternSyntax(Exception):
    pass


def parse_pattern(text):
    """Independent parser of the pattern syntax (precedence: suffix > concatenation > |) -> spec AST (lists)."""
    toks = re.findall(r"\w+|[.$?*+|()]", text)
    if "".join(toks) != re.sub(r"\s+", "", text):
        raise _PatternSyntax(text)
    pos = [0]

    def peek():
        return toks[pos[0]] if pos[0] < len(toks) else None

    def alt():
        left = cat()
        while peek() == "|":
            pos[0] += 1
            right = cat()
            left = ["alt", left, right]
        return left

    def cat():
        items = []
        while peek() is not None and peek() not in ("|", ")"):
            items.append(post())
        if not items:
            return ["eps"]
        r = items[-1]
        for it in reversed(items[:-1]):
            r = ["cat", it, r]
        return r

    def post():
        t = peek()
        pos[0] += 1
        if t == "(":
            a = alt()
            if peek() != ")":
                raise _PatternSyntax(text)
            pos[0] += 1
        elif t == ".":
            a = ["any"]
        elif t == "$":
            a = ["end"]
        elif re.match(r"\w+$", t):
            a = ["sym", t]
        else:
            raise _PatternSyntax(text)
        if peek() in ("*", "?", "+"):
            a = [{"*": "star", "?": "opt", "+": "plus"}[peek()], a]
            pos[0] += 1
            if peek() in ("*", "?", "+"):
                raise _PatternSyntax(text)
        return a

    a = alt()
    if pos[0] != len(toks):
        raise _PatternSyntax(text)
    return a


def real_patterns():
    """Pattern strings the library really uses: every level's sequence restriction, the generic sequence
    pattern, and every string literal in encoder/, decoder/ and test_cases/ that is a pattern over data-unit
    names with at least one operator.  -> sorted list of (text, where)"""
    import vc2_conformance
    from vc2_data_tables import ParseCodes
    from vc2_conformance.level_constraints import LEVEL_SEQUENCE_RESTRICTIONS

    names = set(pc.name for pc in ParseCodes)
    found = {}
    for level, r in sorted(LEVEL_SEQUENCE_RESTRICTIONS.items(), key=lambda kv: int(kv[0])):
        found.setdefault(r.sequence_restriction_regex, "level %d" % int(level))
    root = os.path.dirname(vc2_conformance.__file__)
    for sub in ("encoder", "decoder", "test_cases"):
        for dp, _, fns in os.walk(os.path.join(root, sub)):
            for fn in sorted(fns):
                if not fn.endswith(".py"):
                    continue
                path = os.path.join(dp, fn)
                try:
                    with open(path) as f:
                        tree = pyast.parse(f.read())
                except SyntaxError:
                    continue
                for node in pyast.walk(tree):
                    s = None
                    if isinstance(node, pyast.Constant) and isinstance(node.value, str):
                        s = node.value
                    if not s or len(s) > 400 or "\n" in s.strip():
                        continue
                    words = re.findall(r"\w+", s)
                    if not words or not all(w_ in names for w_ in words):
                        continue
                    if not re.search(r"[.$?*+|()]", s) or not re.match(r"^[\w\s.$?*+|()]+$", s):
                        continue
                    try:
                        parse_pattern(s)
                    except _PatternSyntax:
                        continue
                    found.setdefault(s, os.path.relpath(path, root))
    return sorted(found.items())


def real_alphabet():
    from vc2_data_tables import ParseCodes

    return sorted(pc.name for pc in ParseCodes) + ["zz_no_such_data_unit"]


# ------------------------------------------------------------------------------------ G direction
ENUM_CONSTANTS = {
    "quick": {"Mode": "enum", "MaxOps": 2, "MaxLen": 4, "PatSyms": ["a", "aa"], "EnumAlphabet": ["a", "aa", "z"], "WithEps": True},
    "thorough": {"Mode": "enum", "MaxOps": 3, "MaxLen": 4, "PatSyms": ["a", "aa"], "EnumAlphabet": ["a", "aa", "z"], "WithEps": False},
}


def cfg_text(c):
    def s(v):
        if isinstance(v, bool):
            return "TRUE" if v else "FALSE"
        if isinstance(v, list):
            return "{" + ", ".join('"%s"' % x for x in v) + "}"
        if isinstance(v, str):
            return '"%s"' % v
        return str(v)

    lines = ["SPECIFICATION Spec", "CONSTANTS"]
    for k in ("Mode", "MaxOps", "MaxLen", "PatSyms", "EnumAlphabet", "WithEps"):
        lines.append("  %s = %s" % (k, s(c[k])))
    lines += ["INVARIANT ThompsonCorrect", "INVARIANT DesignConsistent", "INVARIANT DeviationOverAccepts", "INVARIANT WellFormed", "CHECK_DEADLOCK FALSE", ""]
    return "\n".join(lines)


def run_jobs(ctx, jobs, label, stats):
    out = common.pmap(exec_pattern, jobs)
    for job, r in zip(jobs, out):
        stats["nodes"] += r["nodes"]
        stats["steps"] += r["steps"]
        stats["dis"] += r["dis"]
        stats["matchers"] += len(job[1])
        for sig, what, case in r["violations"]:
            case["part"] = label
            ctx.violation(sig, what, case)
            stats["violating_cases"] += 1


def enum_part(ctx, stats):
    consts = [ENUM_CONSTANTS["quick"]] + ([] if ctx.quick else [ENUM_CONSTANTS["thorough"]])
    seen = set()
    samples = []
    for c in consts:
        res = run_tlc("SymbolRegex", cfg_text(c), dump=True)
        ctx.add_tlc(res, "exhaustive (enumerated patterns)", c)
        pats = load_states(res.dump_path)
        jobs = []
        for key in sorted(pats):
            p = pats[key]
            if key in seen:
                continue
            seen.add(key)
            if p["txt"] is None:
                raise RuntimeError("pattern without initial state in the dump: %s" % key)
            table = p["table"]
            stats["states"] += len(table)
            stats["dev_differs"] += sum(1 for o in table.values() if o["devNext"] != o["next"] or o["devComplete"] != o["complete"])
            stats["nontrivial"] += sum(1 for w_ in table if len(w_) >= 2)
            only = None if c is ENUM_CONSTANTS["quick"] else ("min-compact", "full-lines")  # the <=3-operator box: two spellings
            jobs.append((key, texts_of(p["txt"], only), [(list(w_), o) for w_, o in sorted(table.items())], c["EnumAlphabet"], c["MaxLen"]))
        if not jobs:
            raise RuntimeError("TLC enumerated no pattern")
        stats["patterns"] += len(jobs)
        samples += [{"pattern": jobs[i][1][0][1], "prefix": jobs[i][2][-1][0], "spec": jobs[i][2][-1][1]} for i in (len(jobs) // 3, len(jobs) - 1)]
        run_jobs(ctx, jobs, "enum", stats)
        stats.setdefault("selftest_jobs", jobs[:: max(1, len(jobs) // 150)])
    return samples


def real_part(ctx, stats):
    pats = real_patterns()
    alphabet = real_alphabet()
    maxlen = ctx.pick(3, 5)
    wd = tlc.mkscratch("c18real")
    path = os.path.join(wd, "patterns.ndjson")
    asts = {}
    with open(path, "w") as f:
        for text, where in pats:
            a = parse_pattern(text)
            asts[repr(_tup(a))] = (text, where)
            f.write(json.dumps({"ast": a, "alphabet": alphabet, "text": text}) + "\n")
    c = dict(ENUM_CONSTANTS["quick"], Mode="file", MaxLen=maxlen)
    res = run_tlc("SymbolRegex", cfg_text(c), dump=True, env={"C18_PATTERNS": path})
    ctx.add_tlc(res, "exhaustive (real patterns, file mode)", {"MaxLen": maxlen, "alphabet": alphabet, "patterns": [t for t, _ in pats]})
    states = load_states(res.dump_path)
    jobs = []
    out_of_scope = []
    for key, (text, where) in sorted(asts.items(), key=lambda kv: kv[1]):
        if key not in states:
            out_of_scope.append({"pattern": text, "where": where, "why": "a $ is followed by something mandatory (outside the property's domain)"})
            continue
        table = states[key]["table"]
        stats["states"] += len(table)
        stats["nontrivial"] += sum(1 for w_ in table if len(w_) >= 2)
        stats["dev_differs"] += sum(1 for o in table.values() if o["devNext"] != o["next"] or o["devComplete"] != o["complete"])
        # split the big tables by first symbol so that the work spreads over the cores
        firsts = sorted(set(w_[0] for w_ in table if w_))
        groups = [[()] + [w_ for w_ in table if w_ and w_[0] == x] for x in firsts] or [[()]]
        for g in groups:
            jobs.append((key, [("source", text)], [(list(w_), table[w_]) for w_ in sorted(g)], alphabet, maxlen))
    stats["patterns"] += len(asts) - len(out_of_scope)
    stats["real_patterns"] = [{"pattern": t, "where": wh} for t, wh in pats]
    run_jobs(ctx, jobs, "real", stats)
    return out_of_scope


def _tup(a):
    return tuple(_tup(x) if isinstance(x, list) else x for x in a)


def selftest_binding(jobs):
    """A broken matcher installed in-process must be flagged by the same walk (restored afterwards)."""
    from vc2_conformance import symbol_re

    results = {}
    orig_complete = symbol_re.Matcher.is_complete
    orig_match = symbol_re.Matcher.match_symbol

    def complete_ignoring_end_marker(self):
        return any(self.nfa.final in list(n.equivalent_nodes()) for n in self.cur_states)

    def match_without_wildcard(self, symbol):
        new_states = set()
        for nfa in self.cur_states:
            new_states.update(nfa.follow(symbol))
        if not new_states:
            return False
        self.cur_states = new_states
        return True

    for name, attr, fn in (("is_complete ignores '$'", "is_complete", complete_ignoring_end_marker), ("match_symbol ignores '.'", "match_symbol", match_without_wildcard)):
        setattr(symbol_re.Matcher, attr, fn)
        try:
            hits = 0
            for j in jobs:
                r = exec_pattern(j)
                hits += sum(1 for sig, _, _ in r["violations"] if sig != SIG_D3)
            results[name] = hits
        finally:
            symbol_re.Matcher.is_complete = orig_complete
            symbol_re.Matcher.match_symbol = orig_match
        if hits == 0:
            raise RuntimeError("binding self-test failed: mutant %r was not flagged" % name)
    return results


def run(ctx):
    stats = {"patterns": 0, "states": 0, "nodes": 0, "steps": 0, "matchers": 0, "violating_cases": 0, "dev_differs": 0, "nontrivial": 0, "dis": 0}
    samples = enum_part(ctx, stats)
    out_of_scope = real_part(ctx, stats)
    st_jobs = stats.pop("selftest_jobs")
    selftest = selftest_binding(st_jobs)
    from . import c18_trace

    tstats = c18_trace.trace_direction(ctx)
    if stats["dev_differs"] == 0:
        raise RuntimeError("vacuous attribution model: DeviationBidirEpsilon never differs from the design")
    ctx.coverage.update(
        {
            "traces_validated_against_impl": stats["matchers"] + tstats["traces"],
            "evaluations": stats["nodes"] + tstats["events"],
            "distinct_nontrivial": stats["nontrivial"],
            "rule": "G: one evaluation = one (pattern spelling, accepted prefix) state of SymbolRegex.tla compared on the real Matcher (match_symbol for every symbol of the alphabet, is_complete, valid_next_symbols); distinct = (pattern AST, prefix) states of the TLC dump, non-trivial = prefix of >= 2 symbols.  T: one evaluation = one recorded Matcher call judged by SymbolRegexTrace.tla",
            "exhaustive": True,
            "patterns": stats["patterns"],
            "spec_states_bound": stats["states"],
            "matcher_objects_walked": stats["matchers"],
            "match_symbol_calls": stats["steps"],
            "states_where_deviation_model_differs_from_design": stats["dev_differs"],
            "real_patterns": stats["real_patterns"],
            "out_of_scope": out_of_scope,
            "spec_disagreements": stats["dis"],
            "spec_disagreements_rule": "states where valid_next_symbols() is not literally the set the Thompson automaton of the spec lists (same meaning, different members); logged only",
            "violating_cases": stats["violating_cases"],
            "binding_selftest": {"in-process mutants flagged (cases)": selftest, "trace": tstats["selftest"]},
            "trace_direction": tstats,
            "samples": samples + tstats["samples"],
        }
    )
    ctx.assumptions += [
        "patterns are spelled from the spec's token list with blanks / no blanks / newlines between tokens; symbols are the strings a, b (patterns) and a, b, z (sequences), or the data-unit names",
        "'$' only where nothing mandatory follows (EndOK in SymbolRegexOps.tla), as the property states",
        "match_symbol is never called with '.' or '' (the wildcard and end-of-sequence sentinels are not data-unit names)",
    ]


def replay(case):
    if "trace" in case:
        from . import c18_trace

        return c18_trace.replay(case)
    from vc2_conformance.symbol_re import Matcher

    alphabet = case["alphabet"]
    exp = case["expect"]
    obs = observe_fresh(case["text"], tuple(case["w"]), alphabet)
    r = classify(exp, obs, alphabet)
    viol = [] if r is None else [{"signature": r[0], "what": r[1]}]
    if r is None:
        # the live-object part of the walk: rejected symbols must not move the matcher
        m = Matcher(case["text"])
        for x in case["w"]:
            m.match_symbol(x)
        c1, v1 = bool(m.is_complete()), _vns(m)
        refused = [x for x in alphabet if x not in exp["next"]]
        moved = [x for x in refused if m.match_symbol(x)]
        if moved or bool(m.is_complete()) != c1 or _vns(m) != v1:
            viol.append({"signature": "C18|match_symbol|rejected-symbol-moved-the-matcher", "what": "answers changed after rejected symbols %s" % refused})
    return {"violations": viol, "observed": obs, "expected": exp}
