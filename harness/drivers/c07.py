"""C07 -- automatic field filling preserves explicit values and computes derived ones.

Spec: spec/Autofill.tla (machine that writes a stream description unit by unit, with the fold state the
code carries) + spec/AutofillOps.tla (declarative definition of every filled field) + spec/AutofillTrace.tla.

G (spec -> code): every abstract transition of Autofill.tla comes with a shortest description reaching it and
the spec's expected picture numbers / versions / offset kinds; the description is built as real fixeddicts,
passed to autofill_and_serialise_stream, the produced bytes are read back by an *independent* reader in this
file (prefix scan, big-endian words, exp-Golomb) and compared.
T (code -> spec): the same recorded runs, plus seeded random descriptions far outside the exhaustive box
(up to 3 sequences x 10 units, every header field randomly explicit/omitted, random 32-bit numbers), are
judged line by line by TLC against AutofillTrace.tla.  The alarm is raised by TLC's verdicts only.
"""
import glob
import io
import zlib
import os
import random
from concurrent.futures import ThreadPoolExecutor

from .. import common, tlc, tlaval, trace

# ------------------------------------------------------------------------------------------------
# concretisation: abstract field name -> path in the fixeddict hierarchy
# ------------------------------------------------------------------------------------------------
_SP = ("sequence_header", "video_parameters")
_CS = _SP + ("color_spec",)
PATHS = {
    "pc": (("parse_info",), "parse_code"),
    "npo": (("parse_info",), "next_parse_offset"),
    "ppo": (("parse_info",), "previous_parse_offset"),
    "ver": (("sequence_header", "parse_parameters"), "major_version"),
    "minor": (("sequence_header", "parse_parameters"), "minor_version"),
    "profile": (("sequence_header", "parse_parameters"), "profile"),
    "level": (("sequence_header", "parse_parameters"), "level"),
    "bvf": (("sequence_header",), "base_video_format"),
    "pcm": (("sequence_header",), "picture_coding_mode"),
    "fs_flag": (_SP + ("frame_size",), "custom_dimensions_flag"),
    "fs_w": (_SP + ("frame_size",), "frame_width"),
    "fs_h": (_SP + ("frame_size",), "frame_height"),
    "cd_flag": (_SP + ("color_diff_sampling_format",), "custom_color_diff_format_flag"),
    "cd_idx": (_SP + ("color_diff_sampling_format",), "color_diff_format_index"),
    "sf_flag": (_SP + ("scan_format",), "custom_scan_format_flag"),
    "sf_val": (_SP + ("scan_format",), "source_sampling"),
    "fr_flag": (_SP + ("frame_rate",), "custom_frame_rate_flag"),
    "fr_idx": (_SP + ("frame_rate",), "index"),
    "fr_n": (_SP + ("frame_rate",), "frame_rate_numer"),
    "fr_d": (_SP + ("frame_rate",), "frame_rate_denom"),
    "par_flag": (_SP + ("pixel_aspect_ratio",), "custom_pixel_aspect_ratio_flag"),
    "par_idx": (_SP + ("pixel_aspect_ratio",), "index"),
    "par_n": (_SP + ("pixel_aspect_ratio",), "pixel_aspect_ratio_numer"),
    "par_d": (_SP + ("pixel_aspect_ratio",), "pixel_aspect_ratio_denom"),
    "ca_flag": (_SP + ("clean_area",), "custom_clean_area_flag"),
    "ca_w": (_SP + ("clean_area",), "clean_width"),
    "ca_h": (_SP + ("clean_area",), "clean_height"),
    "ca_l": (_SP + ("clean_area",), "left_offset"),
    "ca_t": (_SP + ("clean_area",), "top_offset"),
    "sr_flag": (_SP + ("signal_range",), "custom_signal_range_flag"),
    "sr_idx": (_SP + ("signal_range",), "index"),
    "sr_lo": (_SP + ("signal_range",), "luma_offset"),
    "sr_le": (_SP + ("signal_range",), "luma_excursion"),
    "sr_co": (_SP + ("signal_range",), "color_diff_offset"),
    "sr_ce": (_SP + ("signal_range",), "color_diff_excursion"),
    "cs_flag": (_CS, "custom_color_spec_flag"),
    "cs_idx": (_CS, "index"),
    "prim_flag": (_CS + ("color_primaries",), "custom_color_primaries_flag"),
    "prim_idx": (_CS + ("color_primaries",), "index"),
    "mat_flag": (_CS + ("color_matrix",), "custom_color_matrix_flag"),
    "mat_idx": (_CS + ("color_matrix",), "index"),
    "tf_flag": (_CS + ("transfer_function",), "custom_transfer_function_flag"),
    "tf_idx": (_CS + ("transfer_function",), "index"),
}
TP_FIELDS = {
    "wi": ((), "wavelet_index"),
    "depth": ((), "dwt_depth"),
    "ai_flag": (("extended_transform_parameters",), "asym_transform_index_flag"),
    "wi_ho": (("extended_transform_parameters",), "wavelet_index_ho"),
    "at_flag": (("extended_transform_parameters",), "asym_transform_flag"),
    "depth_ho": (("extended_transform_parameters",), "dwt_depth_ho"),
    "sx": (("slice_parameters",), "slices_x"),
    "sy": (("slice_parameters",), "slices_y"),
    "sb_n": (("slice_parameters",), "slice_bytes_numerator"),
    "sb_d": (("slice_parameters",), "slice_bytes_denominator"),
    "spb": (("slice_parameters",), "slice_prefix_bytes"),
    "sss": (("slice_parameters",), "slice_size_scaler"),
    "cqm": (("quant_matrix",), "custom_quant_matrix"),
}
FRAG_HDR = {"fdl": "fragment_data_length", "fsc": "fragment_slice_count", "fxo": "fragment_x_offset", "fyo": "fragment_y_offset"}
W32_FIELDS = ("npo", "ppo", "pn")

_TYPES = None


def _types():
    global _TYPES
    if _TYPES is None:
        from vc2_conformance.bitstream import vc2_fixeddicts as fd

        _TYPES = {
            "parse_info": fd.ParseInfo,
            "sequence_header": fd.SequenceHeader,
            "parse_parameters": fd.ParseParameters,
            "video_parameters": fd.SourceParameters,
            "frame_size": fd.FrameSize,
            "color_diff_sampling_format": fd.ColorDiffSamplingFormat,
            "scan_format": fd.ScanFormat,
            "frame_rate": fd.FrameRate,
            "pixel_aspect_ratio": fd.PixelAspectRatio,
            "clean_area": fd.CleanArea,
            "signal_range": fd.SignalRange,
            "color_spec": fd.ColorSpec,
            "color_primaries": fd.ColorPrimaries,
            "color_matrix": fd.ColorMatrix,
            "transfer_function": fd.TransferFunction,
            "picture_parse": fd.PictureParse,
            "picture_header": fd.PictureHeader,
            "wavelet_transform": fd.WaveletTransform,
            "transform_parameters": fd.TransformParameters,
            "extended_transform_parameters": fd.ExtendedTransformParameters,
            "slice_parameters": fd.SliceParameters,
            "quant_matrix": fd.QuantMatrix,
            "fragment_parse": fd.FragmentParse,
            "fragment_header": fd.FragmentHeader,
            "padding": fd.Padding,
            "auxiliary_data": fd.AuxiliaryData,
        }
    return _TYPES


def w32(n):
    return {"hi": n >> 16, "lo": n & 0xFFFF}


def unw32(w):
    return w["hi"] * 65536 + w["lo"]


def _eff_pc(f):
    e = f.get("pc")
    return e["i"] if e and e["m"] == "exp" else 16


def _eff_fsc(f):
    e = f.get("fsc")
    return e["i"] if e and e["m"] == "exp" else 0


def _path_of(name, pc, fsc):
    if name in PATHS:
        return PATHS[name]
    if name == "pn":
        if pc in (200, 232):
            return (("picture_parse", "picture_header"), "picture_number")
        return (("fragment_parse", "fragment_header"), "picture_number")
    if name in FRAG_HDR:
        return (("fragment_parse", "fragment_header"), FRAG_HDR[name])
    if name in TP_FIELDS:
        sub, leaf = TP_FIELDS[name]
        base = ("picture_parse", "wavelet_transform", "transform_parameters") if pc in (200, 232) else ("fragment_parse", "transform_parameters")
        return (base + sub, leaf)
    if name == "bytes":
        return (("padding",) if pc == 48 else ("auxiliary_data",), "bytes")
    raise KeyError(name)


def build_stream(seqs):
    """abstract description (list of sequences of units {f: {name: {m, i}}}) -> real Stream fixeddict"""
    from vc2_conformance.bitstream import vc2_fixeddicts as fd
    from vc2_conformance.bitstream.vc2_autofill import AUTO

    T = _types()
    out = fd.Stream(sequences=[])
    for s in seqs:
        dus = []
        for u in s:
            f = u["f"]
            pc = _eff_pc(f)
            fsc = _eff_fsc(f)
            du = fd.DataUnit()
            for name, e in f.items():
                if name == "z":
                    continue
                path, leaf = _path_of(name, pc, fsc)
                d = du
                for key in path:
                    if key not in d:
                        d[key] = T[key]()
                    d = d[key]
                if e["m"] == "auto":
                    d[leaf] = AUTO
                else:
                    v = e["i"]
                    if name in W32_FIELDS:
                        v = unw32(v)
                    elif name == "bytes":
                        v = bytes.fromhex(v)
                    d[leaf] = v
            dus.append(du)
        out["sequences"].append(fd.Sequence(data_units=dus))
    return out


# ------------------------------------------------------------------------------------------------
# independent reader of the produced bytes (no vc2_conformance code)
# ------------------------------------------------------------------------------------------------
class Bits(object):
    def __init__(self, data):
        self.d = data
        self.p = 0

    def bit(self):
        byte = self.d[self.p >> 3]  # IndexError past the end: caller treats as unreadable
        b = (byte >> (7 - (self.p & 7))) & 1
        self.p += 1
        return b

    def flag(self):
        return bool(self.bit())

    def uint(self):
        v = 1
        while not self.bit():
            v = (v << 1) | self.bit()
        return v - 1


def be(b):
    return int.from_bytes(b, "big")


def read_sh(body, o):
    r = Bits(body)
    o["ver"] = r.uint()
    o["minor"] = r.uint()
    o["profile"] = r.uint()
    o["level"] = r.uint()
    o["bvf"] = r.uint()
    o["fs_flag"] = r.flag()
    if o["fs_flag"]:
        o["fs_w"] = r.uint()
        o["fs_h"] = r.uint()
    o["cd_flag"] = r.flag()
    if o["cd_flag"]:
        o["cd_idx"] = r.uint()
    o["sf_flag"] = r.flag()
    if o["sf_flag"]:
        o["sf_val"] = r.uint()
    o["fr_flag"] = r.flag()
    if o["fr_flag"]:
        o["fr_idx"] = r.uint()
        if o["fr_idx"] == 0:
            o["fr_n"] = r.uint()
            o["fr_d"] = r.uint()
    o["par_flag"] = r.flag()
    if o["par_flag"]:
        o["par_idx"] = r.uint()
        if o["par_idx"] == 0:
            o["par_n"] = r.uint()
            o["par_d"] = r.uint()
    o["ca_flag"] = r.flag()
    if o["ca_flag"]:
        for n in ("ca_w", "ca_h", "ca_l", "ca_t"):
            o[n] = r.uint()
    o["sr_flag"] = r.flag()
    if o["sr_flag"]:
        o["sr_idx"] = r.uint()
        if o["sr_idx"] == 0:
            for n in ("sr_lo", "sr_le", "sr_co", "sr_ce"):
                o[n] = r.uint()
    o["cs_flag"] = r.flag()
    if o["cs_flag"]:
        o["cs_idx"] = r.uint()
        if o["cs_idx"] == 0:
            for n in ("prim", "mat", "tf"):
                o[n + "_flag"] = r.flag()
                if o[n + "_flag"]:
                    o[n + "_idx"] = r.uint()
    o["pcm"] = r.uint()


def read_tp(body, o, ver, hq):
    r = Bits(body)
    o["wi"] = r.uint()
    o["depth"] = r.uint()
    if ver >= 3:
        o["ai_flag"] = r.flag()
        if o["ai_flag"]:
            o["wi_ho"] = r.uint()
        o["at_flag"] = r.flag()
        if o["at_flag"]:
            o["depth_ho"] = r.uint()
    o["sx"] = r.uint()
    o["sy"] = r.uint()
    if hq:
        o["spb"] = r.uint()
        o["sss"] = r.uint()
    else:
        o["sb_n"] = r.uint()
        o["sb_d"] = r.uint()
    o["cqm"] = r.flag()


def read_output(data, blens):
    """-> list of units {off, o} found in the bytes (prefix scan); blens: payload lengths of the description"""
    offs = []
    p = data.find(b"BBCD")
    while p >= 0:
        offs.append(p)
        p = data.find(b"BBCD", p + 4)
    units = []
    ver = None
    for k, off in enumerate(offs):
        end = offs[k + 1] if k + 1 < len(offs) else len(data)
        o = {}
        pc = data[off + 4]
        o["pc"] = pc
        o["npo"] = w32(be(data[off + 5 : off + 9]))
        o["ppo"] = w32(be(data[off + 9 : off + 13]))
        body = data[off + 13 : end]
        try:
            if pc == 0:
                read_sh(body, o)
                ver = o["ver"]
            elif pc in (200, 232):
                o["pn"] = w32(be(body[0:4]))
                if ver is not None:
                    read_tp(body[4:], o, ver, pc == 232)
            elif pc in (204, 236):
                o["pn"] = w32(be(body[0:4]))
                o["fdl"] = be(body[4:6])
                o["fsc"] = be(body[6:8])
                if o["fsc"] != 0:
                    o["fxo"] = be(body[8:10])
                    o["fyo"] = be(body[10:12])
                elif ver is not None:
                    read_tp(body[8:], o, ver, pc == 236)
            elif pc in (32, 48):
                bl = blens[k] if k < len(blens) else 0
                o["bytes"] = body[:bl].hex()
            elif pc == 16:
                ver = None
        except IndexError:
            o["truncated"] = True
        units.append({"off": off, "o": o, "paylen": len(body)})
    return units


# ------------------------------------------------------------------------------------------------
# one execution: description -> real code -> recorded event
# ------------------------------------------------------------------------------------------------
def execute(seqs):
    """Returns the trace event (without tid) for one abstract description."""
    from vc2_conformance.bitstream.vc2_autofill import autofill_and_serialise_stream

    # where in the file the stream is written is not part of a description: a third of the descriptions (chosen
    # by a hash of the description, so that a replay makes the same choice) are serialised into a file object
    # that already holds 5 bytes and is positioned after them; offsets `off` are relative to the stream's start
    base = (0, 0, 5)[zlib.crc32(repr(seqs).encode()) % 3]
    ev = {"ev": "stream", "ser": True, "aligned": True, "exc": "", "base": base, "prefix_ok": True}
    out_seqs = [[{"f": dict(u["f"], z={"m": "auto"}), "blen": u.get("blen", 0), "o": {}, "off": 0} for u in s] for s in seqs]
    ev["seqs"] = out_seqs
    try:
        stream = build_stream(seqs)
        f = io.BytesIO()
        f.write(b"\xa5" * base)
        autofill_and_serialise_stream(f, stream)
        data = f.getvalue()
        ev["prefix_ok"] = data[:base] == b"\xa5" * base
        data = data[base:]
    except Exception as e:  # noqa: premise of C07 not met (or the code is broken: compared with the spec's prediction)
        ev["ser"] = False
        ev["exc"] = common.exc_signature(e)
        return ev
    flat = [u for s in out_seqs for u in s]
    got = read_output(data, [u["blen"] for u in flat])
    if len(got) != len(flat) or any("truncated" in g["o"] for g in got):
        ev["aligned"] = False
        ev["found"] = len(got)
        return ev
    for u, g in zip(flat, got):
        u["o"] = g["o"]
        u["off"] = g["off"]
        u["paylen"] = g["paylen"]
    ev["nbytes"] = len(data)
    return ev


def exec_case(arg):
    tid, seqs = arg
    ev = execute(seqs)
    ev["tid"] = tid
    return ev


# ------------------------------------------------------------------------------------------------
# G: descriptions + expectations from the TLC dump
# ------------------------------------------------------------------------------------------------
def closed_description(st):
    done = [list(s) for s in st["done"]]
    if st["cur"]:
        done.append(list(st["cur"]) + [{"f": {}, "blen": 0}])
    return done


def _norm_unit(u):
    f = u["f"] if isinstance(u["f"], dict) else {}
    return {"f": f, "blen": u["blen"]}


def load_cases(path, only_final=False):
    cases = []
    for st in tlaval.iter_dump(path):
        st = tlaval.to_jsonable(st)
        if st["inp"]["blen"] == -1 and not only_final:
            continue  # settled twin of a transition state (or the initial state)
        seqs = [[_norm_unit(u) for u in s] for s in closed_description(st)]
        if not seqs:
            continue
        exp = [list(s) for s in st["exp"]]
        cases.append({"seqs": seqs, "exp": exp})
    return cases


def compare_expectation(case, ev):
    """equality comparison of the spec's expectation with the output fields -> list of (clause, where)"""
    diffs = []
    if not ev["ser"] or not ev["aligned"]:
        return [("serialisable", ev.get("exc", "unaligned"))]
    for k, (s, xs) in enumerate(zip(ev["seqs"], case["exp"])):
        for i, (u, x) in enumerate(zip(s, xs)):
            o = u["o"]
            if x["haspn"] and o.get("pn") != x["pn"]:
                diffs.append(("pn", (k, i)))
            if o.get("pc") == 0 and o.get("ver") != x["ver"]:
                diffs.append(("ver", (k, i)))
            for n, tag in (("npo", x["npo"]), ("ppo", x["ppo"])):
                if tag == "zero" and unw32(o[n]) != 0:
                    diffs.append((n, (k, i)))
                if tag == "dist":
                    d = (s[i + 1]["off"] - u["off"]) if n == "npo" else (u["off"] - s[i - 1]["off"])
                    if unw32(o[n]) != d:
                        diffs.append((n, (k, i)))
                if tag == "exp" and o[n] != u["f"][n]["i"]:
                    diffs.append((n, (k, i)))
            if x["etp"] and "ai_flag" in o:
                diffs.append(("etp", (k, i)))
    return diffs


# ------------------------------------------------------------------------------------------------
# T: random descriptions outside the exhaustive box
# ------------------------------------------------------------------------------------------------
def _rand32(rnd):
    while True:
        v = rnd.choice([0, 1, 5, 0xFFFF, 0x10000, 0xFFFFFFFE, 0xFFFFFFFF, rnd.getrandbits(32), rnd.getrandbits(32), rnd.getrandbits(8)])
        if b"BB" not in v.to_bytes(4, "big") and b"\x42" not in v.to_bytes(4, "big"):
            return v


def E(v):
    return {"m": "exp", "i": v}


def _offs(rnd, f, pad_blen=None):
    r = rnd.random()
    if r < 0.2:
        f["npo"] = {"m": "auto"}
    elif r < 0.4:
        if pad_blen is None:
            f["npo"] = E(w32(_rand32(rnd)))
        else:
            f["npo"] = E(w32(13 + pad_blen + rnd.choice([0, 0, 1, 9]) - (rnd.random() < 0.05)))
    r = rnd.random()
    if r < 0.2:
        f["ppo"] = {"m": "auto"}
    elif r < 0.4:
        f["ppo"] = E(w32(_rand32(rnd)))


def _maybe(rnd, f, name, vals, p=0.5):
    if rnd.random() < p:
        f[name] = E(rnd.choice(vals))
        return f[name]["i"]
    return None


def rand_sh(rnd):
    f = {"pc": E(0), "fs_flag": E(True), "fs_w": E(rnd.choice([1, 2, 3])), "fs_h": E(rnd.choice([1, 2]))}
    r = rnd.random()
    if r < 0.3:
        f["ver"] = {"m": "auto"}
    elif r < 0.55:
        f["ver"] = E(rnd.choice([1, 2, 3, 3, 4]))
    _maybe(rnd, f, "minor", [0, 1, 7], 0.3)
    _maybe(rnd, f, "profile", [0, 3], 0.6)
    _maybe(rnd, f, "level", [0, 1, 64], 0.3)
    _maybe(rnd, f, "bvf", [0, 1, 2, 3], 0.2)
    _maybe(rnd, f, "pcm", [0, 1], 0.3)
    if _maybe(rnd, f, "cd_flag", [True, False], 0.3):
        _maybe(rnd, f, "cd_idx", [0, 1, 2], 0.7)
    if _maybe(rnd, f, "sf_flag", [True, False], 0.3):
        _maybe(rnd, f, "sf_val", [0, 1], 0.7)
    if _maybe(rnd, f, "fr_flag", [True, False], 0.5):
        idx = _maybe(rnd, f, "fr_idx", [0, 1, 3, 10, 11, 12, 13, 16], 0.8)
        if idx == 0:
            _maybe(rnd, f, "fr_n", [1, 24, 30000], 0.7)
            _maybe(rnd, f, "fr_d", [1, 1001], 0.7)
    if _maybe(rnd, f, "par_flag", [True, False], 0.3):
        idx = _maybe(rnd, f, "par_idx", [0, 1, 2, 6], 0.7)
        if idx == 0:
            _maybe(rnd, f, "par_n", [1, 16], 0.7)
            _maybe(rnd, f, "par_d", [1, 9], 0.7)
    if _maybe(rnd, f, "ca_flag", [True, False], 0.2):
        for n in ("ca_w", "ca_h", "ca_l", "ca_t"):
            _maybe(rnd, f, n, [0, 1, 2], 0.6)
    if _maybe(rnd, f, "sr_flag", [True, False], 0.5):
        idx = _maybe(rnd, f, "sr_idx", [0, 1, 2, 3, 4, 5, 6, 8], 0.8)
        if idx == 0:
            for n in ("sr_lo", "sr_le", "sr_co", "sr_ce"):
                _maybe(rnd, f, n, [0, 16, 255, 1023], 0.6)
    if _maybe(rnd, f, "cs_flag", [True, False], 0.5):
        idx = _maybe(rnd, f, "cs_idx", [0, 0, 0, 1, 3, 4, 5, 7], 0.85)
        if idx == 0:
            for n, hi in (("prim", 4), ("mat", 4), ("tf", 5)):
                if _maybe(rnd, f, n + "_flag", [True, True, False], 0.6):
                    _maybe(rnd, f, n + "_idx", list(range(hi + 1)), 0.8)
    _offs(rnd, f)
    return {"f": f, "blen": 0}


def rand_tp(rnd, f, hq, etp_ok):
    wi = _maybe(rnd, f, "wi", [0, 1, 3, 4, 6], 0.4)
    _maybe(rnd, f, "depth", [0, 1], 0.3)
    if etp_ok and rnd.random() < 0.5:
        if _maybe(rnd, f, "ai_flag", [True, True, False], 0.8):
            _maybe(rnd, f, "wi_ho", [4, 1, wi if wi is not None else 4], 0.8)
        if _maybe(rnd, f, "at_flag", [True, False], 0.6):
            _maybe(rnd, f, "depth_ho", [0, 0, 1], 0.8)
    if rnd.random() < 0.2:
        f["sx"] = E(rnd.choice([1, 2]))
    if hq:
        _maybe(rnd, f, "spb", [0, 1], 0.2)
        _maybe(rnd, f, "sss", [1, 2], 0.2)
    else:
        _maybe(rnd, f, "sb_n", [1, 3], 0.2)
    _maybe(rnd, f, "cqm", [False], 0.2)


def rand_pn(rnd, f):
    r = rnd.random()
    if r < 0.25:
        f["pn"] = {"m": "auto"}
    elif r < 0.5:
        f["pn"] = E(w32(_rand32(rnd)))


def rand_stream(seed):
    rnd = random.Random(seed)
    wild = rnd.random() < 0.12  # ignore the serialisability preconditions now and then
    seqs = []
    for _ in range(rnd.choice([1, 1, 2, 2, 3])):
        s = []
        have_sh = False
        tp = {True: False, False: False}
        gov_etp_ok = False
        for _ in range(rnd.randrange(0, 11)):
            kinds = ["sh", "pad", "aux"]
            if have_sh or wild:
                kinds += ["pic", "pic", "frag0"]
            if tp[True] or tp[False] or wild:
                kinds += ["fragn", "fragn"]
            k = rnd.choice(kinds)
            if k == "sh":
                u = rand_sh(rnd)
                have_sh = True
                v = u["f"].get("ver")
                # ETP may only be supplied where it will be serialised or dropped: AUTO/omitted version, or explicit >= 3
                gov_etp_ok = (v is None or v["m"] == "auto" or v["i"] >= 3)
            elif k in ("pic", "frag0"):
                hq = rnd.random() < 0.5
                f = {"pc": E({("pic", False): 200, ("pic", True): 232, ("frag0", False): 204, ("frag0", True): 236}[(k, hq)])}
                if k == "frag0" and rnd.random() < 0.5:
                    f["fsc"] = E(0)
                if k == "frag0":
                    _maybe(rnd, f, "fdl", [0, 7], 0.2)
                rand_pn(rnd, f)
                rand_tp(rnd, f, hq, gov_etp_ok or wild)
                _offs(rnd, f)
                tp[hq] = True
                u = {"f": f, "blen": 0}
            elif k == "fragn":
                cands = [h for h in (True, False) if tp[h]] or [True, False]
                hq = rnd.choice(cands)
                f = {"pc": E(236 if hq else 204), "fsc": E(1)}
                _maybe(rnd, f, "fxo", [0], 0.3)
                _maybe(rnd, f, "fyo", [0], 0.3)
                rand_pn(rnd, f)
                _offs(rnd, f)
                u = {"f": f, "blen": 0}
            else:
                f = {"pc": E(48 if k == "pad" else 32)}
                blen = 0
                if rnd.random() < 0.7:
                    blen = rnd.choice([0, 1, 3, 14, rnd.randrange(0, 40)])
                    f["bytes"] = E(bytes(rnd.choice(b"\x00\x01az\xff") for _ in range(blen)).hex())
                _offs(rnd, f, blen)
                u = {"f": f, "blen": blen}
            s.append(u)
        if not (wild and rnd.random() < 0.3):
            f = {}
            if rnd.random() < 0.6:
                f["pc"] = E(16)
            _offs(rnd, f)
            s.append({"f": f, "blen": 0})
        if s:
            seqs.append(s)
    return seqs


def rand_case(arg):
    tid, seed = arg
    ev = execute(rand_stream(seed))
    ev["tid"] = tid
    return ev




def sim_states(path):
    """states of a `tlc -simulate` trace file (TLC interleaves `\\* <Action ...>` comment lines, which the shared
    value parser does not skip: they are removed here before parsing)"""
    with open(path) as f:
        text = "".join(l for l in f if not l.lstrip().startswith(("\\*", "====", "----")))
    clean = path + ".clean"
    with open(clean, "w") as f:
        f.write(text)
    return list(tlaval.iter_dump(clean))


class _CachedRes(object):
    """stand-in for a TLCResult restored from VERIF_CASE_CACHE (mutation runs re-use the repo-independent TLC output)"""

    def __init__(self, d):
        self.d = d
        self.distinct = d["distinct_states"]
        self.generated = d["states_generated"]

    def summary(self):
        return dict(self.d, cached=True)


def cached_tlc(ctx, name, label, consts, producer):
    """producer() -> (TLCResult, cases).  With VERIF_CASE_CACHE=<dir> the (repo-independent) result is stored / re-used."""
    import json

    d = os.environ.get("VERIF_CASE_CACHE")
    path = os.path.join(d, "%s_%s_%d.json" % (name, ctx.tier, ctx.seed)) if d else None
    if path and os.path.exists(path):
        with open(path) as f:
            blob = json.load(f)
        ctx.add_tlc(_CachedRes(blob["summary"]), label, consts)
        return blob["cases"]
    res, cases = producer()
    ctx.add_tlc(res, label, consts)
    if path:
        with open(path + ".tmp", "w") as f:
            json.dump({"summary": res.summary(), "cases": cases}, f)
        os.replace(path + ".tmp", path)
    return cases


# ------------------------------------------------------------------------------------------------
def _slim(ev):
    """event as sent to TLC (drop harness-only keys)"""
    return {
        "tid": ev["tid"],
        "ev": "stream",
        "ser": ev["ser"],
        "aligned": ev["aligned"],
        "base": ev.get("base", 0),
        "prefix_ok": ev.get("prefix_ok", True),
        "seqs": [[{"f": u["f"], "blen": u["blen"], "o": u["o"], "off": u["off"]} for u in s] for s in ev["seqs"]],
    }


def validate_events(ctx, events, label, chunks=6):
    """TLC judges every event (AutofillTrace); chunks are validated by concurrent TLC processes."""
    if not events:
        return []
    n = max(1, min(chunks, len(events) // 200 or 1))
    parts = [events[i::n] for i in range(n)]

    def one(part):
        return trace.validate("AutofillTrace", [_slim(e) for e in part])

    with ThreadPoolExecutor(n) as ex:
        results = list(ex.map(one, parts))
    bad = []
    for j, (b, res) in enumerate(results):
        ctx.add_tlc(res, "trace validation (AutofillTrace) %s part %d/%d" % (label, j + 1, n))
        bad += b
    return bad


def selftest(ctx, sample_events):
    """binding demonstration: (1) a broken autofill (in-process monkeypatch) and (2) a corrupted recorded
    field must both be flagged by TLC's verdicts."""
    from vc2_conformance.bitstream import vc2_autofill as va
    from vc2_conformance.bitstream import vc2_fixeddicts as fd

    seqs = [
        [
            {"f": {"pc": E(0), "fs_flag": E(True), "fs_w": E(2), "fs_h": E(2)}, "blen": 0},
            {"f": {"pc": E(232)}, "blen": 0},
            {"f": {"pc": E(16)}, "blen": 0},
        ],
        [
            {"f": {"pc": E(0), "fs_flag": E(True), "fs_w": E(2), "fs_h": E(2), "profile": E(0)}, "blen": 0},
            {"f": {"pc": E(200)}, "blen": 0},
            {"f": {"pc": E(200), "pn": E(w32(0xFFFFFFFF))}, "blen": 0},
            {"f": {"pc": E(200)}, "blen": 0},
            {"f": {"pc": E(16)}, "blen": 0},
        ],
    ]
    orig = va.autofill_picture_number

    def broken(stream, initial_picture_number=0):
        # numbering not restarted per sequence
        last = (initial_picture_number - 1) & 0xFFFFFFFF
        for sequence in stream.get("sequences", []):
            for du in sequence.get("data_units", []):
                pc = du.get("parse_info", {}).get("parse_code")
                if pc in (200, 232):
                    h = du.setdefault("picture_parse", fd.PictureParse()).setdefault("picture_header", fd.PictureHeader())
                    if h.get("picture_number", va.AUTO) is va.AUTO:
                        h["picture_number"] = (last + 1) & 0xFFFFFFFF
                    last = h["picture_number"]

    good = execute(seqs)
    good["tid"] = 1
    va.autofill_picture_number = broken
    try:
        ev = execute(seqs)
    finally:
        va.autofill_picture_number = orig
    ev["tid"] = 2
    corrupt = None
    for e in sample_events:
        if e["ser"] and e["aligned"] and len(e["seqs"][0]) >= 2:
            corrupt = _slim(e)
            corrupt["tid"] = 3
            u = dict(corrupt["seqs"][0][0])
            u["o"] = dict(u["o"], npo=w32(unw32(u["o"]["npo"]) + 1))
            corrupt["seqs"] = [[u] + list(corrupt["seqs"][0][1:])] + list(corrupt["seqs"][1:])
            if "npo" in u["f"] and u["f"]["npo"]["m"] == "exp":
                corrupt = None
                continue
            break
    recs = [_slim(good), _slim(ev)] + ([corrupt] if corrupt else [])
    bad, _ = trace.validate("AutofillTrace", recs)
    by = {b["tid"]: b for b in bad}
    if 1 in by and by[1]["alarm"]:
        if ctx.violations:  # the code under test is already convicted; the demonstration needs a working reference
            return {"skipped": "reference run of the self-test is itself flagged (%s); violations were already recorded" % by[1]["clause"]}
        raise RuntimeError("binding self-test: reference run flagged: %r" % (by[1],))
    if not (2 in by and by[2]["alarm"] and by[2]["clause"] == "PictureNumber"):
        raise RuntimeError("binding self-test failed: broken picture numbering not flagged: %r" % (bad,))
    if corrupt is None or not (3 in by and by[3]["alarm"] and by[3]["clause"] == "NextOffset"):
        raise RuntimeError("binding self-test failed: corrupted next_parse_offset accepted: %r" % (bad,))
    return {
        "mutant": "autofill_picture_number without per-sequence restart (in-process monkeypatch)",
        "verdict": by[2],
        "corrupted_field": "recorded next_parse_offset + 1 -> clause NextOffset",
    }


def describe(ev, b):
    where = ""
    if b.get("seq"):
        u = ev["seqs"][b["seq"] - 1][b["unit"] - 1]
        n = b["field"]
        where = " sequence %d unit %d field %s: input %r output %r (unit offset %d)" % (b["seq"], b["unit"], n, u["f"].get(n, "omitted"), u["o"].get(n, "absent"), u["off"])
    return "clause %s violated;%s" % (b["clause"], where)


def run(ctx):
    cfg = open(os.path.join(tlc.SPEC, "mc/Autofill.cfg")).read()
    consts = {"MaxUnits": ctx.pick(2, 3), "MaxSeqs": 2, "Cross": False}
    cfg_run = cfg.replace("MaxUnits = 3", "MaxUnits = %d" % consts["MaxUnits"])
    import time

    phases = {}
    t0 = time.time()

    def produce():
        res = tlc.run("Autofill", cfg_run, dump=True, timeout=ctx.pick(900, 2400))
        return res, load_cases(res.dump_path)

    cases = cached_tlc(ctx, "c07_exhaustive", "exhaustive", consts, produce)
    phases["tlc_exhaustive_and_parse_s"] = round(time.time() - t0, 1)
    if not ctx.quick:
        # measured: a walk costs 5-10 s without the cross alphabet and about a minute with it (every step enumerates
        # all successors), so the walks are few: 150 of up to 5 units x 3 sequences, 8 with the full cross alphabet
        simconsts = {"walks": [{"MaxUnits": 5, "MaxSeqs": 3, "Cross": False, "simulate": 150, "depth": 20}, {"MaxUnits": 6, "MaxSeqs": 3, "Cross": True, "simulate": 8, "depth": 30}]}

        def produce_sim():
            sim, out = None, []
            for w in simconsts["walks"]:
                simcfg = cfg.replace("MaxUnits = 3", "MaxUnits = %d" % w["MaxUnits"]).replace("MaxSeqs = 2", "MaxSeqs = %d" % w["MaxSeqs"]).replace("Cross = FALSE", "Cross = %s" % ("TRUE" if w["Cross"] else "FALSE"))
                sim = tlc.run("Autofill", simcfg, simulate=w["simulate"], depth=w["depth"], seed=ctx.seed, workers=1, timeout=5400)
                out += _sim_cases(sim)
            return sim, out

        def _sim_cases(sim):
            out = []
            for p in sorted(glob.glob(os.path.join(sim.sim_dir, "tr*"))):
                sts = sim_states(p)
                if sts:
                    st = tlaval.to_jsonable(sts[-1])
                    seqs = [[_norm_unit(u) for u in s] for s in closed_description(st)]
                    if seqs:
                        out.append({"seqs": seqs, "exp": [list(s) for s in st["exp"]]})
            return out

        cases = cases + cached_tlc(ctx, "c07_simulate", "random walks (full cross alphabet)", simconsts, produce_sim)
    sub = int(os.environ.get("VERIF_SUBSAMPLE") or 1)  # mutation-sanity runs only: every k-th case (a subset of the full run)
    if sub > 1:
        cases = cases[::sub]
    if len(cases) < 500 // sub:
        raise RuntimeError("vacuous: only %d descriptions from TLC" % len(cases))
    jobs = [(i + 1, c["seqs"]) for i, c in enumerate(cases)]
    t0 = time.time()
    events = common.pmap(exec_case, jobs)
    phases["execute_tlc_descriptions_s"] = round(time.time() - t0, 1)
    # G comparison (equality with the spec's expectation; logged) ...
    g_diff = 0
    unser = 0
    for c, ev in zip(cases, events):
        d = compare_expectation(c, ev)
        if d:
            g_diff += 1
        if not ev["ser"]:
            unser += 1
    if unser > len(cases) // 20:
        raise RuntimeError("vacuous: %d of %d spec-serialisable descriptions were not serialised by the code (e.g. %s)" % (unser, len(cases), [e["exc"] for e in events if not e["ser"]][:3]))
    # ... and T: TLC judges the same runs plus random descriptions
    nrand = ctx.pick(4000, 120000) // sub
    rjobs = [(len(events) + 1 + j, ctx.seed * 7919 + j) for j in range(nrand)]
    t0 = time.time()
    revents = common.pmap(rand_case, rjobs)
    phases["execute_random_descriptions_s"] = round(time.time() - t0, 1)
    all_events = events + revents
    nbased = sum(1 for e in all_events if e["ser"] and e.get("base", 0) > 0 and any(u["f"].get(k, {"m": "auto"})["m"] != "exp" for sq in e["seqs"] for u in sq for k in ("npo", "ppo")))
    if nbased < 50 // sub:
        raise RuntimeError("vacuous: only %d descriptions with automatic parse offsets were serialised into a file positioned after existing bytes" % nbased)
    ctx.coverage["serialised_at_nonzero_file_position_with_automatic_offsets"] = nbased
    t0 = time.time()
    bad = validate_events(ctx, all_events, "G+random", chunks=ctx.pick(6, 12))
    phases["trace_validation_s"] = round(time.time() - t0, 1)
    by_tid = {e["tid"]: e for e in all_events}
    logged = {}
    alarmed = set()
    for b in bad:
        ev = by_tid[b["tid"]]
        if b["alarm"]:
            alarmed.add(b["tid"])
            src = "tlc" if b["tid"] <= len(events) else "random"
            case = {"seqs": [[{"f": {k: v for k, v in u["f"].items() if k != "z"}, "blen": u["blen"]} for u in s] for s in ev["seqs"]]}
            fld = b.get("field") or "-"
            ctx.violation("C07|%s|%s" % (b["clause"], fld), "%s description: %s" % (src, describe(ev, b)), case)
        else:
            logged[b["clause"]] = logged.get(b["clause"], 0) + 1
    g_only = sum(1 for c, ev in zip(cases, events) if ev["tid"] not in alarmed and compare_expectation(c, ev))
    ser_rand = sum(1 for e in revents if e["ser"])
    if ser_rand < nrand // 2:
        raise RuntimeError("vacuous: only %d of %d random descriptions were serialised" % (ser_rand, nrand))
    try:
        st = selftest(ctx, events)
    except RuntimeError as e:
        if not ctx.violations:
            raise
        st = {"skipped": "self-test not conclusive on code that is already convicted by this run: %s" % e}
    nontrivial = set()
    fields_judged = 0
    for e in all_events:
        if e["ser"] and e["aligned"]:
            fields_judged += sum(len(u["o"]) for s in e["seqs"] for u in s)
            if sum(len(s) for s in e["seqs"]) >= 3:
                nontrivial.add(repr(e["seqs"]))
    samples = []
    for e in (events[0], events[len(events) // 2], revents[0], revents[-1]):
        samples.append({"ser": e["ser"], "seqs": [[{"f": {k: v for k, v in u["f"].items() if k != "z"}, "o": u["o"], "off": u["off"]} for u in s] for s in e["seqs"]][:2]})
    ctx.coverage.update(
        {
            "traces_validated_against_impl": len(all_events),
            "evaluations": fields_judged,
            "distinct_nontrivial": len(nontrivial),
            "rule": "one stream description per abstract transition of Autofill.tla (shortest history, closed by a default EOS) plus seeded random descriptions; each is serialised by autofill_and_serialise_stream, read back by the harness's own reader and every output field judged by TLC (AutofillTrace); evaluations = output fields judged; non-trivial = serialised description of >= 3 data units, distinct by content",
            "exhaustive": True,
            "tlc_descriptions": len(cases),
            "random_descriptions": nrand,
            "random_serialised": ser_rand,
            "tlc_descriptions_not_serialised_by_code": unser,
            "spec_disagreements": {"expectation_mismatch_without_alarm": g_only, "expectation_mismatch_total": g_diff, "logged_clauses": logged},
            "binding_selftest": st,
            "phase_wall_s": phases,
            "subsample": sub,
            "samples": samples,
        }
    )
    ctx.assumptions += [
        "data units are located in the output by scanning for the parse_info prefix; generated payloads / numbers avoid the byte 0x42",
        "pictures are 1..3 x 1..2 pixels with default (all-zero) slices; the content of slices is not part of C07",
        "the description is serialisable according to the spec's premise operator SeqSerialisable; descriptions the code refuses are compared with that prediction and logged, not alarmed",
        "exhaustive box: MaxUnits=%d units + EOS per sequence, 2 sequences, choice groups crossed where they interact (Cross=FALSE)" % consts["MaxUnits"],
    ]


def replay(case):
    ev = execute(case["seqs"])
    ev["tid"] = 1
    bad, _ = trace.validate("AutofillTrace", [_slim(ev)])
    return {"violations": [b for b in bad if b["alarm"]], "logged": [b for b in bad if not b["alarm"]], "event": ev}
