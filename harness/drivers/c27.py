"""C27 -- fixed-entry dictionaries never hold undeclared keys and pickle faithfully.

Spec: spec/FixedDict.tla (TLC explores every (abstract state, operation) transition; the dump gives one
shortest history per transition, each step annotated with the spec's post-state).
Binding (G): every history is replayed on every fixeddict type of the library; the real object's key
set / type / exception class is projected and compared after every step.
"""
import copy
import importlib
import operator
import pickle
import pkgutil
import random

from .. import common, tlc, tlaval

UNDECL = {"u1": "bogus_key", "u2": "_verif_undeclared"}


def discover_types():
    import vc2_conformance
    from vc2_conformance.fixeddict import fixeddict  # noqa

    types = {}
    for m in pkgutil.walk_packages(vc2_conformance.__path__, "vc2_conformance."):
        try:
            mod = importlib.import_module(m.name)
        except Exception:
            continue
        for n, v in vars(mod).items():
            if isinstance(v, type) and issubclass(v, dict) and hasattr(v, "entry_objs"):
                types["%s.%s" % (v.__module__, v.__name__)] = v
    return types


_TYPES = None


def get_type(name):
    global _TYPES
    if _TYPES is None:
        _TYPES = discover_types()
        _TYPES["harness.Probe"] = PROBE()
    return _TYPES[name]


_PROBE = None


def PROBE():
    global _PROBE, VerifProbeDict
    if _PROBE is None:
        from vc2_conformance.fixeddict import fixeddict, Entry

        _PROBE = fixeddict("VerifProbeDict", "alpha", Entry("_beta"), "gamma", module=__name__)
        VerifProbeDict = _PROBE
    return _PROBE


VerifProbeDict = None


_OTHER = {}


def other_fd(T, items):
    """an instance of a DIFFERENT fixeddict type that declares every key of T plus the undeclared probe keys"""
    from vc2_conformance.fixeddict import fixeddict

    if T not in _OTHER:
        names = list(T.entry_objs.keys()) + ["bogus_key", "_verif_undeclared", "x" + list(T.entry_objs.keys())[0]]
        _OTHER[T] = fixeddict("VerifSourceFor" + T.__name__, *names, module=__name__)
    return _OTHER[T](items)


def keymap(T):
    names = list(T.entry_objs.keys())
    km = dict(UNDECL)
    km["k1"] = names[0]
    if len(names) > 1:
        km["k2"] = names[-1]
    return km


TREF = 7  # the same in recorded traces (whose plain values are 0..2)
REF = 2  # FixedDict.tla: Ref == 2, a value that is a reference to a dictionary reachable from itself


def is_fd(v):
    return isinstance(v, dict) and hasattr(type(v), "entry_objs")


def is_cyclic(v):
    """is the fixed-entry dictionary v reachable from its own contents?"""
    seen = set()
    todo = [x for x in dict.values(v)]
    while todo:
        x = todo.pop()
        if x is v:
            return True
        if id(x) in seen:
            continue
        seen.add(id(x))
        if isinstance(x, dict):
            todo.extend(dict.values(x))
        elif isinstance(x, (list, tuple)):
            todo.extend(x)
    return False


def proj_val(v, ref=REF):
    if v is None:
        return 0  # abstract value 0 is concretised as 0 or as None (see falsy)
    if isinstance(v, int):
        return v
    if is_fd(v) and is_cyclic(v):
        return ref
    return -1


def proj(obj, ref=REF):
    """abstract mapping of a real dictionary (never compares or prints cyclic objects)"""
    return dict((k, proj_val(dict.__getitem__(obj, k), ref)) for k in dict.keys(obj))


def same(c, obj):
    """`c` is an equal dictionary of the same type: == where Python defines it, the projection where the contents are
    cyclic (== on cyclic dictionaries raises RecursionError for ANY implementation)"""
    if type(c) is not type(obj) or proj(c, "ref") != proj(obj, "ref"):
        return False
    if any(is_fd(v) for v in dict.values(obj)):
        return True
    return bool(c == obj and dict(c) == dict(obj))


def falsy(v, n):
    """abstract value 0 is a falsy value: the integer 0 or (every third time) None, the value dict methods default to"""
    return None if v == 0 and n % 3 == 1 else v


def loop_of(T, via_list=False):
    """a fresh dictionary of type T that contains itself, directly or through a list"""
    loop = T()
    loop[list(T.entry_objs.keys())[0]] = [0, loop] if via_list else loop
    return loop


def concrete(v, obj, T, direct, via_list=False):
    """the real value of abstract value v: Ref is the dictionary under test itself (in-place operations, `direct`)
    or a companion dictionary that contains itself"""
    if v != REF:
        return v
    return obj if direct else loop_of(T, via_list)


def mentions(o, key):
    return o.get("k") == key or key in o.get("ks", ())


def exec_case(arg):
    """Replay one history on one type.  Returns dict(violations=[(sig, what)], disagreements=int, steps=int)."""
    tname, hist = arg
    from vc2_conformance.fixeddict import FixedDictKeyError

    T = get_type(tname)
    km = keymap(T)
    declared = set(T.entry_objs.keys())
    viol = []
    disagree = 0
    obj = T()
    steps = 0
    for step in hist:
        o = step["o"]
        op = o["op"]
        if "k2" not in km and mentions(o, "k2"):
            break
        steps += 1
        exc = None
        v = o.get("v")
        v = falsy(v, len(hist) + steps)
        if v == REF:
            v = concrete(v, obj, T, direct=(not op.startswith("construct")) and (len(hist) + steps) % 2 == 0, via_list=(len(hist) + steps) % 4 == 1)
        try:
            if op == "construct_fd":
                obj = T(other_fd(T, [(km[k], v) for k in o["ks"]]))
            elif op == "update_fd":
                obj.update(other_fd(T, [(km[k], v) for k in o["ks"]]))
            elif op == "ior_fd":
                obj = operator.ior(obj, other_fd(T, [(km[k], v) for k in o["ks"]]))
            elif op in ("construct_mixed", "update_mixed"):
                items = [(km[k], v) for k in o["ks"]]
                h = (len(items) + 1) // 2 if len(items) != 1 else 0  # a single key goes to the keywords
                if op == "construct_mixed":
                    obj = T(dict(items[:h]), **dict(items[h:]))
                else:
                    obj.update(dict(items[:h]), **dict(items[h:]))
            elif op == "construct":
                items = [(km[k], v) for k in o["ks"]]
                form = (len(hist) + steps) % 4
                if form == 0:
                    new = T(dict(items))
                elif form == 1:
                    new = T(items)
                elif form == 2:
                    new = T.fromkeys([k for k, _ in items], v)  # dict's alternative constructor
                else:
                    new = T(**dict(items))
                obj = new
            elif op == "setitem":
                obj[km[o["k"]]] = v
            elif op == "setdefault":
                obj.setdefault(km[o["k"]], v)
            elif op == "update_dict":
                obj.update(dict((km[k], v) for k in o["ks"]))
            elif op == "update_pairs":
                obj.update([(km[k], v) for k in o["ks"]])
            elif op == "update_kwargs":
                obj.update(**dict((km[k], v) for k in o["ks"]))
            elif op == "ior":
                obj = operator.ior(obj, dict((km[k], v) for k in o["ks"]))
            elif op == "copy":
                for c in (obj.copy(), copy.copy(obj), copy.deepcopy(obj)):
                    if type(c) is not T or not same(c, obj):
                        viol.append(("C27|copy-differs", "copy of %r is %r (%s)" % (proj(obj), proj(c), type(c).__name__)))
                obj = copy.deepcopy(obj) if (len(hist) + steps) % 3 == 0 else obj.copy()
            elif op == "pickle":
                for proto in range(0, pickle.HIGHEST_PROTOCOL + 1):
                    c = pickle.loads(pickle.dumps(obj, proto))
                    if not same(c, obj):
                        viol.append(("C27|pickle-differs", "protocol %d: %r unpickles as %r (%s)" % (proto, proj(obj), proj(c), type(c).__name__)))
                obj = pickle.loads(pickle.dumps(obj))
        except Exception as e:  # noqa
            exc = e
        keys = set(obj.keys())
        extra = keys - declared
        if extra:
            viol.append(("C27|undeclared-key-present|" + op, "%s: after %s the dictionary holds undeclared key(s) %s" % (T.__name__, o, sorted(extra))))
            break
        if step["res"] == "keyerror":
            if exc is None:
                viol.append(("C27|undeclared-key-not-rejected|" + op, "%s: %s completed without its key error" % (T.__name__, o)))
            elif not isinstance(exc, FixedDictKeyError):
                viol.append(("C27|wrong-error|%s|%s" % (op, type(exc).__name__), "%s: %s raised %r" % (T.__name__, o, exc)))
        elif exc is not None and op in ("copy", "pickle"):
            viol.append(("C27|%s-fails|%s" % (op, type(exc).__name__), "%s: %s of %r raised %s" % (T.__name__, op, proj(obj), type(exc).__name__)))
            break
        elif exc is not None:
            viol.append(("C27|declared-key-rejected|%s|%s" % (op, type(exc).__name__), "%s: %s raised %r" % (T.__name__, o, exc)))
            break
        if type(obj) is not T:
            viol.append(("C27|type-lost|" + op, "%s: after %s the object is a %s" % (T.__name__, o, type(obj).__name__)))
            break
        want = dict((km[k], val) for k, val in (step["d"] or {}).items()) if step["d"] else {}
        if proj(obj) != want:
            disagree += 1
    return {"violations": viol, "disagreements": disagree, "steps": steps}


def _hists(dump_path):
    out = []
    for st in tlaval.iter_dump(dump_path):
        if st["hist"]:
            out.append(tlaval.to_jsonable(st["hist"]))
    return out


def selftest_binding(hists):
    """Binding demonstration: a broken in-process subclass must be flagged by the same replay."""
    T = PROBE()

    class Broken(T):
        def setdefault(self, key, value):
            return dict.setdefault(self, key, value)

    Broken.__name__ = "Broken"
    _TYPES["harness.Broken"] = Broken
    try:
        hit = 0
        for h in hists:
            r = exec_case(("harness.Broken", h))
            if any(s.startswith("C27|undeclared-key-present|setdefault") for s, _ in r["violations"]):
                hit += 1
        return hit
    finally:
        del _TYPES["harness.Broken"]


# ---------------------------------------------------------------------------------- T direction
def record_case(arg):
    """Random long history on one real type, recorded as trace events (one per operation)."""
    tname, tid, seed, nops = arg
    from vc2_conformance.fixeddict import FixedDictKeyError

    T = get_type(tname)
    rnd = random.Random(seed)
    names = list(T.entry_objs.keys())
    pool = names + ["bogus_key", "_verif_undeclared", "x" + names[0]]
    ev = [{"tid": tid, "ev": "begin", "type": tname, "decl": names}]
    obj = T()
    for _ in range(nops):
        op = rnd.choice(["construct", "construct_fd", "construct_mixed", "update_mixed", "setitem", "setitem", "setdefault", "update_dict", "update_pairs", "update_kwargs", "update_fd", "ior", "ior", "ior_fd", "copy", "pickle"])
        v = rnd.randrange(3)
        o = {"op": op, "v": v}
        if v == 0 and rnd.random() < 0.4:
            v = None  # recorded as 0
        if rnd.random() < 0.15:
            # a value that is a dictionary reachable from itself: the object under test (in-place operations) or a
            # companion that contains itself; recorded as TREF
            o["v"] = TREF
            v = obj if (not op.startswith("construct")) and rnd.random() < 0.5 else loop_of(T, rnd.random() < 0.4)
        if op in ("setitem", "setdefault"):
            o["k"] = rnd.choice(pool)
        elif op not in ("copy", "pickle"):
            n = rnd.choice([0, 1, 1, 2, 3])
            o["ks"] = rnd.sample(pool if rnd.random() < 0.4 else names, min(n, len(names)))
        exc = "none"
        eq = True
        try:
            if op == "construct_fd":
                obj = T(other_fd(T, [(k, v) for k in o["ks"]]))
            elif op == "update_fd":
                obj.update(other_fd(T, [(k, v) for k in o["ks"]]))
            elif op == "ior_fd":
                obj = operator.ior(obj, other_fd(T, [(k, v) for k in o["ks"]]))
            elif op in ("construct_mixed", "update_mixed"):
                items = [(k, v) for k in o["ks"]]
                h = (len(items) + 1) // 2 if len(items) != 1 else 0
                if op == "construct_mixed":
                    obj = T(dict(items[:h]), **dict(items[h:]))
                else:
                    obj.update(dict(items[:h]), **dict(items[h:]))
            elif op == "construct":
                items = [(k, v) for k in o["ks"]]
                obj = rnd.choice([lambda: T(dict(items)), lambda: T(items), lambda: T(**dict(items)), lambda: T.fromkeys([k for k, _ in items], v)])()
            elif op == "setitem":
                obj[o["k"]] = v
            elif op == "setdefault":
                obj.setdefault(o["k"], v)
            elif op == "update_dict":
                obj.update(dict((k, v) for k in o["ks"]))
            elif op == "update_pairs":
                obj.update([(k, v) for k in o["ks"]])
            elif op == "update_kwargs":
                obj.update(**dict((k, v) for k in o["ks"]))
            elif op == "ior":
                obj = operator.ior(obj, dict((k, v) for k in o["ks"]))
            elif op == "copy":
                c = rnd.choice([lambda: obj.copy(), lambda: copy.copy(obj), lambda: copy.deepcopy(obj)])()
                eq = same(c, obj)
                obj = c
            elif op == "pickle":
                c = pickle.loads(pickle.dumps(obj, rnd.randrange(pickle.HIGHEST_PROTOCOL + 1)))
                eq = same(c, obj)
                obj = c
        except FixedDictKeyError:
            exc = "keyerror"
        except Exception as e:  # noqa
            exc = "other:" + type(e).__name__
        keys = [k for k in obj.keys()]
        ev.append(
            {
                "tid": tid,
                "ev": "op",
                "o": o,
                "exc": exc,
                "keys": [str(k) for k in keys],
                "vals": [proj_val(dict.__getitem__(obj, k), TREF) for k in keys],
                "typ": "fixed" if type(obj) is T else "plain",
                "eq": eq,
            }
        )
    return ev


def trace_direction(ctx, names):
    from .. import trace

    per_type = ctx.pick(12, 150)
    nops = ctx.pick(25, 40)
    jobs = []
    tid = 0
    for n in names:
        for j in range(per_type):
            tid += 1
            jobs.append((n, tid, ctx.seed * 1000003 + tid, nops))
    evs = common.pmap(record_case, jobs)
    records = [e for ev in evs for e in ev]
    bad, res = trace.validate("FixedDictTrace", records)
    ctx.add_tlc(res, "trace validation (FixedDictTrace)")
    by_tid = {j[1]: (j, ev) for j, ev in zip(jobs, evs)}
    dis = 0
    for b in bad:
        if b["alarm"]:
            j, ev = by_tid[b["tid"]]
            rec = records[b["line"] - 1]
            ctx.violation("C27|trace|%s|%s" % (b["clause"], rec["o"]["op"]), "%s: %s -> exc=%s keys=%s typ=%s (clause %s)" % (j[0], rec["o"], rec["exc"], rec["keys"], rec["typ"], b["clause"]), {"trace_job": list(j), "line": b["line"]})
        else:
            dis += 1
    # binding self-test: corrupt one recorded field -> the trace spec must reject exactly that line
    probe = [dict(r) for r in evs[0]]
    probe[-1] = dict(probe[-1], keys=probe[-1]["keys"] + ["bogus_key"], vals=probe[-1]["vals"] + [0])
    pbad, _ = trace.validate("FixedDictTrace", probe)
    if not any(b["alarm"] and b["line"] == len(probe) and b["clause"] == "OnlyDeclared" for b in pbad):
        raise RuntimeError("trace binding self-test failed: corrupted keys field accepted")
    return len(jobs), len(records), dis, records[1]


def run(ctx):
    res = tlc.run("FixedDict", "mc/FixedDict.cfg", dump=True)
    ctx.add_tlc(res, "exhaustive", {"Declared": 2, "Undeclared": 2, "Vals": 3, "MaxLen": 30, "MaxArg": 2})
    hists = _hists(res.dump_path)
    get_type("harness.Probe")
    names = sorted(_TYPES)
    if not ctx.quick:
        sim = tlc.run("FixedDict", open(tlc.SPEC + "/mc/FixedDict.cfg").read().replace("MaxLen = 30", "MaxLen = 12"), simulate=4000, depth=12, seed=ctx.seed, workers=1, dump=False)
        import glob, os

        for p in sorted(glob.glob(os.path.join(sim.sim_dir, "tr*"))):
            sts = list(tlaval.iter_dump(p))
            if sts and sts[-1]["hist"]:
                hists.append(tlaval.to_jsonable(sts[-1]["hist"]))
    jobs = [(n, h) for n in names for h in hists]
    out = common.pmap(exec_case, jobs)
    nviol = 0
    dis = 0
    steps = 0
    for (n, h), r in zip(jobs, out):
        steps += r["steps"]
        dis += r["disagreements"]
        for sig, what in r["violations"]:
            nviol += 1
            ctx.violation(sig, what, {"type": n, "hist": h})
    ntr, nev, tdis, tsample = trace_direction(ctx, names)
    hit = selftest_binding(hists)
    if hit == 0:
        raise RuntimeError("binding self-test failed: a setdefault that bypasses the key check was not detected")
    ctx.coverage.update(
        {
            "traces_validated_against_impl": len(jobs) + ntr,
            "recorded_traces": ntr,
            "recorded_events": nev,
            "trace_spec_disagreements": tdis,
            "trace_binding_selftest": "corrupting the recorded key list of one event is rejected with clause OnlyDeclared",
            "evaluations": len(jobs),
            "distinct_nontrivial": len(set(repr(h) for h in hists if len(h) >= 2)) * len(names),
            "rule": "one shortest history per (abstract state, operation) transition of FixedDict.tla, replayed on each of the library's fixeddict types; non-trivial = history of >= 2 operations",
            "exhaustive": True,
            "types": names,
            "histories": len(hists),
            "steps_executed": steps,
            "spec_disagreements": dis,
            "binding_selftest": {"mutant": "setdefault without key check (in-process subclass)", "histories_flagging_it": hit},
            "samples": [{"type": jobs[i][0], "hist": jobs[i][1]} for i in (0, len(jobs) // 2, len(jobs) - 1)] + [tsample],
        }
    )
    ctx.assumptions += [
        "keys k1/k2 are mapped to the first and last declared entry of each type, u1/u2 to names no type declares",
        "values are the small integers 0/1 and Ref: a reference to a fixed-entry dictionary reachable from itself (the dictionary under test, or a companion that contains itself); equality of cyclic dictionaries is judged on the projection (int values, Ref-ness, type, key set) because == on cyclic dictionaries is undefined in Python",
    ]


def replay(case):
    get_type("harness.Probe")
    if "trace_job" in case:
        from .. import trace

        ev = record_case(tuple(case["trace_job"]))
        bad, _ = trace.validate("FixedDictTrace", ev)
        return {"violations": [b for b in bad if b["alarm"]], "events": ev[: case["line"] + 1][-3:]}
    return exec_case((case["type"], case["hist"]))
