"""C16 -- the encoder respects any level table it claims to satisfy.

Spec: spec/LevelTables.tla (TLC choice machine with three classes of level definitions:
  "full"  tiny configuration x one or two restricted keys x restriction kind (incl. the EMPTY entry) x ordering pattern;
  "geom"  geometry configurations (frame / field DC-band heights dividing differently by slices_y) x picture coding
          mode x source sampling (agreeing and disagreeing) x a synthetic column pinning one derived key;
  "real"  the REAL level table x one feature set per level x every base video format x source sampling x picture
          coding mode x a perturbation of one group -- admitted or not (the encoder must refuse what is not);
design of the encoder's constraint handling; invariant DesignSound), reusing spec/SeqHeaderOps.tla for the
sequence-header part; spec/LevelTablesTrace.tla judges recorded outcomes.

G: every completed choice is installed as level 1 of the real library (LEVEL_CONSTRAINTS[:] = [column],
LEVEL_SEQUENCE_RESTRICTIONS[1] = pattern; restored in `finally`, as tests/alternative_level_constraints.py
does), the real encoder (make_sequence) runs on two 8x4 pictures, and if it produced a sequence the serialised
stream goes through the real validator (parse_stream) under the same tables.
T: (table, design prediction, outcome, verdict, offending key/value, values the validator saw) events judged by
LevelTablesTrace.tla.  Alarm: produced and rejected.
"""
import io
import os
import random
import time

from .. import common, tlc, tlaval
from . import c15

DONE = 5
TRACE_CFG = c15.TRACE_CFG

PATTERNS = {
    "any": ".*",
    "alternate": "(sequence_header PIC+)* end_of_sequence",
    "padding_after_each": "(. padding_data)* end_of_sequence",
    "aux_at_end": ".* auxiliary_data end_of_sequence",
    "no_padding_no_aux": "(sequence_header | PIC)* end_of_sequence",
    "header_once": "sequence_header PIC* end_of_sequence",
    "no_pictures": "sequence_header (padding_data | auxiliary_data)* end_of_sequence",
}


def picture_symbol(cfg):
    name = "high_quality_picture" if cfg["profile"] == 3 else "low_delay_picture"
    return name + ("_fragment" if cfg["frag"] else "")


def make_codec_features(cfg):
    from vc2_data_tables import Levels, Profiles, PictureCodingModes, WaveletFilters
    from vc2_conformance.codec_features import CodecFeatures
    from vc2_conformance.pseudocode.video_parameters import VideoParameters

    qm = None
    if cfg["custom_quant_matrix"]:
        assert cfg["dwt_depth"] == 1 and cfg["dwt_depth_ho"] == 0
        qm = {0: {"LL": 0}, 1: {"HL": 1, "LH": 1, "HH": 2}}
        if cfg["name"] == "hq_explicit_default_qm":
            from vc2_data_tables import QUANTISATION_MATRICES

            dflt = QUANTISATION_MATRICES[(WaveletFilters(cfg["wavelet_index"]), WaveletFilters(cfg["wavelet_index_ho"]), 1, 0)]
            qm = dict((lv, dict(o)) for lv, o in dflt.items())
    return CodecFeatures(
        name=cfg["name"],
        level=Levels(cfg.get("level", 1)),
        profile=Profiles(cfg["profile"]),
        picture_coding_mode=PictureCodingModes(cfg["pcm"]),
        video_parameters=VideoParameters((k, cfg["vp"][k]) for k in c15.VP_KEYS),
        wavelet_index=WaveletFilters(cfg["wavelet_index"]),
        wavelet_index_ho=WaveletFilters(cfg["wavelet_index_ho"]),
        dwt_depth=cfg["dwt_depth"],
        dwt_depth_ho=cfg["dwt_depth_ho"],
        slices_x=cfg["slices_x"],
        slices_y=cfg["slices_y"],
        fragment_slice_count=cfg["frag"],
        lossless=bool(cfg["lossless"]),
        picture_bytes=None if cfg["lossless"] else cfg["picture_bytes"],
        quantization_matrix=qm,
    )


def cfg_label(cfg):
    """display name of a configuration (the geometry / real ones are not named one by one in the spec)"""
    vp = cfg["vp"]
    if cfg["name"] == "geom":
        return "geom_%dx%d_cd%d_p%d_d%d+%d_s%dx%d_pcm%d_ss%d" % (vp["frame_width"], vp["frame_height"], vp["color_diff_format_index"], cfg["profile"], cfg["dwt_depth"], cfg["dwt_depth_ho"], cfg["slices_x"], cfg["slices_y"], cfg["pcm"], vp["source_sampling"])  # fmt: skip
    if cfg["name"] == "real":
        return "real_level%d_%dx%d_cd%d_ss%d_pcm%d" % (cfg["level"], vp["frame_width"], vp["frame_height"], vp["color_diff_format_index"], vp["source_sampling"], cfg["pcm"])  # fmt: skip
    return cfg["name"]


def make_pictures(cfg, seed, npics=2):
    """pictures of random 8-bit samples with the coded dimensions (11.6.2), built without the library"""
    vp = cfg["vp"]
    w, h = vp["frame_width"], vp["frame_height"]
    cw = w // 2 if vp["color_diff_format_index"] in (1, 2) else w
    chh = h // 2 if vp["color_diff_format_index"] == 2 else h
    if cfg["pcm"] == 1:
        h //= 2
        chh //= 2
    rnd = random.Random(seed)
    out = []
    for n in range(npics):
        out.append(
            {
                "Y": [[rnd.randrange(256) for _ in range(w)] for _ in range(h)],
                "C1": [[rnd.randrange(256) for _ in range(cw)] for _ in range(chh)],
                "C2": [[rnd.randrange(256) for _ in range(cw)] for _ in range(chh)],
                "pic_num": n,
            }
        )
    return out


def make_column(restr):
    from vc2_conformance.constraint_table import ValueSet, AnyValue
    from vc2_conformance import level_constraints as lc

    col = dict((k, AnyValue()) for k in _KEYS)
    col["level"] = ValueSet(1)
    for r in restr:
        vs = ValueSet()
        for lo, hi in r["vs"]["rs"]:
            if lo == hi:
                vs.add_value(lo)
            else:
                vs.add_range(lo, hi)
        col[r["key"]] = AnyValue() if r["vs"]["any"] else vs
    return col


_KEYS = None


def thaw(r):
    """tlaval freezes records that are members of a set into sorted (key, value) pairs: undo that"""
    if isinstance(r, dict):
        return r
    d = dict((k, v) for k, v in r)
    if not isinstance(d.get("vs"), dict):
        d["vs"] = dict((k, v) for k, v in d["vs"])
    return d


def exec_case(job):
    """one synthetic level definition -> one trace event"""
    global _KEYS
    tid, case = job
    from vc2_data_tables import Levels
    from vc2_conformance import level_constraints as lc
    from vc2_conformance.encoder.sequence import make_sequence
    from vc2_conformance.encoder.exceptions import UnsatisfiableCodecFeaturesError
    from vc2_conformance.bitstream import Stream, autofill_and_serialise_stream
    from vc2_conformance.pseudocode.state import State
    from vc2_conformance.decoder import init_io, parse_stream

    if _KEYS is None:
        _KEYS = sorted(set(k for c in lc.LEVEL_CONSTRAINTS for k in c))
    cfg = case["cfg"]
    klass = case.get("class", "full")
    npics = case.get("npics", 2)
    restr = sorted((thaw(r) for r in case["restr"]), key=lambda r: r["key"])
    restr = [{"key": r["key"], "kind": r["kind"], "vs": {"any": bool(r["vs"]["any"]), "rs": sorted([list(x) for x in r["vs"]["rs"]])}} for r in restr]
    ev = {"tid": tid, "ev": "table", "class": klass, "level": cfg.get("level", 1), "cfg": cfg_label(cfg), "restr": restr, "pattern": case["pattern"], "design": case["design"],
          "outcome": "", "exc": "", "accepted": False, "vexc": "", "vkey": "", "vvalue": -1, "observed": [], "units": []}  # fmt: skip
    saved_table = list(lc.LEVEL_CONSTRAINTS)
    saved_seq = dict(lc.LEVEL_SEQUENCE_RESTRICTIONS)
    try:
        if klass == "real":
            # the level definition is the REAL one of the tree under test: nothing is swapped
            if restr or case["pattern"] != "real":
                raise RuntimeError("real-table case with synthetic restrictions: %r" % (case,))
        else:
            lc.LEVEL_CONSTRAINTS[:] = [make_column(restr)]
            lc.LEVEL_SEQUENCE_RESTRICTIONS[Levels(1)] = lc.LevelSequenceRestrictions(
                "synthetic (verification harness)", PATTERNS[case["pattern"]].replace("PIC", picture_symbol(cfg))
            )
        try:
            seq = make_sequence(make_codec_features(cfg), make_pictures(cfg, tid, npics))
            f = io.BytesIO()
            autofill_and_serialise_stream(f, Stream(sequences=[seq]))
            ev["outcome"] = "produced"
            ev["units"] = [du["parse_info"]["parse_code"].name for du in seq["data_units"]]
        except UnsatisfiableCodecFeaturesError as ex:
            ev["outcome"] = "unsat"
            ev["exc"] = type(ex).__name__
        except Exception as ex:  # noqa -- not a produced sequence: logged, not a C16 verdict
            ev["outcome"] = "error"
            ev["exc"] = common.exc_signature(ex)
        if ev["outcome"] == "produced":
            f.seek(0)
            st = State()
            init_io(st, f)
            try:
                parse_stream(st)
                ev["accepted"] = True
            except Exception as ex:  # noqa -- any exception is "not accepted"
                ev["vexc"] = type(ex).__name__
                ev["vkey"] = "quant_matrix_values" if type(ex).__name__ == "QuantisationMatrixValueNotAllowedInLevel" else str(getattr(ex, "key", ""))
                v = getattr(ex, "value", -1)
                ev["vvalue"] = int(v) if isinstance(v, (int, bool)) else -1
                ev["vsig"] = common.exc_signature(ex)
            ev["observed"] = [{"key": str(k), "value": int(v)} for k, v in st.get("_level_constrained_values", {}).items()]
    finally:
        lc.LEVEL_CONSTRAINTS[:] = saved_table
        lc.LEVEL_SEQUENCE_RESTRICTIONS.clear()
        lc.LEVEL_SEQUENCE_RESTRICTIONS.update(saved_seq)
    return ev


def _wire(evs):
    return [dict((k, v) for k, v in e.items() if k != "_case") for e in evs]


def selftest_binding(cases):
    """Broken encoders (in-process, restored in `finally`) must be flagged through the same pipeline, one per class
    of level definition: (full) extended-transform flags decided without asking the level; (real) the level table
    filtered without the base video format, so that a header is assembled from different columns of a multi-column
    level; (geom) the derived value slices_have_same_dimensions computed without regard to the coding mode.
    Then a corrupted recorded field must be rejected by the trace spec."""
    import vc2_conformance.codec_features as cf
    import vc2_conformance.encoder.pictures as pic
    import vc2_conformance.encoder.sequence_header as sh

    def restricted(c, key, kind):
        return any(thaw(r)["key"] == key and thaw(r)["kind"] == kind for r in c["restr"])

    v_full = [c for c in cases if c["class"] == "full" and c["cfg"]["name"] == "hq_fragments" and restricted(c, "asym_transform_index_flag", "true") and c["pattern"] == "any"][:2]
    if not v_full:
        raise RuntimeError("binding self-test: no table forcing asym_transform_index_flag on a version-3 configuration")
    # non-admitted formats of a level with several columns for the same coding mode
    v_real = [c for c in cases if c["class"] == "real" and c["design"] == "unsat" and c["cfg"]["level"] == 3 and c["cfg"]["pcm"] == 0 and c["cfg"]["vp"]["source_sampling"] == 1 and c["pert"] == "none"]
    if not v_real:
        raise RuntimeError("binding self-test: no non-admitted interlaced-as-frames format of a multi-column real level")
    g_all = [c for c in cases if c["class"] == "geom" and c["mode_sensitive"] and restricted(c, "slices_have_same_dimensions", "except") and len(c["restr"]) == 1]
    v_geom = [c for c in g_all if c["cfg"]["pcm"] == c["cfg"]["vp"]["source_sampling"]][:3] + [c for c in g_all if c["cfg"]["pcm"] != c["cfg"]["vp"]["source_sampling"]][:3]
    if not v_geom:
        raise RuntimeError("binding self-test: no geometry table pinning slices_have_same_dimensions with disagreeing coding mode / source sampling")

    orig_flag = pic.decide_extended_transform_flag
    orig_filter = sh.filter_constraint_table
    orig_same = cf.slices_have_same_dimensions
    try:
        pic.decide_extended_transform_flag = lambda codec_features, flag_name, required: bool(required)
        e_full = [exec_case((i + 1, c)) for i, c in enumerate(v_full)]
        pic.decide_extended_transform_flag = orig_flag
        sh.filter_constraint_table = lambda table, values: orig_filter(table, dict((k, v) for k, v in values.items() if k != "base_video_format"))
        e_real = [exec_case((100 + i, c)) for i, c in enumerate(v_real)]
        sh.filter_constraint_table = orig_filter
        cf.slices_have_same_dimensions = lambda state: not orig_same(state)
        e_geom = [exec_case((200 + i, c)) for i, c in enumerate(v_geom)]
    finally:
        pic.decide_extended_transform_flag = orig_flag
        sh.filter_constraint_table = orig_filter
        cf.slices_have_same_dimensions = orig_same
    # a reference event to corrupt: some table under which the unmodified encoder produces an accepted stream (in the
    # thorough tier the first candidate may carry a second restriction that makes the configuration unsatisfiable)
    good = None
    for c in ([v_full[0]] + [c for c in cases if c["class"] == "full" and c.get("design") == "produced" and c["pattern"] == "any"])[:40]:
        good = exec_case((300, c))
        if good["outcome"] == "produced" and good["accepted"]:
            break
    if good is None or good["outcome"] != "produced" or not good["accepted"]:
        raise RuntimeError("binding self-test: no reference table produced+accepted (last: %r)" % (good,))
    corrupt = dict(good, accepted=False, vexc="ValueNotAllowedInLevel", vkey="asym_transform_index_flag", vvalue=0)
    evs = e_full + e_real + e_geom + [corrupt]
    bad, _ = c15.validate_chunk(("LevelTablesTrace", _wire(evs), TRACE_CFG, []))
    hits = {}
    for b in bad:
        if b["alarm"] and b["clause"] == "ProducedButRejected":
            k = "corrupt" if b["line"] == len(evs) else evs[b["line"] - 1]["class"]
            hits[k] = hits.get(k, 0) + 1
    for k, what in (("full", "an encoder ignoring the level for asym_transform_index_flag"), ("real", "an encoder filtering the real table without the base video format"), ("geom", "an encoder deriving slices_have_same_dimensions wrongly"), ("corrupt", "a corrupted verdict field")):
        if not hits.get(k):
            raise RuntimeError("binding self-test failed: %s was not flagged (%r)" % (what, hits))
    return {
        "mutants": "in-process, restored: (full) decide_extended_transform_flag ignores the level table; (real) iter_sequence_headers filters the real table without base_video_format; (geom) codec_features_to_trivial_level_constraints gets slices_have_same_dimensions negated",
        "tables_flagging_them": dict((k, v) for k, v in hits.items() if k != "corrupt"),
        "corrupted_field": "accepted=false on a produced+accepted event -> ProducedButRejected",
    }


def _cpu():
    t = os.times()
    return t.user + t.system + t.children_user + t.children_system


def run(ctx):
    t0 = time.time()
    phases = {}

    def phase(name):
        phases[name] = round(time.time() - t0 - sum(phases.values()), 1)

    scratch = tlc.mkscratch("gen")
    tables = c15.gen_tables(scratch)
    mr = ctx.pick(1, 2)
    wide = ctx.pick("FALSE", "TRUE")
    sim_futures = []
    nsim, nsplit = 2500, 4
    if mr == 1:
        # pairs of restricted keys: random walks of the same machine with MaxRestr = 2 (class "full" only: the
        # walks would otherwise almost all end in the much more numerous real-table configurations); nsplit
        # single-worker TLC processes with seeds derived from ctx.seed, started now so that they run alongside the
        # exhaustive exploration and the execution of the single-restriction tables
        from concurrent.futures import ThreadPoolExecutor

        pool = ThreadPoolExecutor(nsplit)
        for j in range(nsplit):
            sim_futures.append(pool.submit(tlc.run, "LevelTables", c15.read_cfg("LevelTables.cfg", MaxRestr=2, Modes='{"full"}'), simulate=nsim // nsplit, depth=DONE + 1, seed=ctx.seed * nsplit + j, workers=1, coverage=False, extra_files=[tables], timeout=3000, heap="2g"))
        pool.shutdown(wait=False)
    res = tlc.run("LevelTables", c15.read_cfg("LevelTables.cfg", MaxRestr=mr, Wide=wide), dump=True, coverage=False, extra_files=[tables], timeout=3000)
    phase("tlc_exhaustive")
    cases, per_stage = c15.final_states(res.dump_path, DONE)
    by_class = {}
    for c in cases:
        by_class.setdefault(c["class"], []).append(c)
    res.coverage = {
        "ChooseCfg+ChooseGeom": [per_stage.get(2, 0)] * 2,
        "ChooseFirst": [per_stage.get(3, 0)] * 2,
        "ChooseSecond": [per_stage.get(4, 0)] * 2,
        "ChoosePattern": [len(cases) - len(by_class.get("real", []))] * 2,
        "ChooseReal": [len(by_class.get("real", []))] * 2,
    }
    ctx.add_tlc(res, "exhaustive table machine", {"MaxRestr": mr, "Modes": ["full", "geom", "real"], "Wide": wide, "configurations": {"full": 7, "geom": len(set(repr(c["cfg"]) for c in by_class.get("geom", []))), "real": len(by_class.get("real", []))}})
    rnd = random.Random(ctx.seed)
    singles = [c for c in cases if len(c["restr"]) == 1]
    pairs = [c for c in cases if len(c["restr"]) == 2]
    reals = by_class.get("real", [])
    phase("parse_dump")
    # the single-restriction tables and the real-table configurations are executed while the -simulate run (one
    # worker) is still producing the pairs
    first = singles + reals
    events = common.pmap(exec_case, [(i + 1, c) for i, c in enumerate(first)])
    phase("implementation_singles_and_real")
    if mr == 1:
        seen = set()
        for fut in sim_futures:
            for c in c15.sim_finals(fut.result().sim_dir, DONE):
                k = repr(sorted((thaw(r)["key"], thaw(r)["kind"]) for r in c["restr"])) + c["cfg"]["name"] + c["pattern"]
                if len(c["restr"]) == 2 and k not in seen:
                    seen.add(k)
                    pairs.append(c)
        pair_note = "%d distinct pairs from %d TLC -simulate walks (MaxRestr=2, class full; %d processes)" % (len(pairs), nsim, nsplit)
    else:
        rnd.shuffle(pairs)
        npairs = len(pairs)
        pairs = pairs[:24000]
        pair_note = "seeded sample of %d of the %d pairs of the exhaustively explored model" % (len(pairs), npairs)
    phase("tlc_simulate_wait")
    todo = first + pairs
    events += common.pmap(exec_case, [(len(first) + i + 1, c) for i, c in enumerate(pairs)])
    for e, c in zip(events, todo):
        e["_case"] = c
    phase("implementation_pairs")
    wire = _wire(events)
    alarms, dis, ress = judge_events(wire, events, ctx.pick(6, 8))
    phase("trace_validation")
    for r in ress:
        ctx.tlc_runs.append(dict(r.summary(), name="trace validation chunk (LevelTablesTrace)"))
    ctx.coverage["states"] += sum(r.distinct for r in ress)
    ctx.coverage["transitions"] += sum(r.generated for r in ress)
    for sig, what, case in alarms:
        ctx.violation(sig, what, case)

    # ---- vacuity, per class of level definition
    def tally(evs):
        return {
            "tables": len(evs),
            "produced": sum(1 for e in evs if e["outcome"] == "produced"),
            "produced_and_accepted": sum(1 for e in evs if e["outcome"] == "produced" and e["accepted"]),
            "unsat": sum(1 for e in evs if e["outcome"] == "unsat"),
        }

    # (the coverage of the ENUMERATION is judged on the model's predictions, so that a defective tree yields a
    # verdict and not a machinery failure; of the implementation only "the antecedent held at all" is required)
    per_class = dict((k, tally([e for e in events if e["class"] == k])) for k in ("full", "geom", "real"))
    for k, t in per_class.items():
        t["design_produced"] = sum(1 for e in events if e["class"] == k and e["design"] == "produced")
        t["design_unsat"] = sum(1 for e in events if e["class"] == k and e["design"] == "unsat")
        if t["produced"] == 0 or t["design_produced"] == 0 or t["design_unsat"] == 0:
            raise RuntimeError("vacuous (class %s): %r" % (k, t))
    produced = sum(t["produced"] for t in per_class.values())
    accepted = sum(t["produced_and_accepted"] for t in per_class.values())
    unsat = sum(t["unsat"] for t in per_class.values())
    # real table: formats the level does not admit, for levels with several columns per coding mode, in both
    # coding modes and both source samplings; and admitted ones (the antecedent holds) for every level
    real_levels = {}
    for e in events:
        if e["class"] == "real":
            c = e["_case"]
            d = real_levels.setdefault(c["cfg"]["level"], {"admitted": 0, "not_admitted": 0, "not_admitted_by_pcm_ss": {}})
            if c["design"] == "produced":
                d["admitted"] += 1
            else:
                d["not_admitted"] += 1
                k = "pcm%d_ss%d" % (c["cfg"]["pcm"], c["cfg"]["vp"]["source_sampling"])
                d["not_admitted_by_pcm_ss"][k] = d["not_admitted_by_pcm_ss"].get(k, 0) + 1
    multi = [lv for lv in real_levels if sum(1 for col in c15.level_columns(_real_table()) if col["level"]["rs"] == {(lv, lv)}) > 1]
    for lv, d in real_levels.items():
        if d["admitted"] == 0 or (lv != 0 and len(d["not_admitted_by_pcm_ss"]) < 4):
            raise RuntimeError("vacuous (real level %d): %r" % (lv, d))
    if not multi:
        raise RuntimeError("vacuous: the real table has no multi-column level among %r" % sorted(real_levels))
    # geometry: tables pinning slices_have_same_dimensions on coding-mode-sensitive geometries with disagreeing
    # coding mode / source sampling, in both directions of the disagreement
    sens = {}
    for e in events:
        c = e["_case"]
        if e["class"] == "geom" and c["mode_sensitive"] and any(r["key"] == "slices_have_same_dimensions" for r in e["restr"]):
            k = "pcm%d_ss%d" % (c["cfg"]["pcm"], c["cfg"]["vp"]["source_sampling"])
            sens.setdefault(k, {"design_produced": 0, "design_unsat": 0, "produced_and_accepted": 0, "unsat": 0})
            sens[k]["design_" + c["design"]] += 1
            if e["outcome"] == "produced" and e["accepted"]:
                sens[k]["produced_and_accepted"] += 1
            if e["outcome"] == "unsat":
                sens[k]["unsat"] += 1
    for k in ("pcm0_ss1", "pcm1_ss0"):
        if not sens.get(k) or not sens[k]["design_produced"] or not sens[k]["design_unsat"]:
            raise RuntimeError("vacuous (geometry, %s): %r" % (k, sens))
    # empty entries: for every explicitly coded video value there must be a table whose ONLY restriction is the empty
    # entry for that value and which (by LevelTables!ExplicitOnly, evaluated by TLC) leaves a configuration without a
    # header although the flag and index 0 are allowed -- the case in which "empty = no value" and "empty = any value"
    # differ.  (color_diff_format_index / source_sampling can always be had from some base format: only in pairs.)
    empties = {}
    for e in events:
        c = e["_case"]
        if c.get("explicit_only"):
            d = empties.setdefault(e["restr"][0]["key"], {"tables": 0, "unsat": 0, "configurations": []})
            d["tables"] += 1
            d["unsat"] += e["outcome"] == "unsat"
            d["configurations"].append(e["cfg"])
    need = [k for k in c15.VP_KEYS if k not in ("top_field_first", "color_diff_format_index", "source_sampling")]
    if [k for k in need if k not in empties]:
        raise RuntimeError("vacuous (empty value entries): no deciding empty-entry table for %r" % [k for k in need if k not in empties])
    try:
        st = selftest_binding(cases)
    except RuntimeError as ex:
        # On a tree that already falsifies the property the in-process mutants are applied on top of a defective
        # encoder and need not behave as designed; the fresh violations of this very run are then the evidence
        # that the pipeline flags a broken encoder.  Without any fresh violation it is a machinery failure.
        if not any("|ProducedButRejected|" in sig for sig, _, _ in alarms):
            raise
        st = {"not_completed": str(ex), "note": "this run reports fresh violations (the binding flags this tree); the in-process mutants were applied on top of it"}
    phase("selftest")
    by_exc = {}
    for e in events:
        if e["outcome"] == "unsat":
            by_exc[e["exc"]] = by_exc.get(e["exc"], 0) + 1
    pick = [0, len(singles) // 2]
    pick += [i for i, e in enumerate(events) if e["class"] == "geom"][:1]
    pick += [i for i, e in enumerate(events) if e["class"] == "real" and e["outcome"] == "produced" and e["level"] == 3][:1]
    pick += [i for i, e in enumerate(events) if e["class"] == "real" and e["outcome"] == "unsat" and e["level"] == 3][:1]
    ctx.coverage.update(
        {
            "traces_validated_against_impl": len(events),
            "evaluations": len(events),
            "distinct_nontrivial": len(set(repr((e["cfg"], e["level"], e["restr"], e["pattern"])) for e in events if e["outcome"] == "produced")),
            "rule": "one evaluation = one level definition (completed choice of LevelTables.tla) under which the real encoder is run and, if it produced a sequence, the real validator: (full) all single restrictions (kinds incl. the EMPTY entry for every consulted key) x 7 configurations (x 7 ordering patterns, except for empty entries and the all-explicit configuration), plus %s; (geom) %d geometry configurations (geometry x coding mode x source sampling) x every derived key x {only, except}; (real) the real level table x one feature set per level x 23 base formats x source sampling x coding mode x perturbation (admitted or not; header-only sequences); non-trivial = the encoder produced a sequence (the antecedent of the property holds)" % (pair_note, len(set(e["cfg"] for e in events if e["class"] == "geom"))),
            "exhaustive": True,
            "exhaustive_note": "the TLC model is explored completely for MaxRestr=%d, Wide=%s; every single-restriction table and every real-table configuration is executed against the implementation; pairs: %s" % (mr, wide, pair_note),
            "tables": {"single": len(singles), "pairs": len(pairs), "real_table_configurations": len(reals)},
            "per_class": per_class,
            "real_levels": dict((str(k), v) for k, v in sorted(real_levels.items())),
            "real_multi_column_levels": sorted(multi),
            "geometry_mode_sensitive_same_dimension_tables": sens,
            "deciding_empty_value_entry_tables": empties,
            "produced": produced,
            "produced_and_accepted": accepted,
            "unsat": unsat,
            "unsat_by_exception": by_exc,
            "encoder_errors": sorted(set(e["exc"] for e in events if e["outcome"] == "error")),
            "spec_disagreements": sum(len(v) for v in dis.values()),
            "spec_disagreements_by_clause": dict((k, len(v)) for k, v in dis.items()),
            "spec_disagreement_examples": dict((k, [{"cfg": events[i - 1]["cfg"], "restr": [(r["key"], r["kind"]) for r in events[i - 1]["restr"]], "pattern": events[i - 1]["pattern"], "outcome": events[i - 1]["outcome"], "exc": events[i - 1]["exc"]} for i in v[:3]]) for k, v in dis.items()),
            "binding_selftest": st,
            "wall_seconds_by_phase": phases,
            "cpu_seconds": round(_cpu(), 1),
            "samples": [dict((k, v) for k, v in events[i].items() if k not in ("_case", "observed")) for i in pick],
        }
    )
    ctx.assumptions += [
        "synthetic tables (classes full, geom) have a single column: level {1}, every other key `any` except the restricted ones",
        "configurations of classes full / geom are tiny pictures (8x4 .. 16x24; two per sequence, random 8-bit samples built by the harness, not by picture_generators)",
        "class real: the level table and ordering restrictions of the tree under test, unmodified; the sequence has no pictures (sequence_header end_of_sequence), so only the sequence-header keys of the real table are exercised; levels whose ordering restriction demands a picture after every sequence header (LevelTables!PictureAfterEveryHeader = 64, 65, 66) are left out",
        "ordering patterns are concretised by the driver as symbol_re expressions over the configuration's picture parse code; their satisfiability is assumed as listed in LevelTables!DesignOutcome",
        "TLC -coverage is not used (it does not terminate on the generated tables module); per-action counts are the number of dumped states per stage / class",
    ]


def _real_table():
    from vc2_conformance.level_constraints import LEVEL_CONSTRAINTS

    return LEVEL_CONSTRAINTS


def judge_events(wire, events, nchunks):
    bad, ress = c15.validate_parallel("LevelTablesTrace", wire, TRACE_CFG, [], nchunks)
    alarms = []
    dis = {}
    for b in bad:
        ev = events[b["line"] - 1]
        if not b["alarm"]:
            dis.setdefault(b["clause"], []).append(b["line"])
            continue
        detail = "%s:%s" % (ev["vexc"], ev["vkey"]) if ev["vkey"] else ev.get("vsig", ev["vexc"])
        table = "the real level %d table" % ev["level"] if ev["class"] == "real" else "%s" % ["%s %s" % (r["key"], r["kind"]) for r in ev["restr"]]
        what = "%s with %s, pattern %s: encoder produced %s but the validator rejected it: %s key=%s value=%s" % (
            ev["cfg"], table, ev["pattern"], ev["units"], ev["vexc"], ev["vkey"], ev["vvalue"])  # fmt: skip
        alarms.append(("C16|%s|%s" % (b["clause"], detail), what, {"case": ev["_case"]}))
    return alarms, dis, ress


def replay(case):
    ev = exec_case((1, case["case"]))
    bad, _ = c15.validate_chunk(("LevelTablesTrace", [ev], TRACE_CFG, []))
    return {"violations": [b for b in bad if b["alarm"]], "disagreements": [b for b in bad if not b["alarm"]], "event": ev}
