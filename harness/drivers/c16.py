"""C16 -- the encoder respects any level table it claims to satisfy.

Spec: spec/LevelTables.tla (TLC choice machine with three classes of level definitions:
  "full"  tiny configuration x one or two restricted keys x restriction kind x ordering pattern;
  "geom"  geometry configurations (frame / field DC-band heights dividing differently by slices_y) x picture coding
          mode x source sampling (agreeing and disagreeing) x a synthetic column pinning one derived key;
  "real"  the REAL level table x one feature set per level x every base video format x source sampling x picture
          coding mode x a perturbation of one group -- admitted or not (the encoder must refuse what is not);
design of the encoder's constraint handling; invariant DesignSound), reusing spec/SeqHeaderOps.tla for the
sequence-header part; spec/LevelTablesTrace.tla judges recorded outcomes.

G: every completed choice is installed as level 1 of the real library (LEVEL_CONSTRAINTS[:] = [column],
LEVEL_SEQUENCE_RESTRICTIONS[1] = pattern; restored in `finally`, as tests/alternative_level_constraints.py
does), the real encoder (make_sequence) runs on two 8x4 pictures, and if it produced a sequence the serialised
stream goes through the real validator (parse_stream) under the same tables.
T: (table, design prediction, outcome, verdict, offending key/value, values the validator saw) events judged by
LevelTablesTrace.tla.  Alarm: produced and rejected.
"""
import io
import os
import random
import time

from .. import common, tlc, tlaval
from . import c15

DONE = 5
TRACE_CFG = c15.TRACE_CFG

PATTERNS = {
    "any": ".*",
    "alternate": "(sequence_header PIC+)* end_of_sequence",
    "padding_after_each": "(. padding_data)* end_of_sequence",
    "aux_at_end": ".* auxiliary_data end_of_sequence",
    "no_padding_no_aux": "(sequence_header | PIC)* end_of_sequence",
    "header_once": "sequence_header PIC* end_of_sequence",
    "no_pictures": "sequence_header (padding_data | auxiliary_data)* end_of_sequence",
}


def picture_symbol(cfg):
    name = "high_quality_picture" if cfg["profile"] == 3 else "low_delay_picture"
    return name + ("_fragment" if cfg["frag"] else "")


def make_codec_features(cfg):
    from vc2_data_tables import Levels, Profiles, PictureCodingModes, WaveletFilters
    from vc2_conformance.codec_features import CodecFeatures
    from vc2_conformance.pseudocode.video_parameters import VideoParameters

    qm = None
    if cfg["custom_quant_matrix"]:
        assert cfg["dwt_depth"] == 1 and cfg["dwt_depth_ho"] == 0
        qm = {0: {"LL": 0}, 1: {"HL": 1, "LH": 1, "HH": 2}}
    return CodecFeatures(
        name=cfg["name"],
        level=Levels(cfg.get("level", 1)),
        profile=Profiles(cfg["profile"]),
        picture_coding_mode=PictureCodingModes(cfg["pcm"]),
        video_parameters=VideoParameters((k, cfg["vp"][k]) for k in c15.VP_KEYS),
        wavelet_index=WaveletFilters(cfg["wavelet_index"]),
        wavelet_index_ho=WaveletFilters(cfg["wavelet_index_ho"]),
        dwt_depth=cfg["dwt_depth"],
        dwt_depth_ho=cfg["dwt_depth_ho"],
        slices_x=cfg["slices_x"],
        slices_y=cfg["slices_y"],
        fragment_slice_count=cfg["frag"],
        lossless=bool(cfg["lossless"]),
        picture_bytes=None if cfg["lossless"] else cfg["picture_bytes"],
        quantization_matrix=qm,
    )


def cfg_label(cfg):
    """display name of a configuration (the geometry / real ones are not named one by one in the spec)"""
    vp = cfg["vp"]
    if cfg["name"] == "geom":
        return "geom_%dx%d_cd%d_p%d_d%d+%d_s%dx%d_pcm%d_ss%d" % (vp["frame_width"], vp["frame_height"], vp["color_diff_format_index"], cfg["profile"], cfg["dwt_depth"], cfg["dwt_depth_ho"], cfg["slices_x"], cfg["slices_y"], cfg["pcm"], vp["source_sampling"])  # fmt: skip
    if cfg["name"] == "real":
        return "real_level%d_%dx%d_cd%d_ss%d_pcm%d" % (cfg["level"], vp["frame_width"], vp["frame_height"], vp["color_diff_format_index"], vp["source_sampling"], cfg["pcm"])  # fmt: skip
    return cfg["name"]


def make_pictures(cfg, seed, npics=2):
    """pictures of random 8-bit samples with the coded dimensions (11.6.2), built without the library"""
    vp = cfg["vp"]
    w, h = vp["frame_width"], vp["frame_height"]
    cw = w // 2 if vp["color_diff_format_index"] in (1, 2) else w
    chh = h // 2 if vp["color_diff_format_index"] == 2 else h
    if cfg["pcm"] == 1:
        h //= 2
        chh //= 2
    rnd = random.Random(seed)
    out = []
    for n in range(npics):
        out.append(
            {
                "Y": [[rnd.randrange(256) for _ in range(w)] for _ in range(h)],
                "C1": [[rnd.randrange(256) for _ in range(cw)] for _ in range(chh)],
                "C2": [[rnd.randrange(256) for _ in range(cw)] for _ in range(chh)],
                "pic_num": n,
            }
        )
    return out


def make_column(restr):
    from vc2_conformance.constraint_table import ValueSet, AnyValue
    from vc2_conformance import level_constraints as lc

    col = dict((k, AnyValue()) for k in _KEYS)
    col["level"] = ValueSet(1)
    for r in restr:
        vs = ValueSet()
        for lo, hi in r["vs"]["rs"]:
            if lo == hi:
                vs.add_value(lo)
            else:
                vs.add_range(lo, hi)
        col[r["key"]] = AnyValue() if r["vs"]["any"] else vs
    return col


_KEYS = None


def thaw(r):
    """tlaval freezes records that are members of a set into sorted (key, value) pairs: undo that"""
    if isinstance(r, dict):
        return r
    d = dict((k, v) for k, v in r)
    if not isinstance(d.get("vs"), dict):
        d["vs"] = dict((k, v) for k, v in d["vs"])
    return d


def exec_case(job):
    """one synthetic level definition -> one trace event"""
    global _KEYS
    tid, case = job
    from vc2_data_tables import Levels
    from vc2_conformance import level_constraints as lc
    from vc2_conformance.encoder.sequence import make_sequence
    from vc2_conformance.encoder.exceptions import UnsatisfiableCodecFeaturesError
    from vc2_conformance.bitstream import Stream, autofill_and_serialise_stream
    from vc2_conformance.pseudocode.state import State
    from vc2_conformance.decoder import init_io, parse_stream

    if _KEYS is None:
        _KEYS = sorted(set(k for c in lc.LEVEL_CONSTRAINTS for k in c))
    cfg = case["cfg"]
    klass = case.get("class", "full")
    npics = case.get("npics", 2)
    restr = sorted((thaw(r) for r in case["restr"]), key=lambda r: r["key"])
    restr = [{"key": r["key"], "kind": r["kind"], "vs": {"any": bool(r["vs"]["any"]), "rs": sorted([list(x) for x in r["vs"]["rs"]])}} for r in restr]
    ev = {"tid": tid, "ev": "table", "class": klass, "level": cfg.get("level", 1), "cfg": cfg_label(cfg), "restr": restr, "pattern": case["pattern"], "design": case["design"],
          "outcome": "", "exc": "", "accepted": False, "vexc": "", "vkey": "", "vvalue": -1, "observed": [], "units": []}  # fmt: skip
    saved_table = list(lc.LEVEL_CONSTRAINTS)
    saved_seq = dict(lc.LEVEL_SEQUENCE_RESTRICTIONS)
    try:
        if klass == "real":
            # the level definition is the REAL one of the tree under test: nothing is swapped
            if restr or case["pattern"] != "real":
                raise RuntimeError("real-table case with synthetic restrictions: %r" % (case,))
        else:
            lc.LEVEL_CONSTRAINTS[:] = [make_column(restr)]
            lc.LEVEL_SEQUENCE_RESTRICTIONS[Levels(1)] = lc.LevelSequenceRestrictions(
                "synthetic (verification harness)", PATTERNS[case["pattern"]].replace("PIC", picture_symbol(cfg))
            )
        try:
            seq = make_sequence(make_codec_features(cfg), make_pictures(cfg, tid, npics))
            f = io.BytesIO()
            autofill_and_serialise_stream(f, Stream(sequences=[seq]))
            ev["outcome"] = "produced"
            ev["units"] = [du["parse_info"]["parse_code"].name for du in seq["data_units"]]
        except UnsatisfiableCodecFeaturesError as ex:
            ev["outcome"] = "unsat"
            ev["exc"] = type(ex).__name__
        except Exception as ex:  # noqa -- not a produced sequence: logged, not a C16 verdict
            ev["outcome"] = "error"
            ev["exc"] = common.exc_signature(ex)
        if ev["outcome"] == "produced":
            f.seek(0)
            st = State()
            init_io(st, f)
            try:
                parse_stream(st)
                ev["accepted"] = True
            except Exception as ex:  # noqa -- any exception is "not accepted"
                ev["vexc"] = type(ex).__name__
                ev["vkey"] = "quant_matrix_values" if type(ex).__name__ == "QuantisationMatrixValueNotAllowedInLevel" else str(getattr(ex, "key", ""))
                v = getattr(ex, "value", -1)
                ev["vvalue"] = int(v) if isinstance(v, (int, bool)) else -1
                ev["vsig"] = common.exc_signature(ex)
            ev["observed"] = [{"key": str(k), "value": int(v)} for k, v in st.get("_level_constrained_values", {}).items()]
    finally:
        lc.LEVEL_CONSTRAINTS[:] = saved_table
        lc.LEVEL_SEQUENCE_RESTRICTIONS.clear()
        lc.LEVEL_SEQUENCE_RESTRICTIONS.update(saved_seq)
    return ev


def selftest_binding(cases):
    """an encoder that ignores the level when deciding the extended-transform flags must be flagged"""
    import vc2_conformance.encoder.pictures as pic

    victims = [c for c in cases if c["cfg"]["name"] == "hq_fragments" and any(thaw(r)["key"] == "asym_transform_index_flag" and thaw(r)["kind"] == "true" for r in c["restr"]) and c["pattern"] == "any"][:2]
    if not victims:
        raise RuntimeError("binding self-test: no table forcing asym_transform_index_flag on a version-3 configuration")
    orig = pic.decide_extended_transform_flag
    pic.decide_extended_transform_flag = lambda codec_features, flag_name, required: bool(required)
    try:
        evs = [exec_case((i + 1, c)) for i, c in enumerate(victims)]
    finally:
        pic.decide_extended_transform_flag = orig
    for e, c in zip(evs, victims):
        e["_case"] = c
    bad, _ = c15.validate_chunk(("LevelTablesTrace", [dict((k, v) for k, v in e.items() if k != "_case") for e in evs], TRACE_CFG, []))
    hit = sum(1 for b in bad if b["alarm"] and b["clause"] == "ProducedButRejected")
    if hit == 0:
        raise RuntimeError("binding self-test failed: an encoder ignoring the level for asym_transform_index_flag was not flagged")
    good = exec_case((1, victims[0]))
    if good["outcome"] != "produced" or not good["accepted"]:
        raise RuntimeError("binding self-test: reference table not produced+accepted (%r)" % (good,))
    corrupt = dict(good, accepted=False, vexc="ValueNotAllowedInLevel", vkey="asym_transform_index_flag", vvalue=0)
    bad, _ = c15.validate_chunk(("LevelTablesTrace", [corrupt], TRACE_CFG, []))
    if not any(b["alarm"] and b["clause"] == "ProducedButRejected" for b in bad):
        raise RuntimeError("trace binding self-test failed: corrupted verdict accepted")
    return {"mutant": "decide_extended_transform_flag ignores the level table (in-process, restored)", "tables_flagging_it": hit, "corrupted_field": "accepted=false on a produced+accepted event -> ProducedButRejected"}


def run(ctx):
    scratch = tlc.mkscratch("gen")
    tables = c15.gen_tables(scratch)
    mr = ctx.pick(1, 2)
    res = tlc.run("LevelTables", c15.read_cfg("LevelTables.cfg", MaxRestr=mr), dump=True, coverage=False, extra_files=[tables], timeout=3000)
    cases, per_stage = c15.final_states(res.dump_path, DONE)
    acts = ["Init", "ChooseCfg", "ChooseFirst", "ChooseSecond", "ChoosePattern"]
    res.coverage = dict((acts[s - 1], [n, n]) for s, n in sorted(per_stage.items()) if s >= 2)
    ctx.add_tlc(res, "exhaustive table machine", {"MaxRestr": mr, "configurations": 6})
    rnd = random.Random(ctx.seed)
    singles = [c for c in cases if len(c["restr"]) == 1]
    pairs = [c for c in cases if len(c["restr"]) == 2]
    if mr == 1:
        # pairs of restricted keys: random walks of the same machine with MaxRestr = 2
        nsim = 2500
        sim = tlc.run("LevelTables", c15.read_cfg("LevelTables.cfg", MaxRestr=2), simulate=nsim, depth=DONE + 1, seed=ctx.seed, workers=1, coverage=False, extra_files=[tables], timeout=3000)
        seen = set()
        for c in c15.sim_finals(sim.sim_dir, DONE):
            k = repr(sorted((thaw(r)["key"], thaw(r)["kind"]) for r in c["restr"])) + c["cfg"]["name"] + c["pattern"]
            if len(c["restr"]) == 2 and k not in seen:
                seen.add(k)
                pairs.append(c)
        pair_note = "%d distinct pairs from %d TLC -simulate walks (MaxRestr=2)" % (len(pairs), nsim)
    else:
        rnd.shuffle(pairs)
        npairs = len(pairs)
        pairs = pairs[:24000]
        pair_note = "seeded sample of %d of the %d pairs of the exhaustively explored model" % (len(pairs), npairs)
    todo = singles + pairs
    jobs = [(i + 1, c) for i, c in enumerate(todo)]
    events = common.pmap(exec_case, jobs)
    for e, c in zip(events, todo):
        e["_case"] = c
    wire = [dict((k, v) for k, v in e.items() if k != "_case") for e in events]
    alarms, dis, ress = judge_events(wire, events, ctx.pick(4, 8))
    for r in ress:
        ctx.tlc_runs.append(dict(r.summary(), name="trace validation chunk (LevelTablesTrace)"))
    ctx.coverage["states"] += sum(r.distinct for r in ress)
    ctx.coverage["transitions"] += sum(r.generated for r in ress)
    for sig, what, case in alarms:
        ctx.violation(sig, what, case)
    produced = sum(1 for e in events if e["outcome"] == "produced")
    accepted = sum(1 for e in events if e["outcome"] == "produced" and e["accepted"])
    unsat = sum(1 for e in events if e["outcome"] == "unsat")
    if accepted == 0 or unsat == 0:
        raise RuntimeError("vacuous: produced-and-accepted=%d unsat=%d" % (accepted, unsat))
    st = selftest_binding(cases)
    by_exc = {}
    for e in events:
        if e["outcome"] == "unsat":
            by_exc[e["exc"]] = by_exc.get(e["exc"], 0) + 1
    ctx.coverage.update(
        {
            "traces_validated_against_impl": len(events),
            "evaluations": len(events),
            "distinct_nontrivial": len(set(repr((e["cfg"], e["restr"], e["pattern"])) for e in events if e["outcome"] == "produced")),
            "rule": "one evaluation = one synthetic level definition (completed choice of LevelTables.tla) installed in the real library, encoder run, stream validated; all single restrictions x 6 configurations x 7 ordering patterns, plus %s; non-trivial = the encoder produced a sequence (the antecedent of the property holds)" % pair_note,
            "exhaustive": True,
            "exhaustive_note": "the TLC model is explored completely for MaxRestr=%d; every single-restriction table is executed against the implementation; pairs: %s" % (mr, pair_note),
            "tables": {"single": len(singles), "pairs": len(pairs)},
            "produced": produced,
            "produced_and_accepted": accepted,
            "unsat": unsat,
            "unsat_by_exception": by_exc,
            "encoder_errors": sorted(set(e["exc"] for e in events if e["outcome"] == "error")),
            "spec_disagreements": sum(len(v) for v in dis.values()),
            "spec_disagreements_by_clause": dict((k, len(v)) for k, v in dis.items()),
            "spec_disagreement_examples": dict((k, [{"cfg": events[i - 1]["cfg"], "restr": [(r["key"], r["kind"]) for r in events[i - 1]["restr"]], "pattern": events[i - 1]["pattern"], "outcome": events[i - 1]["outcome"], "exc": events[i - 1]["exc"]} for i in v[:3]]) for k, v in dis.items()),
            "binding_selftest": st,
            "samples": [dict((k, v) for k, v in events[i].items() if k not in ("_case", "observed")) for i in (0, len(events) // 2, len(events) - 1)],
        }
    )
    ctx.assumptions += [
        "the synthetic table has a single column: level {1}, every other key `any` except the restricted ones",
        "configurations are 8x4 pictures (two per sequence, random 8-bit samples built by the harness, not by picture_generators)",
        "ordering patterns are concretised by the driver as symbol_re expressions over the configuration's picture parse code; their satisfiability is assumed as listed in LevelTables!DesignOutcome",
        "TLC -coverage is not used (it does not terminate on the generated tables module); per-action counts are the number of dumped states per stage",
    ]


def judge_events(wire, events, nchunks):
    bad, ress = c15.validate_parallel("LevelTablesTrace", wire, TRACE_CFG, [], nchunks)
    alarms = []
    dis = {}
    for b in bad:
        ev = events[b["line"] - 1]
        if not b["alarm"]:
            dis.setdefault(b["clause"], []).append(b["line"])
            continue
        detail = "%s:%s" % (ev["vexc"], ev["vkey"]) if ev["vkey"] else ev.get("vsig", ev["vexc"])
        what = "%s with %s, pattern %s: encoder produced %s but the validator rejected it: %s key=%s value=%s" % (
            ev["cfg"], ["%s %s" % (r["key"], r["kind"]) for r in ev["restr"]], ev["pattern"], ev["units"], ev["vexc"], ev["vkey"], ev["vvalue"])  # fmt: skip
        alarms.append(("C16|%s|%s" % (b["clause"], detail), what, {"case": ev["_case"]}))
    return alarms, dis, ress


def replay(case):
    ev = exec_case((1, case["case"]))
    bad, _ = c15.validate_chunk(("LevelTablesTrace", [ev], TRACE_CFG, []))
    return {"violations": [b for b in bad if b["alarm"]], "disagreements": [b for b in bad if not b["alarm"]], "event": ev}
