"""C22 -- picture generators produce well-formed pictures for any regular format.

Spec: spec/PictureGenOps.tla (regular formats, coded sizes/depths per 11.6.2-11.6.3, the well-formedness
predicates), spec/PictureGen.tla (TLC choice machine over base format x size x subsampling x scan x coding mode
x signal range x primaries x matrix x transfer function, pairwise covering), spec/PictureGenTrace.tla.

G: every completed choice of the machine is turned into VideoParameters + picture coding mode and every
generator of vc2_conformance.picture_generators is run on it.
T: per (format, generator) one event with the projected result (count, numbers, per-component rows / columns /
ragged / min / max / all-integers); PictureGenTrace.tla evaluates the property.  The thorough tier adds seeded
random formats far outside the machine's value lists (random sizes up to 64x64, random offsets/excursions).
"""
import os
import random

from .. import common, tlc
from . import c15

DONE = 10
GENERATORS = ["moving_sprite", "static_sprite", "linear_ramps", "mid_gray", "white_noise"]
TRACE_CFG = c15.TRACE_CFG


def project_component(rows):
    """2-D list -> (rows, columns, ragged, min, max, all_int); bool is not an integer sample"""
    h = len(rows)
    w = len(rows[0]) if h else 0
    ragged = any(len(r) != w for r in rows)
    flat = [x for r in rows for x in r]
    allint = all(type(x) is int for x in flat)
    nums = [x for x in flat if isinstance(x, (int, float))]
    lo = min(nums) if nums else 0
    hi = max(nums) if nums else 0
    return h, w, ragged, lo, hi, allint


def clamp(x):
    """keep recorded extrema inside TLC's 32-bit integers (and integral: a float sample is reported by allint)"""
    try:
        x = int(x // 1)
    except Exception:  # noqa
        return -(2**30)
    return max(-(2**30), min(2**30, x))


def exec_case(job):
    tid, cfg, gen = job
    from vc2_data_tables import PictureCodingModes
    from vc2_conformance.pseudocode.video_parameters import VideoParameters
    from vc2_conformance import picture_generators as pg

    vp = VideoParameters((k, cfg["vp"][k]) for k in c15.VP_KEYS)
    ev = {"tid": tid, "ev": "gen", "gen": gen, "req": cfg["vp"], "pcm": cfg["pcm"], "n": 0, "nums": [], "pics": [], "exc": ""}
    try:
        pics = list(getattr(pg, gen)(vp, PictureCodingModes(cfg["pcm"])))
    except Exception as ex:  # noqa -- a generator that raises yields no pictures: judged by the trace spec
        ev["exc"] = common.exc_signature(ex)
        return ev
    ev["n"] = len(pics)
    for p in pics:
        n = p.get("pic_num", -1)
        ev["nums"].append(n if type(n) is int else -1)
        rec = {}
        ok = True
        for name, c in (("y", "Y"), ("c1", "C1"), ("c2", "C2")):
            h, w, rag, lo, hi, ai = project_component(p[c])
            rec[name + "h"], rec[name + "w"], rec[name + "rag"] = h, w, rag
            rec[name + "min"], rec[name + "max"] = clamp(lo), clamp(hi)
            ok = ok and ai
        rec["allint"] = ok
        ev["pics"].append(rec)
    return ev


def random_formats(rnd, n):
    """seeded random regular formats outside the machine's value lists (thorough tier)"""
    import vc2_data_tables as t
    from vc2_conformance.pseudocode.video_parameters import set_source_defaults

    out = []
    while len(out) < n:
        base = rnd.choice(list(t.BaseVideoFormats))
        vp = set_source_defaults(base)
        d = dict((k, (bool(vp[k]) if k == "top_field_first" else int(vp[k]))) for k in c15.VP_KEYS)
        d["color_diff_format_index"] = rnd.randrange(3)
        d["source_sampling"] = rnd.randrange(2)
        pcm = rnd.randrange(2)
        hs = 2 if d["color_diff_format_index"] in (1, 2) else 1
        vs = (2 if d["color_diff_format_index"] == 2 else 1) * (2 if d["source_sampling"] == 1 or pcm == 1 else 1)
        d["frame_width"] = hs * rnd.randint(1, 64 // hs)
        d["frame_height"] = vs * rnd.randint(1, 64 // vs)
        d["clean_width"], d["clean_height"], d["left_offset"], d["top_offset"] = d["frame_width"], d["frame_height"], 0, 0
        if rnd.random() < 0.6:
            d["luma_excursion"] = rnd.choice([1, 2, 3, 100, 255, 256, 257, 1000, 1023, 1024, 4095, 65535, rnd.randint(1, 70000)])
            d["color_diff_excursion"] = rnd.choice([1, 2, 255, 256, 1023, 1024, 4095, 65535, rnd.randint(1, 70000)])
            d["luma_offset"] = rnd.choice([0, 1, 16, 64, d["luma_excursion"], rnd.randint(0, 70000)])
            d["color_diff_offset"] = rnd.choice([0, 128, 512, d["color_diff_excursion"], rnd.randint(0, 70000)])
        d["color_primaries_index"] = rnd.randrange(5)
        d["color_matrix_index"] = rnd.randrange(5)
        d["transfer_function_index"] = rnd.randrange(6)
        out.append({"vp": d, "pcm": pcm})
    return out


def judge(events, nchunks, tables):
    bad, ress = c15.validate_parallel("PictureGenTrace", events, TRACE_CFG, [tables], nchunks)
    alarms, dis = [], {}
    for b in bad:
        ev = events[b["line"] - 1]
        if not b["alarm"]:
            dis[b["clause"]] = dis.get(b["clause"], 0) + 1
            continue
        detail = ev["exc"] if b["clause"] == "Raised" else ev["gen"]
        what = "%s on %s (pcm %d): %s; n=%d nums=%s first picture %s" % (ev["gen"], ev["req"], ev["pcm"], b["clause"] + (" " + ev["exc"] if ev["exc"] else ""), ev["n"], ev["nums"][:6], ev["pics"][:1])
        alarms.append(("C22|%s|%s" % (b["clause"], detail), what, {"cfg": {"vp": ev["req"], "pcm": ev["pcm"]}, "gen": ev["gen"]}))
    return alarms, dis, ress


def selftest_binding(cfgs, tables):
    """a field/frame conversion that drops the second field must be flagged; so must a corrupted record"""
    from vc2_conformance import picture_generators as pg

    victims = [c for c in cfgs if c["pcm"] == 1 and c["vp"]["source_sampling"] == 0][:3]
    if not victims:
        raise RuntimeError("binding self-test: no progressive format coded as fields")
    orig = pg.progressive_to_split_fields

    def broken(video_parameters, picture_coding_mode, pictures):
        first = 0 if video_parameters["top_field_first"] else 1
        for picture in pictures:
            yield picture[first::2, :, :]  # second field of every frame lost

    pg.progressive_to_split_fields = broken
    try:
        evs = [exec_case((i + 1, c, "linear_ramps")) for i, c in enumerate(victims)]
    finally:
        pg.progressive_to_split_fields = orig
    bad, _ = c15.validate_chunk(("PictureGenTrace", evs, TRACE_CFG, [tables]))
    hit = sum(1 for b in bad if b["alarm"] and b["clause"] == "OddNumberOfFields")
    if hit == 0:
        raise RuntimeError("binding self-test failed: dropping the second field was not flagged")
    good = exec_case((1, victims[0], "white_noise"))
    import copy

    c1 = copy.deepcopy(good)
    c1["pics"][0]["c1w"] += 1
    c2 = copy.deepcopy(good)
    c2["tid"] = 2
    c2["pics"][-1]["ymax"] = 2**20
    bad, _ = c15.validate_chunk(("PictureGenTrace", [good, c1, c2], TRACE_CFG, [tables]))
    got = sorted((b["line"], b["clause"]) for b in bad if b["alarm"])
    if got != [(2, "Dimensions"), (3, "OutOfRange")]:
        raise RuntimeError("trace binding self-test failed: %r" % (got,))
    return {"mutant": "progressive_to_split_fields yields one field per frame (in-process, restored)", "events_flagging_it": hit, "corrupted_fields": "C1 width+1 -> Dimensions; Y max 2^20 -> OutOfRange; the unmodified record passes"}


def run(ctx):
    scratch = tlc.mkscratch("gen")
    tables = c15.gen_tables(scratch)
    res = tlc.run("PictureGen", c15.read_cfg("PictureGen.cfg", MaxDev=2), dump=True, coverage=False, extra_files=[tables], timeout=3000)
    cfgs, per_stage = c15.final_states(res.dump_path, DONE)
    acts = ["Init", "ChooseBase", "ChooseSize", "ChooseCd", "ChooseSs", "ChoosePcm", "ChooseSr", "ChooseCp", "ChooseCm", "ChooseTf"]
    res.coverage = dict((acts[s - 1], [n, n]) for s, n in sorted(per_stage.items()) if s >= 2)
    ctx.add_tlc(res, "exhaustive format machine (pairwise)", {"MaxDev": 2})
    extra = []
    if not ctx.quick:
        res3 = tlc.run("PictureGen", c15.read_cfg("PictureGen.cfg", MaxDev=3), dump=True, coverage=False, extra_files=[tables], timeout=3000)
        c3, _ = c15.final_states(res3.dump_path, DONE)
        ctx.add_tlc(res3, "exhaustive format machine (3-wise)", {"MaxDev": 3})
        rnd = random.Random(ctx.seed)
        have = set(repr(c["f"]) for c in cfgs)
        c3 = [c for c in c3 if repr(c["f"]) not in have]
        rnd.shuffle(c3)
        extra = c3[:2500] + random_formats(rnd, 1500)
    todo = cfgs + extra
    jobs = []
    for c in todo:
        for g in GENERATORS:
            jobs.append((len(jobs) + 1, c, g))
    events = common.pmap(exec_case, jobs, chunksize=4)
    alarms, dis, ress = judge(events, ctx.pick(4, 10), tables)
    for r in ress:
        ctx.tlc_runs.append(dict(r.summary(), name="trace validation chunk (PictureGenTrace)"))
    ctx.coverage["states"] += sum(r.distinct for r in ress)
    ctx.coverage["transitions"] += sum(r.generated for r in ress)
    for sig, what, case in alarms:
        ctx.violation(sig, what, case)
    npics = sum(e["n"] for e in events)
    if npics == 0:
        raise RuntimeError("vacuous: no picture was generated")
    st = selftest_binding(cfgs, tables)
    ctx.coverage.update(
        {
            "traces_validated_against_impl": len(events),
            "evaluations": len(events),
            "distinct_nontrivial": len(set(repr((e["req"], e["pcm"], e["gen"])) for e in events if e["n"] >= 1 and (e["pcm"] == 1 or e["req"]["source_sampling"] == 1 or e["req"]["color_diff_format_index"] != 0 or e["n"] > 1))),
            "rule": "one evaluation = one generator run on one format (completed choice of PictureGen.tla with <= 2 deviating dimensions%s); non-trivial = pictures were produced and the format is subsampled, interlaced, field-coded or the sequence has several pictures" % ("" if ctx.quick else ", a seeded sample of 2500 3-wise choices and 1500 seeded random regular formats"),
            "exhaustive": True,
            "exhaustive_note": "every completed choice of the pairwise model is executed with all five generators",
            "formats": len(todo),
            "generators": GENERATORS,
            "pictures_checked": npics,
            "raised": sorted(set(e["exc"] for e in events if e["exc"])),
            "spec_disagreements": sum(dis.values()),
            "spec_disagreements_by_clause": dis,
            "binding_selftest": st,
            "samples": [events[i] for i in (0, len(events) // 2, len(events) - 1)],
        }
    )
    ctx.assumptions += [
        "real_pictures (photographs rescaled from the vc2_conformance_data package) is not run: it takes seconds per format; its pipeline stages (resize aside) are the ones the five synthetic generators share",
        "formats are at most 64x64 (one size 18x486); sample extrema beyond +-2^30 are clamped in the record (they are out of range either way)",
        "TLC -coverage is not used (it does not terminate on the generated tables module); per-action counts are the number of dumped states per stage",
    ]


def replay(case):
    scratch = tlc.mkscratch("gen")
    tables = c15.gen_tables(scratch)
    ev = exec_case((1, case["cfg"], case["gen"]))
    bad, _ = c15.validate_chunk(("PictureGenTrace", [ev], TRACE_CFG, [tables]))
    return {"violations": [b for b in bad if b["alarm"]], "disagreements": [b for b in bad if not b["alarm"]], "event": ev}
