"""C13 -- slices tile every subband and low-delay slice sizes sum exactly.

Spec: spec/SliceGeometry.tla (+ SliceGeometryOps.tla), exhaustive in a box with TLC; symbolic obligations in
spec/apalache/MC_SliceGeometry.tla (Apalache).
Binding:
  G  TLC's dump of SliceGeometry.tla under VIEW ClassView gives one concrete configuration per abstract class
     (which DC extents divide evenly, slices outnumbering coefficients, sizes off the transform scale ...) and
     every low-delay (slices, numerator, denominator) of the box; the real functions of
     vc2_conformance/pseudocode/slice_sizes.py are called on each and compared with the spec's tables
     (differences are `spec_disagreements`, never an alarm).
  T  every number the code returned (for the TLC-chosen configurations, an axis-exhaustive box, realistic video
     formats and random values up to 2^29 / 2^70) is recorded and judged by TLC with SliceGeometryTrace.tla:
     the alarm is a C13 predicate false on the code's own numbers.
Python below only builds state dictionaries, calls the functions, and copies the returned numbers.
"""
import os
import random
import resource
import shutil
import subprocess
import threading
import time

from .. import common, tlc, tlaval, trace

COMPS = ("Y", "C1", "C2")
WORKERS = 8
# mutation-testing aid: skip the runs that do not touch the implementation (pure model checking / proofs)
SKIP_MODEL = bool(os.environ.get("VERIF_SKIP_MODEL"))
XSS = {"JAVA_TOOL_OPTIONS": "-Xss512m"}  # deep TLA+ recursion (sums over slices, limb arithmetic)


# ----------------------------------------------------------------------------- calling the code
def make_state(p):
    from vc2_conformance.pseudocode.state import State

    st = State(
        luma_width=p["lw"],
        luma_height=p["lh"],
        color_diff_width=p["cw"],
        color_diff_height=p["ch"],
        dwt_depth=p["d"],
        dwt_depth_ho=p["dho"],
        slices_x=p["sx"],
        slices_y=p["sy"],
    )
    if "num" in p:
        st["slice_bytes_numerator"] = p["num"]
        st["slice_bytes_denominator"] = p["den"]
    return st


_MINIMAL = [None]


def reported_flags(p):
    """The flag as the library REPORTS it for a codec configuration (codec_features_to_trivial_level_constraints,
    what the level machinery sees), for the two realisations of component sizes p as a video format: pictures are
    frames (frame = luma size) and pictures are fields (frame height = twice the luma height).  -1 where the
    component sizes are not those of a 4:4:4 / 4:2:2 / 4:2:0 format."""
    lw, lh, cw, ch = p["lw"], p["lh"], p["cw"], p["ch"]
    if (cw, ch) == (lw, lh):
        cdf = 0
    elif lw % 2 == 0 and (cw, ch) == (lw // 2, lh):
        cdf = 1
    elif lw % 2 == 0 and lh % 2 == 0 and (cw, ch) == (lw // 2, lh // 2):
        cdf = 2
    else:
        return -1, -1
    from vc2_conformance.codec_features import CodecFeatures, read_codec_features_csv, codec_features_to_trivial_level_constraints
    from vc2_data_tables import ColorDifferenceSamplingFormats, PictureCodingModes

    if _MINIMAL[0] is None:
        with open(os.path.join(os.environ.get("VERIF_REPO", "/repo"), "tests", "sample_codec_features.csv")) as f:
            _MINIMAL[0] = read_codec_features_csv(f)["minimal"]
    out = []
    for fields in (False, True):
        cf = CodecFeatures(_MINIMAL[0])
        fh = lh * (2 if fields else 1)
        cf["video_parameters"] = type(cf["video_parameters"])(cf["video_parameters"], frame_width=lw, frame_height=fh, clean_width=lw, clean_height=fh, color_diff_format_index=ColorDifferenceSamplingFormats(cdf))
        cf["picture_coding_mode"] = PictureCodingModes.pictures_are_fields if fields else PictureCodingModes.pictures_are_frames
        cf["dwt_depth"], cf["dwt_depth_ho"], cf["slices_x"], cf["slices_y"] = p["d"], p["dho"], p["sx"], p["sy"]
        out.append(1 if codec_features_to_trivial_level_constraints(cf)["slices_have_same_dimensions"] else 0)
    return tuple(out)


def geom_event(tid, p, ss=None):
    """Call every geometry function of slice_sizes.py for configuration p and copy the results."""
    if ss is None:
        from vc2_conformance.pseudocode import slice_sizes as ss
    st = make_state(p)
    levels = range(p["d"] + p["dho"] + 1)
    comps = []
    for c in COMPS:
        comps.append(
            {
                "c": c,
                "sw": [ss.subband_width(st, l, c) for l in levels],
                "sh": [ss.subband_height(st, l, c) for l in levels],
                "pw": ss.subband_width(st, p["d"] + p["dho"] + 1, c),
                "ph": ss.subband_height(st, p["d"] + p["dho"] + 1, c),
                "L": [[ss.slice_left(st, s, c, l) for s in range(p["sx"])] for l in levels],
                "R": [[ss.slice_right(st, s, c, l) for s in range(p["sx"])] for l in levels],
                "T": [[ss.slice_top(st, s, c, l) for s in range(p["sy"])] for l in levels],
                "B": [[ss.slice_bottom(st, s, c, l) for s in range(p["sy"])] for l in levels],
            }
        )
    ev = {"tid": tid, "ev": "geom", "flag": bool(ss.slices_have_same_dimensions(st)), "comps": comps}
    ev["cf_frames"], ev["cf_fields"] = reported_flags(p)
    for k in ("lw", "lh", "cw", "ch", "d", "dho", "sx", "sy"):
        ev[k] = p[k]
    return ev


def signed(n):
    return {"s": (n > 0) - (n < 0), "m": trace.limbs(abs(n))}


def bytes_event(tid, p, ss=None):
    if ss is None:
        from vc2_conformance.pseudocode import slice_sizes as ss
    st = make_state(dict(p, lw=1, lh=1, cw=1, ch=1, d=0, dho=0))
    b = [ss.slice_bytes(st, x, y) for y in range(p["sy"]) for x in range(p["sx"])]
    big = p["sx"] * p["sy"] * max(p["num"], 1) >= 2 ** 30 or p["den"] >= 2 ** 30 or any(abs(v) >= 2 ** 30 for v in b)
    if big:
        return {"tid": tid, "ev": "bytesbig", "sx": p["sx"], "sy": p["sy"], "num": trace.limbs(p["num"]), "den": trace.limbs(p["den"]), "b": [signed(v) for v in b]}
    return {"tid": tid, "ev": "bytes", "sx": p["sx"], "sy": p["sy"], "num": p["num"], "den": p["den"], "b": b}


def geombig_event(tid, p, ss=None):
    """One axis with an extent of 50..100 bits (exact integer arithmetic is the only thing that survives here)."""
    if ss is None:
        from vc2_conformance.pseudocode import slice_sizes as ss
    d, dho, n, ns = p["d"], p["dho"], p["n"], p["ns"]
    x = p["axis"] == "x"
    st = make_state({"lw": n if x else 8, "lh": 8 if x else n, "cw": 8, "ch": 8, "d": d, "dho": dho, "sx": ns if x else 1, "sy": 1 if x else ns})
    f = ss.subband_width if x else ss.subband_height
    K = d + dho if x else d
    top = d + dho
    P = f(st, top + 1, "Y")
    lv = []
    for level in range(0, top + 1):
        # (13.2.3) level 0 and level 1 share the coarsest scale; horizontal-only levels do not halve the height
        if x:
            shift = K if level == 0 else K - level + 1
        else:
            shift = d if level <= dho else d - (level - dho) + 1
        lv.append([shift, trace.limbs(f(st, level, "Y"))])
    lo = [trace.limbs((ss.slice_left if x else ss.slice_top)(st, i, "Y", 0)) for i in range(ns)]
    hi = [trace.limbs((ss.slice_right if x else ss.slice_bottom)(st, i, "Y", 0)) for i in range(ns)]
    return {"tid": tid, "ev": "geombig", "axis": p["axis"], "n": trace.limbs(n), "K": K, "P": trace.limbs(P), "lv": lv, "lo": lo, "hi": hi, "d": d, "dho": dho}


def _record(job):
    tid, kind, p = job
    if kind == "geombig":
        return geombig_event(tid, p)
    return geom_event(tid, p) if kind == "geom" else bytes_event(tid, p)


# ----------------------------------------------------------------------------- inputs
def box_cfg(name, **consts):
    with open(os.path.join(tlc.SPEC, "mc", name)) as f:
        text = f.read()
    import re

    for k, v in consts.items():
        text, n = re.subn(r"(?m)^(\s*%s\s*=\s*)\d+" % k, r"\g<1>%d" % v, text)
        if n != 1:
            raise RuntimeError("constant %s not found in %s" % (k, name))
    return text


def tlc_representatives(ctx, box):
    """G: one configuration per abstract class, chosen by TLC; each carries the spec's tables."""
    res = tlc.run("SliceGeometry", box_cfg("SliceGeometryG.cfg", **box), dump=True, workers=WORKERS)
    ctx.add_tlc(res, "class representatives (VIEW ClassView, -dump)", dict(box))
    reps = []
    for st in tlaval.iter_dump(res.dump_path):
        if st["stage"] != "sliced":
            continue
        out = st["out"]
        p = {"lw": st["lw"], "lh": st["lh"], "cw": out["cw"], "ch": out["ch"], "d": st["d"], "dho": st["dho"], "sx": st["sx"], "sy": st["sy"]}
        reps.append((p, tlaval.to_jsonable(out)))
    return reps


def tlc_ld_cases(ctx, box):
    res = tlc.run("SliceGeometry", box_cfg("SliceGeometryLD.cfg", **box), dump=True, workers=WORKERS)
    ctx.add_tlc(res, "low-delay slice_bytes box (exhaustive, -dump)", dict(box))
    cases = []
    for st in tlaval.iter_dump(res.dump_path):
        if st["stage"] == "ld":
            cases.append(({"sx": st["sx"], "sy": st["sy"], "num": st["num"], "den": st["den"]}, list(st["out"]["bytes"])))
    return cases


def axis_box(rnd, maxv, maxd, maxs):
    """Every (extent, dwt_depth, dwt_depth_ho, slice count) of the box on each of the four axes
    (luma/chroma x width/height); the other entries vary pseudo-randomly inside the box."""
    out = []
    for axis in ("lw", "lh", "cw", "ch"):
        saxis = "sx" if axis.endswith("w") else "sy"
        for v in range(1, maxv + 1):
            for d in range(maxd + 1):
                for dho in range(maxd + 1):
                    for s in range(1, maxs + 1):
                        p = {k: rnd.randint(1, maxv) for k in ("lw", "lh", "cw", "ch")}
                        p.update(d=d, dho=dho, sx=rnd.randint(1, maxs), sy=rnd.randint(1, maxs))
                        p[axis] = v
                        p[saxis] = s
                        out.append(p)
    return out


REAL_FORMATS = [
    # (luma w, h, chroma w, h) of the base video formats / common sizes, incl. odd ones
    (176, 120, 88, 60), (352, 288, 176, 144), (720, 480, 360, 480), (720, 576, 360, 576), (1280, 720, 640, 720),
    (1920, 1080, 960, 1080), (2048, 1080, 2048, 1080), (3840, 2160, 1920, 2160), (4096, 2160, 2048, 1080),
    (7680, 4320, 3840, 4320), (1001, 999, 500, 499), (17, 33, 8, 16),
]


def random_cases(rnd, n_geom, n_bytes):
    geo = []
    for (lw, lh, cw, ch) in REAL_FORMATS:
        for _ in range(3):
            d, dho = rnd.randint(0, 4), rnd.randint(0, 2)
            geo.append(dict(lw=lw, lh=lh, cw=cw, ch=ch, d=d, dho=dho, sx=rnd.choice([1, 2, 3, 8, 15, 16, 20, 24, 30]), sy=rnd.choice([1, 2, 3, 5, 9, 17, 27, 30])))
    while len(geo) < n_geom:
        mode = rnd.randrange(5)
        d, dho = rnd.randint(0, 5), rnd.randint(0, 3)
        if mode == 4:  # component sizes of a real video format (4:4:4 / 4:2:2 / 4:2:0), few slices: the flag as
            # reported for a codec configuration (frames and fields) is recorded as well
            d, dho = rnd.randint(0, 2), rnd.randint(0, 1)
            cdf = rnd.randrange(3)
            lw, lh = 2 * rnd.randint(1, 24), rnd.randint(1, 24) * (2 if cdf == 2 else 1)
            p = {"lw": lw, "lh": lh, "cw": lw if cdf == 0 else lw // 2, "ch": lh // 2 if cdf == 2 else lh}
            p.update(sx=rnd.randint(1, 4), sy=rnd.randint(1, 4))
        elif mode == 0:  # large extents
            hi = 2 ** 29
            p = {k: rnd.randint(1, hi) for k in ("lw", "lh", "cw", "ch")}
            p.update(sx=rnd.randint(1, 24), sy=rnd.randint(1, 24))
        elif mode == 1:  # slices outnumber the DC coefficients
            p = {k: rnd.randint(1, 1 << (d + dho + 1)) for k in ("lw", "lh", "cw", "ch")}
            p.update(sx=rnd.randint(2, 12), sy=rnd.randint(2, 12))
        elif mode == 2:  # DC extent an exact multiple of the slice count on some axes only
            sx, sy = rnd.randint(1, 9), rnd.randint(1, 9)
            sc_w, sc_h = 1 << (d + dho), 1 << d
            p = {
                "lw": sc_w * sx * rnd.randint(1, 5) - rnd.choice([0, 0, 0, 1, sc_w]) or 1,
                "lh": sc_h * sy * rnd.randint(1, 5) - rnd.choice([0, 0, 0, 1, sc_h]) or 1,
                "cw": sc_w * sx * rnd.randint(1, 5) - rnd.choice([0, 0, 0, 1, sc_w]) or 1,
                "ch": sc_h * sy * rnd.randint(1, 5) - rnd.choice([0, 0, 0, 1, sc_h]) or 1,
                "sx": sx,
                "sy": sy,
            }
            p = {k: max(1, v) for k, v in p.items()}
        else:
            p = {k: rnd.randint(1, 300) for k in ("lw", "lh", "cw", "ch")}
            p.update(sx=rnd.randint(1, 20), sy=rnd.randint(1, 20))
        p.update(d=d, dho=dho)
        geo.append(p)
    byt = []
    while len(byt) < n_bytes:
        mode = rnd.randrange(3)
        sx, sy = rnd.randint(1, 12), rnd.randint(1, 12)
        if mode == 0:
            num, den = rnd.randint(1, 2 ** 20), rnd.randint(1, 2 ** 12)
            if sx * sy * num >= 2 ** 30:
                num = rnd.randint(1, 2 ** 22 // (sx * sy))
        elif mode == 1:
            num, den = rnd.randint(1, 2 ** 70), rnd.randint(1, 2 ** 40)
        else:
            num, den = rnd.randint(1, 50), rnd.randint(1, 50)
        byt.append(dict(sx=sx, sy=sy, num=num, den=den))
    return geo, byt


# ----------------------------------------------------------------------------- Apalache
APALACHE_DIR = os.path.join(tlc.SPEC, "apalache")


def apalache(module, inv, length=1, timeout=600, init="Init", nxt="Next", extra=()):
    """Run apalache-mc check on spec/apalache/<module>.tla.  Returns dict(status=ok|error|timeout, wall_s, cmd)."""
    wd = tlc.mkscratch("apa")
    shutil.copy(os.path.join(APALACHE_DIR, module + ".tla"), wd)
    for fn in extra:
        shutil.copy(os.path.join(tlc.SPEC, fn), wd)
    cmd = ["apalache-mc", "check", "--init=" + init, "--next=" + nxt, "--inv=" + inv, "--length=%d" % length, "--out-dir=" + os.path.join(wd, "out"), module + ".tla"]
    t0 = time.time()
    env = dict(os.environ)
    env.pop("JAVA_TOOL_OPTIONS", None)
    try:
        p = subprocess.run(["timeout", str(timeout)] + cmd, cwd=wd, env=env, stdout=subprocess.PIPE, stderr=subprocess.STDOUT, timeout=timeout + 30)
        out = p.stdout.decode("utf-8", "replace")
        rc = p.returncode
    except subprocess.TimeoutExpired:
        out, rc = "", 124
    r = {"module": module, "inv": inv, "length": length, "wall_s": round(time.time() - t0, 1), "cmd": " ".join(cmd[:-2] + [module + ".tla"])}
    if rc == 124:
        r["status"] = "timeout"
    elif "The outcome is: NoError" in out and rc == 0:
        r["status"] = "ok"
    elif "Checker has found an error" in out:
        r["status"] = "error"
    else:
        r["status"] = "failed"
        r["tail"] = out[-1500:]
    return r


class ApalacheJob(object):
    """Obligations run in a thread alongside the TLC/Python work."""

    def __init__(self, ctx, jobs):
        self.ctx = ctx
        self.jobs = jobs
        self.results = []
        self.th = threading.Thread(target=self._run)
        self.th.daemon = True
        self.th.start()

    def _run(self):
        for j in self.jobs:
            try:
                r = apalache(**j["args"])
            except Exception as e:  # noqa
                r = {"status": "failed", "tail": repr(e)}
            r["expect"] = j["expect"]
            r["what"] = j["what"]
            self.results.append(r)

    def finish(self):
        self.th.join()
        for r in self.results:
            if r["status"] == "timeout" and self.ctx.quick:
                continue  # optional in the quick tier (shared machine): reported, not fatal
            if r["status"] != r["expect"]:
                raise RuntimeError("Apalache obligation %s: expected %s, got %s\n%s" % (r["inv"], r["expect"], r["status"], r.get("tail", "")))
        return self.results


# ----------------------------------------------------------------------------- self-test of the binding
def selftest(sample_geom, sample_bytes):
    """A broken implementation (monkeypatched in this process, restored in finally) and a corrupted recorded
    field must both be rejected by the trace spec with the right clause."""
    from vc2_conformance.pseudocode import slice_sizes as ss

    want = []
    recs = []
    orig = ss.slice_right
    try:
        ss.slice_right = lambda state, sx, c, level: (ss.subband_width(state, level, c) * (sx + 1) + state["slices_x"] - 1) // state["slices_x"]
        p = dict(lw=10, lh=7, cw=5, ch=7, d=1, dho=0, sx=3, sy=2)
        recs.append(geom_event(1, p, ss))
        want.append((1, "PartitionX"))
    finally:
        ss.slice_right = orig
    orig = ss.slice_bytes
    try:
        ss.slice_bytes = lambda state, sx, sy: orig(state, sy, sx)  # axes swapped
        recs.append(bytes_event(2, dict(sx=3, sy=2, num=7, den=3), ss))
        want.append((2, "BytesSum"))
    finally:
        ss.slice_bytes = orig
    e = dict(sample_geom, tid=3, flag=not sample_geom["flag"])
    recs.append(e)
    want.append((3, "SameDimsFlag"))
    e = dict(sample_geom, tid=4)
    e["comps"] = [dict(c) for c in e["comps"]]
    e["comps"][1] = dict(e["comps"][1], sh=[v + 1 for v in e["comps"][1]["sh"]])
    recs.append(e)
    want.append((4, "SubbandDims"))
    recs.append(dict(sample_geom, tid=5))  # untouched: must be accepted
    bad, _ = trace.validate("SliceGeometryTrace", recs, env=XSS)
    got = sorted((b["tid"], b["clause"]) for b in bad if b["alarm"])
    if got != sorted(want):
        raise RuntimeError("C13 binding self-test failed: expected %s, trace spec reported %s" % (want, got))
    return {"mutants": "slice_right rounding up (in-process monkeypatch); slice_bytes with sx/sy swapped (monkeypatch)", "corrupted_fields": "flag negated; one component's recorded subband heights +1", "flagged": got, "untouched_copy_accepted": True}


# ----------------------------------------------------------------------------- run
def _cpu():
    a = resource.getrusage(resource.RUSAGE_SELF)
    b = resource.getrusage(resource.RUSAGE_CHILDREN)
    return a.ru_utime + a.ru_stime + b.ru_utime + b.ru_stime


def run(ctx):
    rnd = random.Random(ctx.seed * 7919 + 13)
    cpu0 = _cpu()
    jobs = [{"args": dict(module="MC_SliceGeometry", inv="Inv", length=1, timeout=ctx.pick(120, 900)), "expect": "ok", "what": "telescoping (inductive), non-negativity, partition start/end/contiguity/monotonicity, equal-iff-divisible, padding, level doubling -- for all naturals"}]
    if not ctx.quick:
        jobs.append({"args": dict(module="MC_SliceGeometry", inv="WrongSum", length=1, timeout=900), "expect": "error", "what": "negative control: a wrong telescoping sum must be refuted"})
    apa = ApalacheJob(ctx, [] if SKIP_MODEL else jobs)

    # (S) exhaustive model checking of the design
    box = ctx.pick(dict(MaxW=8, MaxH=8, MaxD=2, MaxDho=2, MaxS=4), dict(MaxW=24, MaxH=24, MaxD=3, MaxDho=3, MaxS=6))
    if not SKIP_MODEL:
        res = tlc.run("SliceGeometry", box_cfg("SliceGeometry.cfg", **box), workers=WORKERS)
        ctx.add_tlc(res, "exhaustive geometry box", dict(box))
    ldbox = dict(MaxS=ctx.pick(4, 6), MaxNum=12, MaxDen=12)
    # (G) TLC-chosen configurations run on the real code
    gbox = ctx.pick(box, dict(MaxW=12, MaxH=12, MaxD=3, MaxDho=3, MaxS=6))
    reps = tlc_representatives(ctx, gbox)
    lds = tlc_ld_cases(ctx, ldbox)
    if not reps or not lds:
        raise RuntimeError("TLC produced no configurations")
    jobs = []
    tid = 0
    origin = {}
    for p, _ in reps:
        tid += 1
        jobs.append((tid, "geom", p))
        origin[tid] = "tlc-class"
    for p, _ in lds:
        tid += 1
        jobs.append((tid, "bytes", p))
        origin[tid] = "tlc-ld"
    n_g = tid
    # (T) axis-exhaustive box, realistic formats, random large values
    ab = axis_box(rnd, ctx.pick(12, 24), ctx.pick(2, 3), ctx.pick(5, 6))
    geo, byt = random_cases(rnd, ctx.pick(150, 1500), ctx.pick(300, 3000))
    for p in ab:
        tid += 1
        jobs.append((tid, "geom", p))
        origin[tid] = "axis-box"
    for p in geo:
        tid += 1
        jobs.append((tid, "geom", p))
        origin[tid] = "random"
    for p in byt:
        tid += 1
        jobs.append((tid, "bytes", p))
        origin[tid] = "random"
    nbig = ctx.pick(120, 1200)
    for i in range(nbig):
        bits = rnd.choice([31, 40, 52, 53, 54, 60, 63, 64, 65, 80, 100])
        d, dho = rnd.randint(0, 4), rnd.randint(0, 3)
        n = rnd.getrandbits(bits) | (1 << (bits - 1))
        if rnd.random() < 0.3:
            n = ((n >> (d + dho)) << (d + dho)) + rnd.choice([0, 1, (1 << (d + dho)) - 1]) or 1
        tid += 1
        jobs.append((tid, "geombig", {"axis": rnd.choice("xy"), "n": n, "d": d, "dho": dho, "ns": rnd.randint(1, 5)}))
        origin[tid] = "random-big-extent"
    records = common.pmap(_record, jobs)

    # spec -> code comparison on the TLC-chosen cases (R1: logged, not an alarm)
    dis = 0
    for (p, out), ev in zip(reps, records[: len(reps)]):
        for cname, ci in (("Y", 0), ("C", 1), ("C", 2)):
            dims = out["dims"][cname]
            sw = [dims["sw"][str(l)] if isinstance(dims["sw"], dict) else dims["sw"][l] for l in range(p["d"] + p["dho"] + 1)]
            sh = [dims["sh"][str(l)] if isinstance(dims["sh"], dict) else dims["sh"][l] for l in range(p["d"] + p["dho"] + 1)]
            if ev["comps"][ci]["sw"] != sw or ev["comps"][ci]["sh"] != sh:
                dis += 1
        if ev["flag"] != out["flag"]:
            dis += 1
    for (p, want), ev in zip(lds, records[len(reps) : n_g]):
        if ev["ev"] != "bytes" or ev["b"] != want:
            dis += 1

    bad, tres = trace.validate("SliceGeometryTrace", records, env=XSS)
    ctx.add_tlc(tres, "trace validation (SliceGeometryTrace)")
    by_tid = {j[0]: j for j in jobs}
    tdis = 0
    for b in bad:
        j = by_tid[b["tid"]]
        if b["alarm"]:
            ctx.violation(
                "C13|%s|%s" % (b["clause"], "slice_bytes" if j[1] == "bytes" else "slice_sizes"),
                "%s: configuration %s: recorded values violate clause %s (component index, level = %s)" % (origin[j[0]], j[2], b["clause"], b.get("at")),
                {"kind": j[1], "p": j[2]},
            )
        else:
            tdis += 1
    sample_geom = records[0]
    # the self-test patches single functions of the code under test and relies on the others being intact; when
    # the run has already produced violations the binding is evidently live, so it is skipped (exit 1, not 2)
    st = selftest(sample_geom, records[len(reps)]) if not ctx.violations else {"skipped": "violations were found by the main run"}
    apar = apa.finish()

    nontrivial = set()
    for j, ev in zip(jobs, records):
        if j[1] == "geom":
            p = j[2]
            if p["d"] + p["dho"] > 0 and (p["sx"] > 1 or p["sy"] > 1):
                nontrivial.add(repr(sorted(p.items())))
        elif j[1] == "geombig":
            if j[2]["d"] + j[2]["dho"] > 0:
                nontrivial.add(repr(sorted(j[2].items())))
        elif (j[2]["num"] * j[2]["sx"] * j[2]["sy"]) % j[2]["den"] != 0 and j[2]["sx"] * j[2]["sy"] > 1:
            nontrivial.add(repr(sorted(j[2].items())))
    outnumber = sum(1 for j, ev in zip(jobs, records) if j[1] == "geom" and (j[2]["sx"] > ev["comps"][0]["sw"][0] or j[2]["sy"] > ev["comps"][0]["sh"][0]))
    reported = sum(1 for ev in records if ev["ev"] == "geom" and ev.get("cf_fields", -1) != -1)
    rep_true = sum(1 for ev in records if ev["ev"] == "geom" and ev.get("cf_fields", -1) == 1)
    if reported < 50 or rep_true == 0 or rep_true == reported:
        raise RuntimeError("vacuous run: flag reported through codec features for %d configurations (%d true)" % (reported, rep_true))
    flags = sum(1 for ev in records if ev["ev"] == "geom" and ev["flag"])
    ngeom = sum(1 for ev in records if ev["ev"] == "geom")
    if flags == 0 or flags == ngeom or outnumber == 0:
        raise RuntimeError("vacuous run: flag true %d of %d, slices outnumber coefficients in %d" % (flags, ngeom, outnumber))
    ctx.coverage.update(
        {
            "traces_validated_against_impl": len(records),
            "evaluations": len(records),
            "distinct_nontrivial": len(nontrivial),
            "rule": "one recorded configuration per trace line: TLC class representatives of SliceGeometry.tla (VIEW ClassView), every low-delay (slices_x, slices_y, numerator, denominator) of the TLC box, every (extent, depth, depth_ho, slice count) of the box on each of the four axes, realistic formats and random values; non-trivial = a geometry with at least one transform level and more than one slice, or a slice_bytes case with more than one slice whose total is not an exact multiple (the floor matters)",
            "exhaustive": True,
            "exhaustive_box": dict(box, **{"LD_" + k: v for k, v in ldbox.items()}),
            "g_box": gbox,
            "tlc_class_representatives": len(reps),
            "tlc_ld_cases": len(lds),
            "axis_box_cases": len(ab),
            "random_geometry_cases": len(geo),
            "random_slice_bytes_cases": len(byt),
            "bytesbig_cases": sum(1 for ev in records if ev["ev"] == "bytesbig"),
            "big_extent_cases_31_to_100_bits": sum(1 for ev in records if ev["ev"] == "geombig"),
            "cases_with_slices_outnumbering_dc_coefficients": outnumber,
            "cases_with_flag_true": flags,
            "cases_with_flag_reported_through_codec_features": reported,
            "spec_disagreements": dis + tdis,
            "binding_selftest": st,
            "apalache": apar,
            "cpu_s": round(_cpu() - cpu0, 1),
            "samples": [records[0], records[len(reps)], {k: v for k, v in records[-1].items()}, jobs[n_g + len(ab) + 40][2]],
        }
    )
    ctx.assumptions += [
        "TLC integers are 32-bit: geometry extents are sampled below 2^29; slice_bytes fractions up to 2^70 are judged with base-2^15 limb arithmetic written in TLA+ (spec/BigNat.tla)",
        "the state passed to the functions is a vc2_conformance State holding exactly the documented entries",
        "Apalache obligations are statements about the specification's formulas (unbounded naturals); the code is bound to them by the recorded values",
    ]


def replay(case):
    ev = _record((1, case["kind"], case["p"]))
    bad, _ = trace.validate("SliceGeometryTrace", [ev], env=XSS)
    return {"violations": [b for b in bad if b["alarm"]], "event": ev}
