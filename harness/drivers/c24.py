"""C24 -- test case generation is deterministic and schedule-independent.

Spec  : spec/TestCaseGen.tla (+ TestCaseGenOps.tla, generated TestCaseGenData.tla), spec/TestCaseGenTrace.tla
Model extraction (T): every REAL worker command of `vc2-test-case-generator --parallel` is executed under strace
  twice (cold: alone in an empty directory; warm: again in the directory it has just populated); the two syscall
  logs are projected to a per-worker list of file operations (makedirs/mkdir/creat/write/close/openr/stat/rename/
  unlink); TLC checks NoOpFails / FinalIsSerial / ObsIsSerial over ALL interleavings of every pair and of triples
  of the real workers, and the commutation lemma on an abstract instance.
Execution (G): TLC chooses schedules at command granularity (TestCaseGenSched.cfg: permutations / bounded
  concurrency); the driver runs the real worker commands accordingly (plus all-at-once under one strace, reverse,
  PYTHONHASHSEED variation, repeated serial run), hashes every output tree and records one trace per run; TLC
  (TestCaseGenTrace) judges every run: all workers exit 0, tree == tree of the serial (non --parallel) run.
"""
import concurrent.futures
import glob
import hashlib
import json
import os
import random
import re
import shutil
import subprocess
import sys
import time

from .. import common, tlc, tlaval, trace

PY = "/venv/bin/python"
CSV_CANDIDATES = ["tests/sample_codec_features.csv", "docs/source/_static/user_guide/sample_codec_features.csv"]
OUT = "out"  # relative output directory: the very same command strings are reusable in any cwd
SYSCALLS = (
    "mkdir,mkdirat,openat,open,creat,rename,renameat,renameat2,unlink,unlinkat,rmdir,write,pwrite64,writev,close,"
    "newfstatat,stat,lstat,access,faccessat,faccessat2,statx,link,linkat,symlink,symlinkat,truncate,ftruncate,chdir,"
    "getdents64,exit_group"
)
WORKER_SNIPPET = "from vc2_conformance.scripts.vc2_test_case_generator.worker import main; main([%r])"
CLI_SNIPPET = "import sys; from vc2_conformance.scripts.vc2_test_case_generator.cli import main; sys.exit(main(%r))"


_CSV_OVERRIDE = [None]


def csv_path():
    if _CSV_OVERRIDE[0]:
        return _CSV_OVERRIDE[0]
    for c in CSV_CANDIDATES:
        p = os.path.join(common.REPO, c)
        if os.path.exists(p):
            return p
    raise RuntimeError("sample codec features CSV not found under %s" % common.REPO)


def write_custom_qm_csv(root, codec, matrix="0 1 1 2"):
    """The sample CSV with an EXPLICIT quantisation matrix in column `codec` (a transform for which a default
    matrix also exists): generators that switch between the custom and the default matrix are then exercised,
    and a generator that modified the shared configuration in place would change what later generators see in
    the serial run but not in the per-process workers."""
    import csv

    _CSV_OVERRIDE[0] = None
    with open(csv_path(), newline="") as f:
        rows = list(csv.reader(f))
    col = None
    for r in rows:
        if r and r[0] == "name":
            col = r.index(codec)
    done = False
    for r in rows:
        if r and r[0] == "quantization_matrix" and col is not None:
            r[col] = matrix
            done = True
    if not done:
        raise RuntimeError("could not set quantization_matrix of %s in the sample CSV" % codec)
    # a second configuration: the same column made LOSSLESS (no picture_bytes) and given another pixel aspect ratio
    # (same frame size), under the name <codec>-lossless
    if col is not None:
        for r in rows:
            if r and len(r) > col and not r[0].startswith("#"):
                r.append({"name": codec + "-lossless", "lossless": "TRUE", "picture_bytes": "", "pixel_aspect_ratio_numer": "4", "pixel_aspect_ratio_denom": "3"}.get(r[0], r[col]))
            elif r:
                r.append("")
    out = os.path.join(root, "codec_features_custom_qm.csv")
    with open(out, "w", newline="") as f:
        csv.writer(f).writerows(rows)
    _CSV_OVERRIDE[0] = out
    return out


def child_env(hashseed=0):
    e = dict(os.environ)
    e["PYTHONPATH"] = common.REPO
    e["PYTHONHASHSEED"] = str(hashseed)
    e["PYTHONDONTWRITEBYTECODE"] = "1"
    # numpy's BLAS spawns one spinning thread per core in every worker; 26 workers x 16 threads on a shared
    # box is pure contention.  Environment only -- the commands themselves are untouched.
    for v in ("OPENBLAS_NUM_THREADS", "OMP_NUM_THREADS", "MKL_NUM_THREADS"):
        e[v] = "1"
    e.pop("JAVA_TOOL_OPTIONS", None)
    return e


class ProcResult(object):
    def __init__(self, rc, wall, err):
        self.rc = rc
        self.wall = wall
        self.err = err


def _run(argv, cwd, hashseed=0, timeout=5400, stdout=None):
    t0 = time.time()
    p = subprocess.run(argv, cwd=cwd, env=child_env(hashseed), stdout=stdout or subprocess.DEVNULL, stderr=subprocess.PIPE, timeout=timeout)
    return ProcResult(p.returncode, time.time() - t0, p.stderr.decode("utf-8", "replace")[-1500:]), p


def gen_commands(codec, cwd, hashseed=0, extra=()):
    """The real `vc2-test-case-generator CSV --parallel --codecs <codec> --output out` -> list of worker codes."""
    args = [csv_path(), "--parallel", "--codecs", codec, "--output", OUT] + list(extra)
    r, p = _run([PY, "-c", CLI_SNIPPET % (args,)], cwd, hashseed, stdout=subprocess.PIPE)
    if r.rc != 0:
        raise RuntimeError("vc2-test-case-generator --parallel failed (rc %d): %s" % (r.rc, r.err))
    codes = []
    for line in p.stdout.decode().splitlines():
        parts = line.split()
        if len(parts) == 2 and parts[0] == "vc2-test-case-generator-worker":
            codes.append(parts[1])
        elif line.strip():
            raise RuntimeError("unexpected line from --parallel: %r" % line[:200])
    return codes


def run_serial(codec, cwd, hashseed=0, extra=()):
    """The non-parallel generator (one process): the reference tree."""
    args = [csv_path(), "--codecs", codec, "--output", OUT] + list(extra)
    r, _ = _run([PY, "-c", CLI_SNIPPET % (args,)], cwd, hashseed)
    return r


def worker_argv(code, strace_log=None):
    argv = [PY, "-P", "-c", WORKER_SNIPPET % code]
    if strace_log:
        argv = ["strace", "-f", "-y", "-s", "0", "-o", strace_log, "-e", "trace=" + SYSCALLS] + argv
    return argv


def run_worker(code, cwd, hashseed=0, strace_log=None):
    r, _ = _run(worker_argv(code, strace_log), cwd, hashseed)
    return r


def hash_tree(root):
    """relative path -> 'DIR' | sha256 hex of the bytes (symlinks: 'LINK:<target>')"""
    out = {}
    base = os.path.join(root, OUT)
    if not os.path.isdir(base):
        return out
    for d, dirs, files in os.walk(base):
        rel = os.path.relpath(d, root)
        out[rel] = "DIR"
        for f in files:
            p = os.path.join(d, f)
            if os.path.islink(p):
                out[os.path.relpath(p, root)] = "LINK:" + os.readlink(p)
            else:
                with open(p, "rb") as fh:
                    out[os.path.relpath(p, root)] = hashlib.sha256(fh.read()).hexdigest()
        for f in dirs:
            p = os.path.join(d, f)
            if os.path.islink(p):
                out[os.path.relpath(p, root)] = "LINK:" + os.readlink(p)
    return out


def worker_name(code):
    """Human-readable identity of a worker command (decoding the pickle in-process: names only)."""
    from vc2_conformance.scripts.vc2_test_case_generator.worker import decode

    fn = decode(code)
    try:
        a = fn.args
        kind = "enc" if "encoder" in a[1].__name__ else "dec"
        return "%s:%s" % (kind, a[4].args[0].__name__)
    except Exception:
        return "worker"


# ------------------------------------------------------------------------------------------ strace projection
_LINE = re.compile(r"^(\d+)\s+(.*)$")
_CALL = re.compile(r"^(\w+)\((.*)\)\s+=\s+(-?\d+|\?)(?:<([^>]*)>)?\s*(\w+)?")
_STR = re.compile(r'"((?:[^"\\]|\\.)*)"')
_FD = re.compile(r"^(\d+|AT_FDCWD)<([^>]*)>")
_UNFIN = re.compile(r"^(\w+)\((.*) <unfinished \.\.\.>$")
_RESUMED = re.compile(r"^<\.\.\. (\w+) resumed>(.*)$")
_EXIT = re.compile(r"^\+\+\+ (exited with (\d+)|killed by (\w+))")

STAT_CALLS = ("newfstatat", "stat", "lstat", "access", "faccessat", "faccessat2", "statx")


def _unescape(s):
    if "\\" not in s:
        return s
    return s.encode("latin-1", "backslashreplace").decode("unicode_escape")


def iter_syscalls(path):
    """Yield (pid, name, argtext, ret:int|None, errno:str|None) with unfinished/resumed lines joined."""
    pending = {}
    with open(path, errors="replace") as f:
        for raw in f:
            m = _LINE.match(raw.rstrip("\n"))
            if not m:
                continue
            pid, rest = int(m.group(1)), m.group(2)
            mu = _UNFIN.match(rest)
            if mu:
                pending[pid] = (mu.group(1), mu.group(2))
                continue
            mr = _RESUMED.match(rest)
            if mr:
                name, head = pending.pop(pid, (mr.group(1), ""))
                rest = "%s(%s%s" % (name, head, mr.group(2))
            me = _EXIT.match(rest)
            if me:
                yield pid, "+exit", "", int(me.group(2)) if me.group(2) else -1, me.group(3)
                continue
            mc = _CALL.match(rest)
            if not mc:
                continue
            ret = None if mc.group(3) == "?" else int(mc.group(3))
            err = mc.group(5) if (ret is not None and ret < 0) else None
            yield pid, mc.group(1), mc.group(2), ret, err


def project_strace(path, root):
    """strace log of ONE run rooted at `root` (cwd of the workers) -> list of primitive events
    {pid, k, p[, q], r, fl}; only paths inside <root>/out are kept (the output tree)."""
    root = os.path.realpath(root)
    base = os.path.join(root, OUT)

    def rel(p, cwd):
        if p is None:
            return None
        if not p.startswith("/"):
            p = os.path.join(cwd, p)
        p = os.path.normpath(p)
        if p == base or p.startswith(base + "/"):
            return tuple(os.path.relpath(p, root).split("/"))
        return None

    evs = []
    cwd = {}
    outside_writes = set()
    for pid, name, args, ret, err in iter_syscalls(path):
        c = cwd.get(pid, root)
        if name == "+exit":
            evs.append({"pid": pid, "k": "exit", "p": (), "r": "ok" if ret == 0 else "rc%d" % ret})
            continue
        if name == "chdir":
            s = _STR.search(args)
            if s and ret == 0:
                cwd[pid] = os.path.normpath(os.path.join(c, _unescape(s.group(1))))
            continue
        r = "ok" if (ret is not None and ret >= 0) else (err or "ERR")
        strs = [_unescape(x) for x in _STR.findall(args)]
        fdm = _FD.match(args)
        if name in ("mkdir", "mkdirat"):
            p = rel(strs[0], fdm.group(2) if (fdm and name == "mkdirat") else c) if strs else None
            if p:
                evs.append({"pid": pid, "k": "mkdir", "p": p, "r": r})
        elif name in ("openat", "open", "creat"):
            p = rel(strs[0], fdm.group(2) if (fdm and name == "openat") else c) if strs else None
            flags = args.rsplit('"', 1)[-1]
            wr = name == "creat" or "O_WRONLY" in flags or "O_RDWR" in flags or "O_CREAT" in flags
            if p:
                if "O_DIRECTORY" in flags:
                    evs.append({"pid": pid, "k": "listdir", "p": p, "r": r})
                elif wr:
                    x = 2 if "O_EXCL" in flags else (1 if ("O_TRUNC" in flags or name == "creat") else 0)
                    evs.append({"pid": pid, "k": "creat", "p": p, "r": r, "x": x})
                else:
                    evs.append({"pid": pid, "k": "openr", "p": p, "r": r})
            elif wr and strs and ret is not None and ret >= 0 and not strs[0].startswith(("/dev/", "/proc/")):
                outside_writes.add(os.path.normpath(os.path.join(c, strs[0])))
        elif name in ("write", "pwrite64", "writev", "ftruncate"):
            if fdm:
                p = rel(fdm.group(2), c)
                if p:
                    evs.append({"pid": pid, "k": "write", "p": p, "r": r})
        elif name == "close":
            if fdm:
                p = rel(fdm.group(2), c)
                if p:
                    evs.append({"pid": pid, "k": "close", "p": p, "r": r})
        elif name in STAT_CALLS:
            if fdm and strs and strs[0] == "":
                continue  # fstat on an open descriptor
            if strs:
                p = rel(strs[0], fdm.group(2) if fdm else c)
                if p:
                    evs.append({"pid": pid, "k": "stat", "p": p, "r": "present" if r == "ok" else "absent"})
        elif name in ("rename", "renameat", "renameat2", "link", "linkat", "symlink", "symlinkat"):
            if len(strs) >= 2:
                a, b = rel(strs[0], c), rel(strs[1], c)
                if a or b:
                    evs.append({"pid": pid, "k": "rename" if name.startswith("rename") else "link", "p": a or ("<outside>",), "q": b or ("<outside>",), "r": r})
        elif name in ("unlink", "unlinkat", "rmdir", "truncate"):
            if strs:
                p = rel(strs[0], fdm.group(2) if fdm else c)
                if p:
                    k = "rmdir" if (name == "rmdir" or "AT_REMOVEDIR" in args) else ("unlink" if name != "truncate" else "write")
                    evs.append({"pid": pid, "k": k, "p": p, "r": r})
    return evs, sorted(outside_writes)


# ------------------------------------------------------------------------------------------ model extraction
def _is_anc(a, p):
    """a is a proper ancestor of p"""
    return len(a) < len(p) and p[: len(a)] == a


def main_pid(evs):
    return evs[0]["pid"] if evs else None


def warm_calls(warm):
    """In the warm run every directory exists, so every os.makedirs/os.mkdir call is exactly one mkdir system
    call returning EEXIST (no recursion): list of (path, has_parent_check, tolerated)."""
    calls = []
    mp = main_pid(warm)
    main_ok = any(e["k"] == "exit" and e["pid"] == mp and e["r"] == "ok" for e in warm)
    body = [e for e in warm if e["k"] != "exit"]
    for i, e in enumerate(body):
        if e["k"] != "mkdir":
            continue
        head = i > 0 and body[i - 1]["k"] == "stat" and body[i - 1]["p"] == e["p"][:-1]
        rest = body[i + 1 :]
        if rest and rest[0]["k"] == "stat" and rest[0]["p"] == e["p"]:
            rest = rest[1:]
        tolerated = e["r"] == "EEXIST" and (bool(rest) or main_ok)
        calls.append((e["p"], head, tolerated, e["r"]))
    return calls


def build_prog(cold, warm, fine):
    """cold/warm: projected strace events of one worker -> (ops, info).  ops: list of dict(k,p,q,x)."""
    calls = warm_calls(warm)
    mp = main_pid(cold)
    body = [e for e in cold if e["k"] != "exit"]
    rc_ok = any(e["k"] == "exit" and e["pid"] == mp and e["r"] == "ok" for e in cold)
    ops = []
    info = {"makedirs": 0, "standalone_stat": 0, "standalone_mkdir": 0, "guardmk": 0, "unmatched_warm_calls": 0, "cold_eexist": 0}
    n = len(body)
    i = 0
    j = 0
    wopen = {}

    def op(k, p, q=(), x=0):
        ops.append({"k": k, "p": list(p), "q": list(q), "x": x})

    while i < n:
        e = body[i]
        k = e["k"]
        if k in ("stat", "mkdir") and j < len(calls):
            p, head, tol, _ = calls[j]
            t = i
            grew = False
            while t < n and body[t]["k"] == "stat" and _is_anc(body[t]["p"], p):
                t += 1
                grew = True
            while t < n and body[t]["k"] == "mkdir" and _is_anc(body[t]["p"], p):
                t += 1
                grew = True
            if t < n and body[t]["k"] == "mkdir" and body[t]["p"] == p and body[t]["r"] in ("ok", "EEXIST"):
                if body[t]["r"] == "EEXIST":
                    info["cold_eexist"] += 1
                    t += 1
                    if t < n and body[t]["k"] == "stat" and body[t]["p"] == p:
                        t += 1
                        tol = True
                else:
                    t += 1
                op("makedirs" if (head or grew) else "mkdir", p, x=1 if tol else 0)
                info["makedirs"] += 1
                i = t
                j += 1
                continue
        if k == "stat":
            op("stat", e["p"], x=1 if e["r"] == "present" else 0)
            info["standalone_stat"] += 1
        elif k == "mkdir":
            if ops and ops[-1]["k"] == "stat" and tuple(ops[-1]["p"]) == e["p"] and ops[-1]["x"] == 0:
                ops.pop()
                info["standalone_stat"] -= 1
                op("guardmk", e["p"])
                info["guardmk"] += 1
            else:
                tol = e["r"] == "EEXIST" and (i + 1 < n or rc_ok)
                op("mkdir", e["p"], x=1 if tol else 0)
                info["standalone_mkdir"] += 1
        elif k == "creat":
            if e["r"] != "ok":
                op("creat", e["p"], x=e.get("x", 1))
            else:
                t = i + 1
                while t < n and body[t]["k"] == "write" and body[t]["p"] == e["p"]:
                    t += 1
                contiguous = t < n and body[t]["k"] == "close" and body[t]["p"] == e["p"]
                if contiguous and not fine and e.get("x", 1) == 1:
                    op("put", e["p"])
                    i = t + 1
                    continue
                op("creat", e["p"], x=e.get("x", 1))
                wopen[e["p"]] = wopen.get(e["p"], 0) + 1
        elif k == "write":
            if not (ops and ops[-1]["k"] == "write" and tuple(ops[-1]["p"]) == e["p"]):
                op("write", e["p"])
        elif k == "close":
            if wopen.get(e["p"], 0) > 0:
                wopen[e["p"]] -= 1
                op("closew", e["p"])
        elif k in ("openr", "listdir", "unlink", "rmdir"):
            op(k, e["p"])
        elif k in ("rename", "link"):
            op(k, e["p"], e["q"])
        i += 1
    info["unmatched_warm_calls"] = len(calls) - j
    op("exit", (), x=1 if rc_ok else 0)
    return ops, info


def tla_str(s):
    return '"' + s.replace("\\", "\\\\").replace('"', '\\"') + '"'


def tla_path(p):
    return "<<" + ", ".join(tla_str(c) for c in p) + ">>"


def tla_op(o):
    return "[k |-> %s, p |-> %s, q |-> %s, x |-> %d]" % (tla_str(o["k"]), tla_path(o["p"]), tla_path(o["q"]), o["x"])


def write_data_module(progs, groups):
    """TestCaseGenData.tla for this run (overrides the placeholder in spec/ inside TLC's working directory)."""
    d = tlc.mkscratch("c24mc")
    path = os.path.join(d, "TestCaseGenData.tla")
    with open(path, "w") as f:
        f.write("---- MODULE TestCaseGenData ----\n(* generated by harness/drivers/c24.py from strace logs of the real worker commands *)\n")
        f.write("Prog == <<\n")
        f.write(",\n".join("  <<" + ",\n    ".join(tla_op(o) for o in ops) + ">>" for ops in progs))
        f.write("\n>>\nGroupSeq == <<" + ", ".join("<<" + ", ".join(str(w) for w in g) + ">>" for g in groups) + ">>\n====\n")
    return path


def extract_worker(args):
    """cold run (alone, empty directory) then warm run (same directory, now populated), both under strace."""
    idx, code, root, hashseed = args
    d = os.path.join(root, "w%02d" % idx)
    os.makedirs(d)
    cold_log = os.path.join(d, "cold.st")
    warm_log = os.path.join(d, "warm.st")
    rc = run_worker(code, d, hashseed, cold_log)
    cold_tree = hash_tree(d)
    rw = run_worker(code, d, hashseed, warm_log)
    warm_tree = hash_tree(d)
    cold, ow1 = project_strace(cold_log, d)
    warm, ow2 = project_strace(warm_log, d)
    return {
        "idx": idx,
        "dir": d,
        "cold_rc": rc.rc,
        "warm_rc": rw.rc,
        "cold_err": rc.err[-600:],
        "warm_err": rw.err[-600:],
        "cold": cold,
        "warm": warm,
        "cold_tree": cold_tree,
        "warm_tree": warm_tree,
        "outside_writes": sorted(set(ow1) | set(ow2)),
        "wall": rc.wall + rw.wall,
    }


# ------------------------------------------------------------------------------------------ executing schedules
XSS = {"JAVA_TOOL_OPTIONS": "-Xss512m"}  # RunW/RunSeq recurse once per file operation
LAUNCHER = r"""
import json, os, subprocess, sys
spec = json.load(open(sys.argv[1]))
ps = []
for w in spec["workers"]:
    env = dict(os.environ); env["PYTHONHASHSEED"] = str(w["seed"])
    ps.append((w["w"], subprocess.Popen(w["argv"], env=env, stdout=subprocess.DEVNULL, stderr=open(w["err"], "wb"))))
json.dump({"pids": {str(p.pid): w for w, p in ps}}, open(sys.argv[2] + ".pids", "w"))
json.dump({"rcs": {str(w): p.wait() for w, p in ps}}, open(sys.argv[2], "w"))
"""


def path_list(p):
    return p.split("/")


def tree_diff(tree, ref, restrict=None):
    """Compare a hashed tree with the reference (serial) tree, optionally restricted to `restrict` paths."""
    keys_ref = set(ref) if restrict is None else set(k for k in ref if k in restrict)
    missing = sorted(k for k in keys_ref if k not in tree)
    extra = sorted(k for k in tree if k not in keys_ref)
    differ = sorted(k for k in keys_ref if k in tree and tree[k] != ref[k])
    return missing, extra, differ


def run_schedule(spec):
    """Execute one schedule with the real worker commands.
    spec: dir, codes (list), members (list of global worker indices, position = local id 1..n), sched (list of
    ["S"|"E", local id]), par, seeds (list per local id), kind, tid, strace (bool: all under ONE strace, sched must be
    all-S-then-all-E).  Returns events (without tree event), tree."""
    d = spec["dir"]
    os.makedirs(d)
    codes = spec["codes"]
    members = spec["members"]
    n = len(members)
    ev = [{"tid": spec["tid"], "ev": "begin", "kind": spec["kind"], "n": n, "par": spec["par"]}]
    rcs = {}
    errs = {}
    if spec.get("strace"):
        js = {"workers": [{"w": i + 1, "argv": worker_argv(codes[members[i]]), "seed": spec["seeds"][i], "err": os.path.join(d, "err%d.txt" % (i + 1))} for i in range(n)]}
        with open(os.path.join(d, "launch.json"), "w") as f:
            json.dump(js, f)
        log = os.path.join(d, "all.st")
        argv = ["strace", "-f", "-y", "-s", "0", "-o", log, "-e", "trace=" + SYSCALLS, PY, "-P", "-c", LAUNCHER, os.path.join(d, "launch.json"), os.path.join(d, "rcs.json")]
        r, _ = _run(argv, d, 0, timeout=3000)
        if r.rc != 0 or not os.path.exists(os.path.join(d, "rcs.json")):
            raise RuntimeError("launcher failed: rc %s %s" % (r.rc, r.err))
        with open(os.path.join(d, "rcs.json")) as f:
            rcs = {int(k): v for k, v in json.load(f)["rcs"].items()}
        with open(os.path.join(d, "rcs.json.pids")) as f:
            pids = {int(k): v for k, v in json.load(f)["pids"].items()}
        for i in range(n):
            ev.append({"tid": spec["tid"], "ev": "start", "w": i + 1})
        prim, _ = project_strace(log, d)
        unknown = 0
        for e in prim:
            if e["k"] == "exit":
                continue
            w = pids.get(e["pid"], 0)
            if w == 0:
                unknown += 1
            ev.append({"tid": spec["tid"], "ev": "op", "w": w, "k": e["k"], "p": list(e["p"]), "q": list(e.get("q", ())), "x": e.get("x", 0), "r": e["r"]})
        for i in range(n):
            ev.append({"tid": spec["tid"], "ev": "end", "w": i + 1, "rc": rcs.get(i + 1, -99)})
            try:
                errs[i + 1] = open(os.path.join(d, "err%d.txt" % (i + 1)), errors="replace").read()[-800:]
            except OSError:
                errs[i + 1] = ""
        spec["unknown_pid_ops"] = unknown
    else:
        procs = {}
        for a, w in spec["sched"]:
            if a == "S":
                ef = open(os.path.join(d, "err%d.txt" % w), "wb")
                procs[w] = (subprocess.Popen(worker_argv(codes[members[w - 1]]), cwd=d, env=child_env(spec["seeds"][w - 1]), stdout=subprocess.DEVNULL, stderr=ef), ef)
                ev.append({"tid": spec["tid"], "ev": "start", "w": w})
            else:
                p, ef = procs[w]
                rcs[w] = p.wait(timeout=3000)
                ef.close()
                errs[w] = open(os.path.join(d, "err%d.txt" % w), errors="replace").read()[-800:]
                ev.append({"tid": spec["tid"], "ev": "end", "w": w, "rc": rcs[w]})
    return {"events": ev, "tree": hash_tree(d), "rcs": rcs, "errs": errs, "spec": {k: v for k, v in spec.items() if k != "codes"}}


def tree_event(tid, tree, ref, restrict=None, with_paths=True):
    missing, extra, differ = tree_diff(tree, ref, restrict)
    return {
        "tid": tid,
        "ev": "tree",
        "missing": [path_list(p) for p in missing],
        "extra": [path_list(p) for p in extra],
        "differ": [path_list(p) for p in differ],
        "nfiles": sum(1 for v in tree.values() if v != "DIR"),
        "files": [path_list(p) for p, v in sorted(tree.items()) if v != "DIR"] if with_paths else [],
        "dirs": [path_list(p) for p, v in sorted(tree.items()) if v == "DIR"] if with_paths else [],
    }


def serial_job(args):
    d, codec, seed = args
    os.makedirs(d)
    r = run_serial(codec, d, seed)
    return {"rc": r.rc, "err": r.err, "tree": hash_tree(d), "wall": r.wall}


def ancestors_closure(paths):
    out = set()
    for p in paths:
        parts = p.split("/")
        for i in range(1, len(parts) + 1):
            out.add("/".join(parts[:i]))
    return out


def sched_exhaustive(n, par):
    res = tlc.run("TestCaseGenSched", "SPECIFICATION Spec\nCONSTANTS\n  N = %d\n  P = %d\nINVARIANT TypeOK\nINVARIANT WellFormed\nCHECK_DEADLOCK FALSE\n" % (n, par), dump=True)
    hs = []
    for st in tlaval.iter_dump(res.dump_path):
        if len(st["finished"]) == n:
            hs.append([[a, int(w)] for a, w in st["hist"]])
    hs.sort()
    return res, hs


def iter_sim(path):
    """States of a TLC -simulate trace file (tlaval.iter_dump chokes on the action comments between states)."""
    with open(path) as f:
        txt = "".join(l for l in f if not l.startswith(("\\*", "====", "----")))
    q = path + ".clean"
    with open(q, "w") as f:
        f.write(txt)
    return list(tlaval.iter_dump(q))


def sched_simulate(n, par, num, seed):
    res = tlc.run("TestCaseGenSched", "SPECIFICATION Spec\nCONSTANTS\n  N = %d\n  P = %d\nINVARIANT TypeOK\nCHECK_DEADLOCK FALSE\n" % (n, par), simulate=num, depth=2 * n + 1, seed=seed, workers=1)
    hs = []
    for p in sorted(glob.glob(os.path.join(res.sim_dir, "tr*"))):
        sts = iter_sim(p)
        if sts and len(sts[-1]["finished"]) == n:
            hs.append([[a, int(w)] for a, w in sts[-1]["hist"]])
    return res, hs


# ------------------------------------------------------------------------------------------ TLC interleaving model
def parse_error_trace(out):
    """States of the counterexample TLC printed (list of dicts)."""
    m0 = re.search(r"is violated by the initial state:\n", out)
    if m0:
        txt = "State 1: <Initial predicate>\n" + out[m0.end() :]
    else:
        i = out.find("State 1:")
        if i < 0:
            return []
        txt = out[i:]
    keep = []
    for line in txt.splitlines():
        if line.startswith(("State ", "/\\ ", " ", "\t")) or not line.strip():
            keep.append(line)
        else:
            break
    txt = "\n".join(keep) + "\n"
    d = tlc.mkscratch("cex")
    p = os.path.join(d, "cex.txt")
    with open(p, "w") as f:
        f.write(txt)
    return list(tlaval.iter_dump(p))


def _loc(st, w, g):
    loc = st["loc"]
    if isinstance(loc, dict):
        return loc[w]
    return loc[w - 1]  # TLC prints a function with domain 1..n as a tuple


def real_call(l, op):
    """The Python-level call that realises one step of the model: [kind, path] or None (no call)."""
    if l["stk"]:
        top = l["stk"][-1]
        p, ph = list(top["p"]), str(top["ph"])
    else:
        p, ph = list(op["p"]), {"makedirs": "chk", "mkdir": "mk", "guardmk": "isdir", "creat": "open", "put": "open", "openr": "open", "stat": "isdir"}.get(op["k"])
    if ph == "chk":
        return ["stat", "/".join(p[:-1])] if len(p) > 1 else None
    if ph in ("mk", "gmk"):
        return ["mkdir", "/".join(p)]
    if ph == "isdir":
        return ["stat", "/".join(p)]
    if ph == "open":
        return ["open", "/".join(p)]
    return None


def describe_cex(states, progs, names, groups):
    """(group, schedule) of a counterexample: which worker stepped in each transition and where it was."""
    if not states:
        return None
    g = groups[int(states[0]["gi"]) - 1]
    steps = []
    failed = None
    for a, b in zip(states, states[1:]):
        for w in g:
            la, lb = _loc(a, w, g), _loc(b, w, g)
            if la != lb:
                op = progs[w - 1][int(la["pc"]) - 1]
                ph = lb["stk"][-1]["ph"] if lb["stk"] else ""
                steps.append({"w": w, "pc": int(la["pc"]), "k": op["k"], "p": "/".join(op["p"]), "call": real_call(la, op), "then": ph or ("FAIL:" + lb["fail"] if lb["fail"] else "done")})
                if lb["fail"] and not la["fail"]:
                    failed = {"w": w, "name": names[w - 1], "error": lb["fail"], "op": op}
    return {"group": list(g), "names": [names[w - 1] for w in g], "steps": steps, "failed": failed}


def model_check(ctx, progs, names, groups, label, cfg="mc/TestCaseGen.cfg"):
    data = write_data_module(progs, groups)
    res = tlc.run("TestCaseGen", cfg, extra_files=[data], env=XSS, allow_invariant_violation=True, timeout=3400)
    ctx.add_tlc(res, label, {"workers": len(progs), "groups": len(groups), "ops": sum(len(p) for p in progs), "cfg": cfg})
    cex = None
    if res.invariant_violated:
        cex = describe_cex(parse_error_trace(res.out), progs, names, groups)
        if cex is None:
            raise RuntimeError("TLC reported %s but the counterexample could not be parsed\n%s" % (res.invariant_violated, res.out[-2000:]))
        cex["invariant"] = res.invariant_violated
    return res, cex


def pick_groups(n, ntriples, rnd, prefer=None):
    import itertools

    groups = list(itertools.combinations(range(1, n + 1), 2))
    tr = list(itertools.combinations(range(1, n + 1), 3))
    rnd.shuffle(tr)
    groups += sorted(tr[:ntriples])
    return groups


def model_selftest(progs, names):
    """A corrupted extracted model (one tolerant makedirs of a shared directory replaced by check-then-act) must be
    rejected by TLC with NoOpFails; a second one (two workers writing the same file) with FinalIsSerial."""
    import copy

    cand = [i for i, p in enumerate(progs) if p and p[0]["k"] == "makedirs" and names[i].startswith("dec:")]
    if len(cand) < 2:
        raise RuntimeError("model self-test: fewer than two decoder workers start with makedirs")
    a, b = cand[0], cand[1]
    pa, pb = copy.deepcopy(progs[a]), copy.deepcopy(progs[b])
    def chain(op):  # makedirs(a/b/c, exist_ok) -> if not exists(a): mkdir(a); if not exists(a/b): ... (check-then-act)
        return [{"k": "guardmk", "p": op["p"][: i + 1], "q": [], "x": 0} for i in range(len(op["p"]))]

    pa[0:1] = chain(pa[0])
    pb[0:1] = chain(pb[0])
    d1 = write_data_module([pa, pb], [(1, 2)])
    r1 = tlc.run("TestCaseGen", "mc/TestCaseGen.cfg", extra_files=[d1], env=XSS, allow_invariant_violation=True, coverage=False)
    pa, pb = copy.deepcopy(progs[a]), copy.deepcopy(progs[b])
    tgt = next(o for o in pa if o["k"] in ("put", "creat"))
    k = next(i for i, o in enumerate(pb) if o["k"] in ("put", "creat"))
    pb.insert(k + (3 if pb[k]["k"] == "creat" else 1), {"k": "put", "p": tgt["p"], "q": [], "x": 0})
    d2 = write_data_module([pa, pb], [(1, 2)])
    r2 = tlc.run("TestCaseGen", "mc/TestCaseGen.cfg", extra_files=[d2], env=XSS, allow_invariant_violation=True, coverage=False)
    out = {"check_then_act_mkdir": r1.invariant_violated, "same_file_two_writers": r2.invariant_violated}
    if r1.invariant_violated is None or r2.invariant_violated is None:
        raise RuntimeError("model binding self-test failed: %r" % (out,))
    return out


# ------------------------------------------------------------------------------------------ the check
def _exc_type(err):
    for line in reversed([x for x in (err or "").strip().splitlines() if x.strip()]):
        m = re.match(r"^([A-Za-z_][\w.]*(?:Error|Exception|Exit|Interrupt))\b", line.strip())
        if m:
            return m.group(1).split(".")[-1]
    return "unknown"


def judge_runs(ctx, runs, ref, restrict_of, label):
    """runs: list of results of run_schedule / synthetic runs (events, tree, spec); one TLC trace validation."""
    records = []
    by_tid = {}
    for r in runs:
        tid = r["spec"]["tid"]
        by_tid[tid] = r
        records += r["events"]
        records.append(tree_event(tid, r["tree"], ref, restrict_of(r), with_paths=bool(r["spec"].get("strace"))))
    bad, res = trace.validate("TestCaseGenTrace", records)
    ctx.add_tlc(res, label)
    alarms, dis = [], []
    for b in bad:
        (alarms if b["alarm"] else dis).append(b)
    return records, alarms, dis, by_tid


def case_of(r, codec, gen_seed):
    s = r["spec"]
    return {"codec": codec, "gen_seed": gen_seed, "kind": s["kind"], "members": s["members"], "sched": s.get("sched"), "par": s["par"], "seeds": s["seeds"], "strace": bool(s.get("strace")), "serial_seed": s.get("serial_seed"), "group": s.get("group"), "steps": s.get("steps")}


def report_alarms(ctx, alarms, records, by_tid, codec, gen_seed, names):
    for b in alarms:
        r = by_tid[b["tid"]]
        e = records[b["line"] - 1]
        kind = r["spec"]["kind"]
        if b["clause"] == "WorkerFailed":
            w = e["w"]
            gw = r["spec"]["members"][w - 1]
            err = r.get("errs", {}).get(w, "")
            sig = "C24|WorkerFailed|%s|%s" % (_exc_type(err), kind.split(":")[0])
            what = "run %r: worker command %d (%s) exited with status %s: %s" % (kind, gw, names[gw], e["rc"], err.strip().splitlines()[-1:] or "")
        else:
            cat = "differ" if e["differ"] else ("missing" if e["missing"] else "extra")
            first = "/".join((e["differ"] or e["missing"] or e["extra"])[0])
            sig = "C24|TreeDiffers|%s|%s" % (cat, kind.split(":")[0])
            what = "run %r: output tree is not the tree of the serial run: %d differing, %d missing, %d extra paths (first: %s)" % (kind, len(e["differ"]), len(e["missing"]), len(e["extra"]), first)
        ctx.violation(sig, what, case_of(r, codec, gen_seed))


def run(ctx):
    codec = "minimal"
    root = tlc.mkscratch("c24")
    rnd = random.Random(ctx.seed)
    cpu0 = os.times()
    gen_seed = 4242
    write_custom_qm_csv(root, codec)
    os.makedirs(os.path.join(root, "gen0"))
    os.makedirs(os.path.join(root, "gen1"))
    codes0 = gen_commands(codec, os.path.join(root, "gen0"), 0)
    codes = gen_commands(codec, os.path.join(root, "gen1"), gen_seed)  # the commands themselves are produced under another hash seed
    if len(codes) != len(codes0) or len(codes) < 3:
        raise RuntimeError("--parallel emitted %d / %d commands" % (len(codes0), len(codes)))
    names = [worker_name(c) for c in codes]
    if names != [worker_name(c) for c in codes0]:
        ctx.violation("C24|CommandListDiffers|hashseed", "the list of worker commands depends on PYTHONHASHSEED: %r vs %r" % (names, [worker_name(c) for c in codes0]), {"codec": codec, "kind": "commands"})
    N = len(codes)
    light = [i for i in range(N) if "real_pictures" not in names[i]]

    # --- schedules chosen by TLC (command granularity)
    rs, hs3 = sched_exhaustive(3, 2)
    ctx.add_tlc(rs, "schedules, exhaustive", {"N": 3, "P": 2})
    if len(hs3) < 6:
        raise RuntimeError("TestCaseGenSched produced only %d schedules" % len(hs3))
    NWq = len(light) if ctx.quick else N
    rsim, hsN = sched_simulate(NWq, 8, ctx.pick(1, 3), ctx.seed)
    if not hsN:
        raise RuntimeError("no complete simulated schedule")

    specs = []
    tid = [100]

    def add(kind, members, sched, par, seeds, cds=None, strace=False):
        tid[0] += 1
        specs.append({"dir": os.path.join(root, "run%d" % tid[0]), "codes": cds or codes, "members": members, "sched": sched, "par": par, "seeds": seeds, "kind": kind, "tid": tid[0], "strace": strace})

    # the two real_pictures commands cost ~30 CPU-s each per execution (20x the others): the quick tier runs them
    # only inside the serial reference runs; every worker-level run, the extraction and the model use the others
    allw = list(light) if ctx.quick else list(range(N))
    NW = len(allw)
    rot = [1, gen_seed, 7, 0]
    add("all-at-once:strace", allw, [["S", i + 1] for i in range(NW)] + [["E", i + 1] for i in range(NW)], 0, [rot[i % 4] for i in range(NW)], strace=True)
    for k, h in enumerate(hsN):
        add("tlc-simulated-schedule:P8", allw, h, 8, [(k + 1) * 11] * NW, cds=codes0 if k % 2 else codes)
    if not ctx.quick:
        add("reverse-sequential", allw, [x for i in reversed(range(NW)) for x in (["S", i + 1], ["E", i + 1])], 1, [5] * NW)
        add("sequential", allw, [x for i in range(NW) for x in (["S", i + 1], ["E", i + 1])], 1, [6] * NW, cds=codes0)
    ntrip = ctx.pick(1, 3)
    for t in range(ntrip):
        trip = sorted(rnd.sample(light, 3))
        hs = list(hs3)
        rnd.shuffle(hs)
        for h in hs[: ctx.pick(10, len(hs))]:
            add("tlc-schedule:triple", trip, h, 2, [0, 0, 0])

    exroot = os.path.join(root, "ex")
    os.makedirs(exroot)
    serial_seeds = ctx.pick([0, gen_seed], [0, gen_seed, 1, 31337])
    with concurrent.futures.ThreadPoolExecutor(ctx.pick(14, 16)) as pool:
        f_serial = [pool.submit(serial_job, (os.path.join(root, "serial%d" % s), codec, s)) for s in serial_seeds]
        f_lossless = [pool.submit(serial_job, (os.path.join(root, "lossless%d" % s), codec + "-lossless", s)) for s in (0, gen_seed)]
        # both configurations in ONE serial run (one process generates for one configuration after the other)
        f_joint = pool.submit(serial_job, (os.path.join(root, "joint"), "(%s|%s-lossless)" % (codec, codec), 0))
        f_ex = [pool.submit(extract_worker, (i, codes[i], exroot, 0)) for i in sorted(allw, key=lambda i: i in light)]
        f_runs = [pool.submit(run_schedule, s) for s in specs]
        serials = [f.result() for f in f_serial]
        exl = sorted([f.result() for f in f_ex], key=lambda r: r["idx"])
        runs = [f.result() for f in f_runs]
        lossless = [f.result() for f in f_lossless]
        joint = f_joint.result()
    ex = {r["idx"]: r for r in exl}  # global worker index -> extraction

    ref = serials[0]["tree"]
    if serials[0]["rc"] != 0 or sum(1 for v in ref.values() if v != "DIR") < 10:
        raise RuntimeError("the serial reference run failed or produced nothing (rc %s): %s" % (serials[0]["rc"], serials[0]["err"]))

    # synthetic run records for the serial repetitions, the alone runs and the re-runs
    for s, sr in zip(serial_seeds[1:], serials[1:]):
        tid[0] += 1
        runs.append({"events": [{"tid": tid[0], "ev": "begin", "kind": "serial:hashseed", "n": 1, "par": 1}, {"tid": tid[0], "ev": "start", "w": 1}, {"tid": tid[0], "ev": "end", "w": 1, "rc": sr["rc"]}], "tree": sr["tree"], "errs": {1: sr["err"]}, "spec": {"tid": tid[0], "kind": "serial:hashseed", "members": [0], "par": 1, "seeds": [s], "serial_seed": s}})
    for kind, key_rc, key_tree, key_err in (("alone", "cold_rc", "cold_tree", "cold_err"), ("rerun", "warm_rc", "warm_tree", "warm_err")):
        tid[0] += 1
        evs = [{"tid": tid[0], "ev": "begin", "kind": kind, "n": NW, "par": 0}]
        merged = {}
        for j, r in enumerate(exl):
            evs.append({"tid": tid[0], "ev": "start", "w": j + 1})
            evs.append({"tid": tid[0], "ev": "end", "w": j + 1, "rc": r[key_rc]})
            for p, h in r[key_tree].items():
                if p in merged and merged[p] != h:
                    merged[p] = "CONFLICT:%s|%s" % (merged[p], h)
                else:
                    merged[p] = h
        runs.append({"events": evs, "tree": merged, "errs": {j + 1: r[key_err] for j, r in enumerate(exl)}, "spec": {"tid": tid[0], "kind": kind, "members": allw, "par": 0, "seeds": [0] * NW}})

    def restrict_of(r):
        m = r["spec"]["members"]
        if r["spec"]["kind"].startswith("serial") or len(m) == N:
            return None
        paths = set()
        for i in m:
            paths |= set(ex[i]["cold_tree"])
        return ancestors_closure(paths)

    records, alarms, dis, by_tid = judge_runs(ctx, runs, ref, restrict_of, "trace validation of %d real runs (TestCaseGenTrace)" % len(runs))
    report_alarms(ctx, alarms, records, by_tid, codec, gen_seed, names)

    # --- the lossless variant of the configuration: a second serial run, in another process under another hash
    # seed, must reproduce the first one's tree (same clauses of TestCaseGenTrace, reference = its first run)
    if lossless[0]["rc"] != 0 or sum(1 for v in lossless[0]["tree"].values() if v != "DIR") < 10:
        raise RuntimeError("the serial run of the lossless configuration failed or produced nothing (rc %s): %s" % (lossless[0]["rc"], lossless[0]["err"]))
    tid[0] += 1
    lrun = {"events": [{"tid": tid[0], "ev": "begin", "kind": "serial:hashseed", "n": 1, "par": 1}, {"tid": tid[0], "ev": "start", "w": 1}, {"tid": tid[0], "ev": "end", "w": 1, "rc": lossless[1]["rc"]}], "tree": lossless[1]["tree"], "errs": {1: lossless[1]["err"]}, "spec": {"tid": tid[0], "kind": "serial:hashseed", "members": [0], "par": 1, "seeds": [gen_seed], "serial_seed": gen_seed, "codec": codec + "-lossless"}}
    lrecords, lalarms, ldis, lby = judge_runs(ctx, [lrun], lossless[0]["tree"], lambda r: None, "trace validation of the repeated serial run of the lossless configuration (TestCaseGenTrace)")
    report_alarms(ctx, lalarms, lrecords, lby, codec + "-lossless", gen_seed, names)
    dis = dis + ldis
    # the joint serial run must produce exactly the union of the two single-configuration serial runs
    union = dict(lossless[0]["tree"])
    union.update(ref)
    tid[0] += 1
    jrun = {"events": [{"tid": tid[0], "ev": "begin", "kind": "serial:joint", "n": 1, "par": 1}, {"tid": tid[0], "ev": "start", "w": 1}, {"tid": tid[0], "ev": "end", "w": 1, "rc": joint["rc"]}], "tree": joint["tree"], "errs": {1: joint["err"]}, "spec": {"tid": tid[0], "kind": "serial:joint", "members": [0], "par": 1, "seeds": [0], "serial_seed": 0, "codec": "(%s|%s-lossless)" % (codec, codec)}}
    jrecords, jalarms, jdis, jby = judge_runs(ctx, [jrun], union, lambda r: None, "trace validation of the serial run over both configurations against the union of the single-configuration runs (TestCaseGenTrace)")
    report_alarms(ctx, jalarms, jrecords, jby, "(%s|%s-lossless)" % (codec, codec), gen_seed, names)
    dis = dis + jdis

    # --- the interleaving model on the extracted operation lists
    fine = not ctx.quick
    built = [build_prog(r["cold"], r["warm"], fine) for r in exl]
    mnames = [names[r["idx"]] for r in exl]  # model worker j (1-based) = command exl[j-1]["idx"]
    progs = [b[0] for b in built]
    infos = [b[1] for b in built]
    if any(len(p) < 2 for p in progs):
        raise RuntimeError("a worker has an empty operation list: extraction is broken")
    groups = pick_groups(NW, ctx.pick(40, 400), rnd)
    try:
        res, cex = model_check(ctx, progs, mnames, groups, "all interleavings of all pairs + %d triples of the real workers (%s operations)" % (len(groups) - NW * (NW - 1) // 2, "fine" if fine else "coarse"))
    except tlc.TLCError as e:
        if not (fine and "StackOverflow" in str(e)):
            raise
        # system-call granularity makes the longest workers' operation lists (natural pictures) too deep for TLC's
        # recursive evaluation of RunW / RunSeq even with a 512 MB thread stack: fall back to the coarse lists
        ctx.coverage["fine_operation_lists"] = "TLC stack overflow; coarse operation lists used instead"
        fine = False
        built = [build_prog(r["cold"], r["warm"], fine) for r in exl]
        progs = [b[0] for b in built]
        infos = [b[1] for b in built]
        res, cex = model_check(ctx, progs, mnames, groups, "all interleavings of all pairs + %d triples of the real workers (coarse operations)" % (len(groups) - NW * (NW - 1) // 2))
    model_failures = []
    if cex:
        model_failures.append(cex)
        if cex["invariant"] == "ObsStable":
            # a worker could observe the tree differently from its recording (unknown continuation): look for a
            # definite failure on the paths where every observation is as recorded
            res2, cex2 = model_check(ctx, progs, mnames, groups, "same groups, definite failures only (NoOpFails, FinalIsSerial)", cfg="mc/TestCaseGenHard.cfg")
            if cex2:
                model_failures.append(cex2)
                cex = cex2
        realise_counterexample(ctx, cex, codes, names, ex, [r["idx"] for r in exl], ref, codec, gen_seed, root)
    full_equiv = None
    if not ctx.quick:
        sub = [g for g in groups if len(g) == 2][:: max(1, (NW * (NW - 1) // 2) // 40)]
        rfull, cfull = model_check(ctx, progs, mnames, sub, "no partial-order reduction, %d sampled pairs" % len(sub), cfg="mc/TestCaseGenFull.cfg")
        rred, cred = model_check(ctx, progs, mnames, sub, "same pairs with reduction", cfg="mc/TestCaseGen.cfg")
        full_equiv = {"pairs": len(sub), "full_states": rfull.distinct, "reduced_states": rred.distinct, "same_verdict": (cfull is None) == (cred is None)}
        if not full_equiv["same_verdict"]:
            raise RuntimeError("partial-order reduction changes the verdict: %r" % (full_equiv,))

    # --- the lemma on the abstract instance
    lem = tlc.run("TestCaseGenLemma", "mc/TestCaseGenLemma.cfg", env=XSS, timeout=3000)
    ctx.add_tlc(lem, "lemma: hypotheses => every interleaving ends in the serial tree (abstract instance)", {"NW": 2, "MaxLen": 2})
    neg = tlc.run("TestCaseGenLemma", "mc/TestCaseGenLemmaNeg.cfg", env=XSS, allow_invariant_violation=True, coverage=False, timeout=3000)
    if neg.invariant_violated != "Conclusion":
        raise RuntimeError("the conclusion of the lemma holds without its hypotheses: the abstract instance is vacuous")

    # --- binding self-tests
    try:
        st_model = model_selftest(progs, mnames)
    except RuntimeError as e:
        # on a tree where the main run has already found violations the extracted programs are themselves
        # faulty: the binding is evidently live; record instead of turning a verdict into a machinery failure
        if not ctx.violations:
            raise
        st_model = {"skipped": "violations were found by the main run", "detail": str(e)[:300]}
    probe = [dict(e) for e in runs[0]["events"]]
    pt = tree_event(runs[0]["spec"]["tid"], runs[0]["tree"], ref, restrict_of(runs[0]))
    victim = next(p for p, v in sorted(ref.items()) if v != "DIR")
    corrupted = dict(runs[0]["tree"])
    corrupted[victim] = "0" * 64
    pbad, _ = trace.validate("TestCaseGenTrace", probe + [tree_event(runs[0]["spec"]["tid"], corrupted, ref, restrict_of(runs[0]))])
    if not any(b["alarm"] and b["clause"] == "TreeDiffers" for b in pbad):
        raise RuntimeError("trace binding self-test failed: a corrupted file hash was accepted")
    probe2 = [dict(e, rc=1) if e["ev"] == "end" and e["w"] == 2 else e for e in probe] + [pt]
    pbad2, _ = trace.validate("TestCaseGenTrace", probe2)
    if not any(b["alarm"] and b["clause"] == "WorkerFailed" for b in pbad2):
        raise RuntimeError("trace binding self-test failed: a failed worker was accepted")

    # --- vacuity and evidence
    eexist = sum(1 for e in runs[0]["events"] if e["ev"] == "op" and e["k"] == "mkdir" and e["r"] == "EEXIST")
    nops = sum(1 for e in runs[0]["events"] if e["ev"] == "op")
    if nops < 100:
        raise RuntimeError("the concurrent run under strace recorded only %d operations" % nops)
    cpu1 = os.times()
    nfiles = sum(1 for v in ref.values() if v != "DIR")
    kinds = {}
    for r in runs:
        kinds[r["spec"]["kind"]] = kinds.get(r["spec"]["kind"], 0) + 1
    ctx.coverage.update(
        {
            "traces_validated_against_impl": len(runs),
            "evaluations": len(runs) + len(groups),
            "distinct_nontrivial": len([r for r in runs if len(r["spec"]["members"]) > 1]) + len(groups),
            "rule": "one evaluation = one real execution of worker commands under a schedule (tree hashed and compared with the serial run) or one group of real workers whose every interleaving TLC explored; non-trivial = more than one command involved",
            "exhaustive": True,
            "exhaustive_note": "every interleaving (system-call granularity) of every pair and of the sampled triples of the extracted real operation lists; every command-level schedule of 3 commands with at most 2 running; full-set schedules are sampled",
            "configuration": codec,
            "worker_commands": N,
            "worker_commands_in_worker_level_runs": NW,
            "excluded_from_worker_level_runs": [names[i] for i in range(N) if i not in allw],
            "worker_names": names,
            "reference_tree_files": nfiles,
            "runs_by_kind": kinds,
            "hash_seeds": {"serial": serial_seeds, "command_generation": [0, gen_seed], "workers": sorted(set(rot))},
            "real_concurrent_run": {"operations_recorded": nops, "mkdir_EEXIST_races_observed": eexist, "ops_of_unattributed_pids": runs[0]["spec"].get("unknown_pid_ops", 0)},
            "extraction": {"ops_per_worker": [len(p) for p in progs], "granularity": "fine (creat/write/close)" if fine else "coarse (creat+write+close = put)", "makedirs_calls": sum(i["makedirs"] for i in infos), "standalone_stats": sum(i["standalone_stat"] for i in infos), "check_then_act_mkdirs": sum(i["guardmk"] for i in infos), "unmatched_warm_calls": sum(i["unmatched_warm_calls"] for i in infos), "writes_outside_output_tree": sorted(set(p for r in exl for p in r["outside_writes"]))[:10]},
            "groups": {"pairs": NW * (NW - 1) // 2, "triples": len(groups) - NW * (NW - 1) // 2},
            "model_counterexamples": model_failures,
            "reduction_check": full_equiv,
            "spec_disagreements": len(dis),
            "spec_disagreement_clauses": sorted(set(b["clause"] for b in dis)),
            "binding_selftest": {"model": st_model, "trace": "a corrupted file hash is rejected with TreeDiffers; a non-zero exit status with WorkerFailed"},
            "lemma_negative_control": "without the hypotheses TLC finds a counterexample to the conclusion (%d states)" % neg.distinct,
            "cpu_seconds_children": round((cpu1.children_user + cpu1.children_system) - (cpu0.children_user + cpu0.children_system), 1),
            "samples": [
                {"run": runs[0]["spec"]["kind"], "workers": N, "first_ops": [e for e in runs[0]["events"] if e["ev"] == "op"][:4]},
                {"run": specs[-1]["kind"], "members": [names[i] for i in specs[-1]["members"]], "schedule": specs[-1]["sched"]},
                {"worker": mnames[6 % NW], "ops": progs[6 % NW][:6]},
                {"group_sample": [[mnames[w - 1] for w in g] for g in groups[:2] + groups[-2:]]},
            ],
        }
    )
    ctx.assumptions += [
        "one sample configuration (%s of tests/sample_codec_features.csv, with an explicit quantisation matrix 0 1 1 2 written into a scratch copy of the CSV): %d worker commands" % (codec, N),
        "operation lists are those observed by strace when each command runs alone (cold) and again over its own output (warm); ObsStable checks that nothing a worker reads of the tree can differ under interleaving",
        "interleavings inside one write() system call and torn file contents are not modelled (a file's content is the ordered list of its writers' chunks)",
        "os.makedirs is modelled as CPython 3.12 implements it (check parent, recurse, mkdir, isdir on EEXIST)",
        "BLAS thread pools are limited to one thread per worker process (environment only)",
    ]


SHIM_SNIPPET = "import sys; sys.path.insert(0, %r); import harness.drivers.c24_shim as s; s.install(); " + WORKER_SNIPPET


def run_forced(spec):
    """Execute the workers of a group concurrently, their calls on the output tree forced (by the in-process shim,
    harness/drivers/c24_shim.py) into the global order of a model counterexample."""
    d = spec["dir"]
    os.makedirs(d)
    sd = os.path.join(d, "shim")
    os.makedirs(sd)
    members = spec["members"]
    local = {w: i + 1 for i, w in enumerate(spec["group"])}
    sched = [[local[st["w"]], st["call"][0], st["call"][1]] for st in spec["steps"] if st.get("call")]
    with open(os.path.join(sd, "schedule.json"), "w") as f:
        json.dump(sched, f)
    tid = spec["tid"]
    ev = [{"tid": tid, "ev": "begin", "kind": spec["kind"], "n": len(members), "par": 0}]
    procs = {}
    for i, gw in enumerate(members):
        env = child_env(0)
        env.update({"C24_SHIM_DIR": sd, "C24_SHIM_ID": str(i + 1), "C24_SHIM_OUT": OUT})
        ef = open(os.path.join(d, "err%d.txt" % (i + 1)), "wb")
        procs[i + 1] = (subprocess.Popen([PY, "-P", "-c", SHIM_SNIPPET % (common.VERIF, spec["codes"][gw])], cwd=d, env=env, stdout=subprocess.DEVNULL, stderr=ef), ef)
        ev.append({"tid": tid, "ev": "start", "w": i + 1})
    rcs = {}
    t0 = time.time()
    while len(rcs) < len(procs):
        for w, (p, ef) in procs.items():
            if w not in rcs and p.poll() is not None:
                rcs[w] = p.returncode
                ef.close()
                for gi, e in enumerate(sched):  # a worker that has exited will not take its remaining turns
                    if e[0] == w:
                        open(os.path.join(sd, "done_%d" % gi), "a").close()
        if time.time() - t0 > 1500:
            for w, (p, ef) in procs.items():
                if w not in rcs:
                    p.kill()
            raise RuntimeError("forced interleaving did not terminate")
        time.sleep(0.02)
    errs = {}
    for w in procs:
        ev.append({"tid": tid, "ev": "end", "w": w, "rc": rcs[w]})
        errs[w] = open(os.path.join(d, "err%d.txt" % w), errors="replace").read()[-800:]
    timeouts = len(glob.glob(os.path.join(sd, "timeout_*")))
    taken = len([g for g in glob.glob(os.path.join(sd, "done_*"))])
    return {"events": ev, "tree": hash_tree(d), "rcs": rcs, "errs": errs, "spec": {"tid": tid, "kind": spec["kind"], "members": members, "group": spec["group"], "steps": spec["steps"], "par": 0, "seeds": [0] * len(members), "forced_calls": len(sched), "turn_timeouts": timeouts, "turns_done": taken}}


def realise_counterexample(ctx, cex, codes, names, ex, midx, ref, codec, gen_seed, root):
    """A failing interleaving of the model is an alarm only when the REAL commands reproduce it: the group is run
    with its calls on the output tree forced into the order of the counterexample (in-process shim), then a few
    times freely concurrently; a real failure / tree difference is reported, otherwise the counterexample is only
    logged in the evidence (model_counterexamples)."""
    g = [midx[w - 1] for w in cex["group"]]  # ex: global command index -> extraction; midx: model id -> command index
    paths = set()
    for i in g:
        paths |= set(ex[i]["cold_tree"])
    restrict = ancestors_closure(paths)
    runs = [run_forced({"dir": os.path.join(root, "forced%d" % cex["group"][0]), "codes": codes, "members": g, "group": cex["group"], "steps": cex["steps"], "kind": "model-counterexample:forced-interleaving", "tid": 900})]
    for k in range(3):
        sp = {"dir": os.path.join(root, "real%d_%d" % (cex["group"][0], k)), "codes": codes, "members": g, "sched": [["S", i + 1] for i in range(len(g))] + [["E", i + 1] for i in range(len(g))], "par": 0, "seeds": [0] * len(g), "kind": "model-counterexample:concurrent", "tid": 901 + k}
        runs.append(run_schedule(sp))
    records, alarms, dis, by_tid = judge_runs(ctx, runs, ref, lambda r: restrict, "trace validation of the realisation of the model counterexample")
    report_alarms(ctx, alarms, records, by_tid, codec, gen_seed, names)
    cex["realised"] = bool(alarms)
    cex["forced_run"] = {k: runs[0]["spec"][k] for k in ("forced_calls", "turn_timeouts", "turns_done")}
    cex["forced_rcs"] = runs[0]["rcs"]


def replay(case):
    class _C(object):
        pass

    if case.get("kind") == "commands":
        return {"violations": ["re-run the check"]}
    codec = case["codec"]
    root = tlc.mkscratch("c24replay")
    write_custom_qm_csv(root, codec.strip("()").split("|")[0].replace("-lossless", ""))  # the scratch CSV the check itself generates from
    for sub in ("gen", "serial", "ex"):
        os.makedirs(os.path.join(root, sub))
    codes = gen_commands(codec, os.path.join(root, "gen"), case["gen_seed"])
    sr = serial_job((os.path.join(root, "serial", "s"), codec, 0))
    ref = sr["tree"]
    members = case["members"]
    if case["kind"] == "serial:joint":
        a, b = codec.strip("()").split("|")
        ref = dict(serial_job((os.path.join(root, "serial", "b"), b, 0))["tree"])
        ref.update(serial_job((os.path.join(root, "serial", "a"), a, 0))["tree"])
        s2 = serial_job((os.path.join(root, "serial", "t"), codec, 0))
        ev = [{"tid": 1, "ev": "begin", "kind": case["kind"], "n": 1, "par": 1}, {"tid": 1, "ev": "start", "w": 1}, {"tid": 1, "ev": "end", "w": 1, "rc": s2["rc"]}]
        recs = ev + [tree_event(1, s2["tree"], ref)]
    elif case["kind"].startswith("serial"):
        s2 = serial_job((os.path.join(root, "serial", "t"), codec, case["serial_seed"]))
        ev = [{"tid": 1, "ev": "begin", "kind": case["kind"], "n": 1, "par": 1}, {"tid": 1, "ev": "start", "w": 1}, {"tid": 1, "ev": "end", "w": 1, "rc": s2["rc"]}]
        recs = ev + [tree_event(1, s2["tree"], ref)]
    elif case["kind"] in ("alone", "rerun"):
        with concurrent.futures.ThreadPoolExecutor(12) as pool:
            exs = list(pool.map(extract_worker, [(i, codes[i], os.path.join(root, "ex"), 0) for i in members]))
        key = ("cold_rc", "cold_tree") if case["kind"] == "alone" else ("warm_rc", "warm_tree")
        ev = [{"tid": 1, "ev": "begin", "kind": case["kind"], "n": len(members), "par": 0}]
        merged = {}
        for r in exs:
            ev += [{"tid": 1, "ev": "start", "w": r["idx"] + 1}, {"tid": 1, "ev": "end", "w": r["idx"] + 1, "rc": r[key[0]]}]
            for p, h in r[key[1]].items():
                merged[p] = h if merged.get(p, h) == h else "CONFLICT"
        recs = ev + [tree_event(1, merged, ref)]
    else:
        restrict = None
        if len(members) != len(codes):
            with concurrent.futures.ThreadPoolExecutor(12) as pool:
                exs = list(pool.map(extract_worker, [(i, codes[i], os.path.join(root, "ex"), 0) for i in members]))
            paths = set()
            for r in exs:
                paths |= set(r["cold_tree"])
            restrict = ancestors_closure(paths)
        if case.get("steps"):
            r = run_forced({"dir": os.path.join(root, "run"), "codes": codes, "members": members, "group": case["group"], "steps": case["steps"], "kind": case["kind"], "tid": 1})
        else:
            sp = {"dir": os.path.join(root, "run"), "codes": codes, "members": members, "sched": case["sched"], "par": case["par"], "seeds": case["seeds"], "kind": case["kind"], "tid": 1, "strace": case.get("strace")}
            r = run_schedule(sp)
        recs = r["events"] + [tree_event(1, r["tree"], ref, restrict)]
    bad, _ = trace.validate("TestCaseGenTrace", recs)
    return {"violations": [b for b in bad if b["alarm"]], "events": [e for e in recs if e["ev"] in ("end", "tree")][-6:]}
