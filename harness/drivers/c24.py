"""C24 -- test case generation is deterministic and schedule-independent.

Spec  : spec/TestCaseGen.tla (+ TestCaseGenOps.tla, generated TestCaseGenData.tla), spec/TestCaseGenTrace.tla
Model extraction (T): every REAL worker command of `vc2-test-case-generator --parallel` is executed under strace
  twice (cold: alone in an empty directory; warm: again in the directory it has just populated); the two syscall
  logs are projected to a per-worker list of file operations (makedirs/mkdir/creat/write/close/openr/stat/rename/
  unlink); TLC checks NoOpFails / FinalIsSerial / ObsIsSerial over ALL interleavings of every pair and of triples
  of the real workers, and the commutation lemma on an abstract instance.
Execution (G): TLC chooses schedules at command granularity (TestCaseGenSched.cfg: permutations / bounded
  concurrency); the driver runs the real worker commands accordingly (plus all-at-once under one strace, reverse,
  PYTHONHASHSEED variation, repeated serial run), hashes every output tree and records one trace per run; TLC
  (TestCaseGenTrace) judges every run: all workers exit 0, tree == tree of the serial (non --parallel) run.
"""
import concurrent.futures
import glob
import hashlib
import json
import os
import random
import re
import shutil
import subprocess
import sys
import time

from .. import common, tlc, tlaval, trace

PY = "/venv/bin/python"
CSV_CANDIDATES = ["tests/sample_codec_features.csv", "docs/source/_static/user_guide/sample_codec_features.csv"]
OUT = "out"  # relative output directory: the very same command strings are reusable in any cwd
SYSCALLS = (
    "mkdir,mkdirat,openat,open,creat,rename,renameat,renameat2,unlink,unlinkat,rmdir,write,pwrite64,writev,close,"
    "newfstatat,stat,lstat,access,faccessat,faccessat2,statx,link,linkat,symlink,symlinkat,truncate,ftruncate,chdir,"
    "getdents64,exit_group"
)
WORKER_SNIPPET = "from vc2_conformance.scripts.vc2_test_case_generator.worker import main; main([%r])"
CLI_SNIPPET = "import sys; from vc2_conformance.scripts.vc2_test_case_generator.cli import main; sys.exit(main(%r))"


def csv_path():
    for c in CSV_CANDIDATES:
        p = os.path.join(common.REPO, c)
        if os.path.exists(p):
            return p
    raise RuntimeError("sample codec features CSV not found under %s" % common.REPO)


def child_env(hashseed=0):
    e = dict(os.environ)
    e["PYTHONPATH"] = common.REPO
    e["PYTHONHASHSEED"] = str(hashseed)
    e["PYTHONDONTWRITEBYTECODE"] = "1"
    # numpy's BLAS spawns one spinning thread per core in every worker; 26 workers x 16 threads on a shared
    # box is pure contention.  Environment only -- the commands themselves are untouched.
    for v in ("OPENBLAS_NUM_THREADS", "OMP_NUM_THREADS", "MKL_NUM_THREADS"):
        e[v] = "1"
    e.pop("JAVA_TOOL_OPTIONS", None)
    return e


class ProcResult(object):
    def __init__(self, rc, wall, err):
        self.rc = rc
        self.wall = wall
        self.err = err


def _run(argv, cwd, hashseed=0, timeout=1500, stdout=None):
    t0 = time.time()
    p = subprocess.run(argv, cwd=cwd, env=child_env(hashseed), stdout=stdout or subprocess.DEVNULL, stderr=subprocess.PIPE, timeout=timeout)
    return ProcResult(p.returncode, time.time() - t0, p.stderr.decode("utf-8", "replace")[-1500:]), p


def gen_commands(codec, cwd, hashseed=0, extra=()):
    """The real `vc2-test-case-generator CSV --parallel --codecs <codec> --output out` -> list of worker codes."""
    args = [csv_path(), "--parallel", "--codecs", codec, "--output", OUT] + list(extra)
    r, p = _run([PY, "-c", CLI_SNIPPET % (args,)], cwd, hashseed, stdout=subprocess.PIPE)
    if r.rc != 0:
        raise RuntimeError("vc2-test-case-generator --parallel failed (rc %d): %s" % (r.rc, r.err))
    codes = []
    for line in p.stdout.decode().splitlines():
        parts = line.split()
        if len(parts) == 2 and parts[0] == "vc2-test-case-generator-worker":
            codes.append(parts[1])
        elif line.strip():
            raise RuntimeError("unexpected line from --parallel: %r" % line[:200])
    return codes


def run_serial(codec, cwd, hashseed=0, extra=()):
    """The non-parallel generator (one process): the reference tree."""
    args = [csv_path(), "--codecs", codec, "--output", OUT] + list(extra)
    r, _ = _run([PY, "-c", CLI_SNIPPET % (args,)], cwd, hashseed)
    return r


def worker_argv(code, strace_log=None):
    argv = [PY, "-P", "-c", WORKER_SNIPPET % code]
    if strace_log:
        argv = ["strace", "-f", "-y", "-s", "0", "-o", strace_log, "-e", "trace=" + SYSCALLS] + argv
    return argv


def run_worker(code, cwd, hashseed=0, strace_log=None):
    r, _ = _run(worker_argv(code, strace_log), cwd, hashseed)
    return r


def hash_tree(root):
    """relative path -> 'DIR' | sha256 hex of the bytes (symlinks: 'LINK:<target>')"""
    out = {}
    base = os.path.join(root, OUT)
    if not os.path.isdir(base):
        return out
    for d, dirs, files in os.walk(base):
        rel = os.path.relpath(d, root)
        out[rel] = "DIR"
        for f in files:
            p = os.path.join(d, f)
            if os.path.islink(p):
                out[os.path.relpath(p, root)] = "LINK:" + os.readlink(p)
            else:
                with open(p, "rb") as fh:
                    out[os.path.relpath(p, root)] = hashlib.sha256(fh.read()).hexdigest()
        for f in dirs:
            p = os.path.join(d, f)
            if os.path.islink(p):
                out[os.path.relpath(p, root)] = "LINK:" + os.readlink(p)
    return out


def worker_name(code):
    """Human-readable identity of a worker command (decoding the pickle in-process: names only)."""
    from vc2_conformance.scripts.vc2_test_case_generator.worker import decode

    fn = decode(code)
    try:
        a = fn.args
        kind = "enc" if "encoder" in a[1].__name__ else "dec"
        return "%s:%s" % (kind, a[4].args[0].__name__)
    except Exception:
        return "worker"


# ------------------------------------------------------------------------------------------ strace projection
_LINE = re.compile(r"^(\d+)\s+(.*)$")
_CALL = re.compile(r"^(\w+)\((.*)\)\s+=\s+(-?\d+|\?)(?:<([^>]*)>)?\s*(\w+)?")
_STR = re.compile(r'"((?:[^"\\]|\\.)*)"')
_FD = re.compile(r"^(\d+|AT_FDCWD)<([^>]*)>")
_UNFIN = re.compile(r"^(\w+)\((.*) <unfinished \.\.\.>$")
_RESUMED = re.compile(r"^<\.\.\. (\w+) resumed>(.*)$")
_EXIT = re.compile(r"^\+\+\+ (exited with (\d+)|killed by (\w+))")

STAT_CALLS = ("newfstatat", "stat", "lstat", "access", "faccessat", "faccessat2", "statx")


def _unescape(s):
    if "\\" not in s:
        return s
    return s.encode("latin-1", "backslashreplace").decode("unicode_escape")


def iter_syscalls(path):
    """Yield (pid, name, argtext, ret:int|None, errno:str|None) with unfinished/resumed lines joined."""
    pending = {}
    with open(path, errors="replace") as f:
        for raw in f:
            m = _LINE.match(raw.rstrip("\n"))
            if not m:
                continue
            pid, rest = int(m.group(1)), m.group(2)
            mu = _UNFIN.match(rest)
            if mu:
                pending[pid] = (mu.group(1), mu.group(2))
                continue
            mr = _RESUMED.match(rest)
            if mr:
                name, head = pending.pop(pid, (mr.group(1), ""))
                rest = "%s(%s%s" % (name, head, mr.group(2))
            me = _EXIT.match(rest)
            if me:
                yield pid, "+exit", "", int(me.group(2)) if me.group(2) else -1, me.group(3)
                continue
            mc = _CALL.match(rest)
            if not mc:
                continue
            ret = None if mc.group(3) == "?" else int(mc.group(3))
            err = mc.group(5) if (ret is not None and ret < 0) else None
            yield pid, mc.group(1), mc.group(2), ret, err


def project_strace(path, root):
    """strace log of ONE run rooted at `root` (cwd of the workers) -> list of primitive events
    {pid, k, p[, q], r, fl}; only paths inside <root>/out are kept (the output tree)."""
    root = os.path.realpath(root)
    base = os.path.join(root, OUT)

    def rel(p, cwd):
        if p is None:
            return None
        if not p.startswith("/"):
            p = os.path.join(cwd, p)
        p = os.path.normpath(p)
        if p == base or p.startswith(base + "/"):
            return tuple(os.path.relpath(p, root).split("/"))
        return None

    evs = []
    cwd = {}
    outside_writes = set()
    for pid, name, args, ret, err in iter_syscalls(path):
        c = cwd.get(pid, root)
        if name == "+exit":
            evs.append({"pid": pid, "k": "exit", "p": (), "r": "ok" if ret == 0 else "rc%d" % ret})
            continue
        if name == "chdir":
            s = _STR.search(args)
            if s and ret == 0:
                cwd[pid] = os.path.normpath(os.path.join(c, _unescape(s.group(1))))
            continue
        r = "ok" if (ret is not None and ret >= 0) else (err or "ERR")
        strs = [_unescape(x) for x in _STR.findall(args)]
        fdm = _FD.match(args)
        if name in ("mkdir", "mkdirat"):
            p = rel(strs[0], fdm.group(2) if (fdm and name == "mkdirat") else c) if strs else None
            if p:
                evs.append({"pid": pid, "k": "mkdir", "p": p, "r": r})
        elif name in ("openat", "open", "creat"):
            p = rel(strs[0], fdm.group(2) if (fdm and name == "openat") else c) if strs else None
            flags = args.rsplit('"', 1)[-1]
            wr = name == "creat" or "O_WRONLY" in flags or "O_RDWR" in flags or "O_CREAT" in flags
            if p:
                if "O_DIRECTORY" in flags:
                    evs.append({"pid": pid, "k": "listdir", "p": p, "r": r})
                elif wr:
                    x = 2 if "O_EXCL" in flags else (1 if ("O_TRUNC" in flags or name == "creat") else 0)
                    evs.append({"pid": pid, "k": "creat", "p": p, "r": r, "x": x})
                else:
                    evs.append({"pid": pid, "k": "openr", "p": p, "r": r})
            elif wr and strs and ret is not None and ret >= 0 and not strs[0].startswith(("/dev/", "/proc/")):
                outside_writes.add(os.path.normpath(os.path.join(c, strs[0])))
        elif name in ("write", "pwrite64", "writev", "ftruncate"):
            if fdm:
                p = rel(fdm.group(2), c)
                if p:
                    evs.append({"pid": pid, "k": "write", "p": p, "r": r})
        elif name == "close":
            if fdm:
                p = rel(fdm.group(2), c)
                if p:
                    evs.append({"pid": pid, "k": "close", "p": p, "r": r})
        elif name in STAT_CALLS:
            if fdm and strs and strs[0] == "":
                continue  # fstat on an open descriptor
            if strs:
                p = rel(strs[0], fdm.group(2) if fdm else c)
                if p:
                    evs.append({"pid": pid, "k": "stat", "p": p, "r": "present" if r == "ok" else "absent"})
        elif name in ("rename", "renameat", "renameat2", "link", "linkat", "symlink", "symlinkat"):
            if len(strs) >= 2:
                a, b = rel(strs[0], c), rel(strs[1], c)
                if a or b:
                    evs.append({"pid": pid, "k": "rename" if name.startswith("rename") else "link", "p": a or ("<outside>",), "q": b or ("<outside>",), "r": r})
        elif name in ("unlink", "unlinkat", "rmdir", "truncate"):
            if strs:
                p = rel(strs[0], fdm.group(2) if fdm else c)
                if p:
                    k = "rmdir" if (name == "rmdir" or "AT_REMOVEDIR" in args) else ("unlink" if name != "truncate" else "write")
                    evs.append({"pid": pid, "k": k, "p": p, "r": r})
    return evs, sorted(outside_writes)


# ------------------------------------------------------------------------------------------ model extraction
def _is_anc(a, p):
    """a is a proper ancestor of p"""
    return len(a) < len(p) and p[: len(a)] == a


def main_pid(evs):
    return evs[0]["pid"] if evs else None


def warm_calls(warm):
    """In the warm run every directory exists, so every os.makedirs/os.mkdir call is exactly one mkdir system
    call returning EEXIST (no recursion): list of (path, has_parent_check, tolerated)."""
    calls = []
    mp = main_pid(warm)
    main_ok = any(e["k"] == "exit" and e["pid"] == mp and e["r"] == "ok" for e in warm)
    body = [e for e in warm if e["k"] != "exit"]
    for i, e in enumerate(body):
        if e["k"] != "mkdir":
            continue
        head = i > 0 and body[i - 1]["k"] == "stat" and body[i - 1]["p"] == e["p"][:-1]
        rest = body[i + 1 :]
        if rest and rest[0]["k"] == "stat" and rest[0]["p"] == e["p"]:
            rest = rest[1:]
        tolerated = e["r"] == "EEXIST" and (bool(rest) or main_ok)
        calls.append((e["p"], head, tolerated, e["r"]))
    return calls


def build_prog(cold, warm, fine):
    """cold/warm: projected strace events of one worker -> (ops, info).  ops: list of dict(k,p,q,x)."""
    calls = warm_calls(warm)
    mp = main_pid(cold)
    body = [e for e in cold if e["k"] != "exit"]
    rc_ok = any(e["k"] == "exit" and e["pid"] == mp and e["r"] == "ok" for e in cold)
    ops = []
    info = {"makedirs": 0, "standalone_stat": 0, "standalone_mkdir": 0, "guardmk": 0, "unmatched_warm_calls": 0, "cold_eexist": 0}
    n = len(body)
    i = 0
    j = 0
    wopen = {}

    def op(k, p, q=(), x=0):
        ops.append({"k": k, "p": list(p), "q": list(q), "x": x})

    while i < n:
        e = body[i]
        k = e["k"]
        if k in ("stat", "mkdir") and j < len(calls):
            p, head, tol, _ = calls[j]
            t = i
            grew = False
            while t < n and body[t]["k"] == "stat" and _is_anc(body[t]["p"], p):
                t += 1
                grew = True
            while t < n and body[t]["k"] == "mkdir" and _is_anc(body[t]["p"], p):
                t += 1
                grew = True
            if t < n and body[t]["k"] == "mkdir" and body[t]["p"] == p and body[t]["r"] in ("ok", "EEXIST"):
                if body[t]["r"] == "EEXIST":
                    info["cold_eexist"] += 1
                    t += 1
                    if t < n and body[t]["k"] == "stat" and body[t]["p"] == p:
                        t += 1
                        tol = True
                else:
                    t += 1
                op("makedirs" if (head or grew) else "mkdir", p, x=1 if tol else 0)
                info["makedirs"] += 1
                i = t
                j += 1
                continue
        if k == "stat":
            op("stat", e["p"], x=1 if e["r"] == "present" else 0)
            info["standalone_stat"] += 1
        elif k == "mkdir":
            if ops and ops[-1]["k"] == "stat" and tuple(ops[-1]["p"]) == e["p"] and ops[-1]["x"] == 0:
                ops.pop()
                info["standalone_stat"] -= 1
                op("guardmk", e["p"])
                info["guardmk"] += 1
            else:
                tol = e["r"] == "EEXIST" and (i + 1 < n or rc_ok)
                op("mkdir", e["p"], x=1 if tol else 0)
                info["standalone_mkdir"] += 1
        elif k == "creat":
            if e["r"] != "ok":
                op("creat", e["p"], x=e.get("x", 1))
            else:
                t = i + 1
                while t < n and body[t]["k"] == "write" and body[t]["p"] == e["p"]:
                    t += 1
                contiguous = t < n and body[t]["k"] == "close" and body[t]["p"] == e["p"]
                if contiguous and not fine and e.get("x", 1) == 1:
                    op("put", e["p"])
                    i = t + 1
                    continue
                op("creat", e["p"], x=e.get("x", 1))
                wopen[e["p"]] = wopen.get(e["p"], 0) + 1
        elif k == "write":
            if not (ops and ops[-1]["k"] == "write" and tuple(ops[-1]["p"]) == e["p"]):
                op("write", e["p"])
        elif k == "close":
            if wopen.get(e["p"], 0) > 0:
                wopen[e["p"]] -= 1
                op("closew", e["p"])
        elif k in ("openr", "listdir", "unlink", "rmdir"):
            op(k, e["p"])
        elif k in ("rename", "link"):
            op(k, e["p"], e["q"])
        i += 1
    info["unmatched_warm_calls"] = len(calls) - j
    op("exit", (), x=1 if rc_ok else 0)
    return ops, info


def tla_str(s):
    return '"' + s.replace("\\", "\\\\").replace('"', '\\"') + '"'


def tla_path(p):
    return "<<" + ", ".join(tla_str(c) for c in p) + ">>"


def tla_op(o):
    return "[k |-> %s, p |-> %s, q |-> %s, x |-> %d]" % (tla_str(o["k"]), tla_path(o["p"]), tla_path(o["q"]), o["x"])


def write_data_module(progs, groups):
    """TestCaseGenData.tla for this run (overrides the placeholder in spec/ inside TLC's working directory)."""
    d = tlc.mkscratch("c24mc")
    path = os.path.join(d, "TestCaseGenData.tla")
    with open(path, "w") as f:
        f.write("---- MODULE TestCaseGenData ----\n(* generated by harness/drivers/c24.py from strace logs of the real worker commands *)\n")
        f.write("Prog == <<\n")
        f.write(",\n".join("  <<" + ",\n    ".join(tla_op(o) for o in ops) + ">>" for ops in progs))
        f.write("\n>>\nGroupSeq == <<" + ", ".join("<<" + ", ".join(str(w) for w in g) + ">>" for g in groups) + ">>\n====\n")
    return path


def extract_worker(args):
    """cold run (alone, empty directory) then warm run (same directory, now populated), both under strace."""
    idx, code, root, hashseed = args
    d = os.path.join(root, "w%02d" % idx)
    os.makedirs(d)
    cold_log = os.path.join(d, "cold.st")
    warm_log = os.path.join(d, "warm.st")
    rc = run_worker(code, d, hashseed, cold_log)
    cold_tree = hash_tree(d)
    rw = run_worker(code, d, hashseed, warm_log)
    warm_tree = hash_tree(d)
    cold, ow1 = project_strace(cold_log, d)
    warm, ow2 = project_strace(warm_log, d)
    return {
        "idx": idx,
        "dir": d,
        "cold_rc": rc.rc,
        "warm_rc": rw.rc,
        "cold_err": rc.err[-600:],
        "warm_err": rw.err[-600:],
        "cold": cold,
        "warm": warm,
        "cold_tree": cold_tree,
        "warm_tree": warm_tree,
        "outside_writes": sorted(set(ow1) | set(ow2)),
        "wall": rc.wall + rw.wall,
    }
