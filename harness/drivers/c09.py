"""C09 -- every decoded picture is well-formed.

Spec: CodecOps (Dims = 11.6.2, DepthOf = 11.6.3) + CodecTrace clauses C09.* evaluated by TLC on recorded decodes.
Inputs: every encoder stream of the TLC-enumerated configurations (CodecConfig.tla) and, for each, re-packed
streams: the encoder's bytes are deserialised, every slice's coefficients are replaced by adversarial values
(extreme +-2^k, random, alternating, DC-only, dangling past the end of the bounded block) with random qindex, the
length fields are made consistent, and the stream is re-serialised -- so the decoder sees arbitrary payloads in
valid slices.
Alarm (R1), on accepted streams only: C09.OneOutputPerPicture, C09.OutputAtCompletion (the callback fires while the
completing data unit is being parsed), C09.Dimensions, C09.SampleRange, C09.PictureNumber.
"""
from . import codec_common as cc


def selftest(ctx, cfgs):
    from vc2_conformance.pseudocode import picture_decoding as pd

    orig = pd.clip_component
    pd.clip_component = lambda state, comp_data, c: None
    try:
        recs = cc.selftest_runs(cfgs, lambda c: c["d"] + c["dho"] >= 1, n=4, repack=("extreme",))
    finally:
        pd.clip_component = orig
    bad, _, _ = cc.judge(recs)
    hit = [b for b in bad if b["clause"] == "C09.SampleRange"]
    if not hit:
        raise RuntimeError("binding self-test failed: a decoder without clipping was not flagged")
    good = cc.selftest_runs(cfgs, lambda c: True, n=4, repack=("extreme",))
    bad0, _, _ = cc.judge(good)
    dirty = set(b["line"] for b in bad0 if b["clause"].startswith("C09."))
    probe = [dict(r) for r in good]
    tgt = next((i for i, r in enumerate(probe) if r["pics"] and r["verdict"] == "accepted" and (i + 1) not in dirty), None)
    note = "skipped: every baseline run already violates C09"
    if tgt is not None:
        p0 = probe[tgt]["pics"][0]
        probe[tgt] = dict(probe[tgt], pics=[dict(p0, pn={"hi": p0["pn"]["hi"], "lo": (p0["pn"]["lo"] + 1) % 65536})] + probe[tgt]["pics"][1:])
        bad1, _, _ = cc.judge(probe)
        if not any(b["clause"] == "C09.PictureNumber" and b["line"] == tgt + 1 for b in bad1):
            raise RuntimeError("binding self-test failed: corrupted picture number not rejected")
        note = "pics[0].pn+1 rejected with C09.PictureNumber"
    return {"mutant": "clip_component replaced by a no-op (in-process monkeypatch)", "runs_flagged": len(hit), "corrupted_field": note}


def nontrivial(job, result):
    return any(r["kind"] == "repacked" and r["verdict"] == "accepted" and r["pics"] for r in result["records"])


def run(ctx):
    out = cc.run_family(
        ctx,
        "C09",
        repack_per_cfg=ctx.pick(1, 2),
        selftest=selftest,
        nontrivial=nontrivial,
        rule="every stream (encoder output + re-packed variants) decoded by the real validator/decoder and accepted; evaluations = accepted streams with >= 1 output picture judged by the C09 clauses; non-trivial = configuration with an accepted re-packed stream",
    )
    stats = {}
    fails = 0
    for r in out["results"]:
        for x in r["detail"].get("repack", []):
            if "build_failed" in x:
                fails += 1
                stats.setdefault("build_failed:" + x["build_failed"], 0)
                stats["build_failed:" + x["build_failed"]] += 1
            else:
                k = "%s:%s" % (x["class"], x["verdict"])
                stats[k] = stats.get(k, 0) + 1
                stats["dangling_blocks"] = stats.get("dangling_blocks", 0) + x["dangling_blocks"]
    ctx.coverage["repacked_streams"] = stats
    ctx.coverage["out_of_scope"] = fails
    rp_ok = sum(v for k, v in stats.items() if k.endswith(":accepted"))
    if rp_ok == 0 or stats.get("dangling_blocks", 0) == 0:
        raise RuntimeError("vacuous: no accepted re-packed stream / no dangling block (%s)" % stats)
    ctx.assumptions.append("re-packed coefficient magnitudes up to 2^63, qindex up to 119 (HQ) / 99 (LD)")


def replay(case):
    return cc.replay_case(case, "C09")
