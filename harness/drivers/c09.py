"""C09 -- every decoded picture is well-formed.

Spec: CodecOps (Dims = 11.6.2, DepthOf = 11.6.3) + CodecTrace clauses C09.* evaluated by TLC on recorded decodes.
Inputs: every encoder stream of the TLC-enumerated configurations (CodecConfig.tla) and, for each, re-packed
streams: the encoder's bytes are deserialised, every slice's coefficients are replaced by adversarial values
(extreme +-2^k, random, alternating, DC-only, dangling past the end of the bounded block) with random qindex, the
length fields are made consistent, and the stream is re-serialised -- so the decoder sees arbitrary payloads in
valid slices.
Alarm (R1), on accepted streams only: C09.OneOutputPerPicture, C09.OutputAtCompletion (the callback fires while the
completing data unit is being parsed), C09.Dimensions, C09.SampleRange, C09.PictureNumber.
"""
from .. import common
from . import codec_common as cc


def selftest(ctx, cfgs):
    from vc2_conformance.pseudocode import picture_decoding as pd

    orig = pd.clip_component
    pd.clip_component = lambda state, comp_data, c: None
    try:
        recs = cc.selftest_runs(cfgs, lambda c: c["d"] + c["dho"] >= 1, n=4, repack=("extreme",))
    finally:
        pd.clip_component = orig
    bad, _, _ = cc.judge(recs)
    hit = [b for b in bad if b["clause"] == "C09.SampleRange"]
    if not hit:
        raise RuntimeError("binding self-test failed: a decoder without clipping was not flagged")
    good = cc.selftest_runs(cfgs, lambda c: True, n=4, repack=("extreme",))
    bad0, _, _ = cc.judge(good)
    dirty = set(b["line"] for b in bad0 if b["clause"].startswith("C09."))
    probe = [dict(r) for r in good]
    tgt = next((i for i, r in enumerate(probe) if r["pics"] and r["verdict"] == "accepted" and (i + 1) not in dirty), None)
    note = "skipped: every baseline run already violates C09"
    if tgt is not None:
        p0 = probe[tgt]["pics"][0]
        probe[tgt] = dict(probe[tgt], pics=[dict(p0, pn={"hi": p0["pn"]["hi"], "lo": (p0["pn"]["lo"] + 1) % 65536})] + probe[tgt]["pics"][1:])
        bad1, _, _ = cc.judge(probe)
        if not any(b["clause"] == "C09.PictureNumber" and b["line"] == tgt + 1 for b in bad1):
            raise RuntimeError("binding self-test failed: corrupted picture number not rejected")
        note = "pics[0].pn+1 rejected with C09.PictureNumber"
    return {"mutant": "clip_component replaced by a no-op (in-process monkeypatch)", "runs_flagged": len(hit), "corrupted_field": note}


def nontrivial(job, result):
    return any(r["kind"] == "repacked" and r["verdict"] == "accepted" and r["pics"] for r in result["records"])


def run(ctx):
    out = cc.run_family(
        ctx,
        "C09",
        repack_per_cfg=ctx.pick(1, 2),
        selftest=selftest,
        nontrivial=nontrivial,
        rule="every stream (encoder output + re-packed variants) decoded by the real validator/decoder and accepted; evaluations = accepted streams with >= 1 output picture judged by the C09 clauses; non-trivial = configuration with an accepted re-packed stream",
    )
    stats = {}
    fails = 0
    for r in out["results"]:
        for x in r["detail"].get("repack", []):
            if "build_failed" in x:
                fails += 1
                stats.setdefault("build_failed:" + x["build_failed"], 0)
                stats["build_failed:" + x["build_failed"]] += 1
            else:
                k = "%s:%s" % (x["class"], x["verdict"])
                stats[k] = stats.get(k, 0) + 1
                stats["dangling_blocks"] = stats.get("dangling_blocks", 0) + x["dangling_blocks"]
    ctx.coverage["repacked_streams"] = stats
    ctx.coverage["out_of_scope"] = fails
    rp_ok = sum(v for k, v in stats.items() if k.endswith(":accepted"))
    if rp_ok == 0 or stats.get("dangling_blocks", 0) == 0:
        raise RuntimeError("vacuous: no accepted re-packed stream / no dangling block (%s)" % stats)
    ctx.coverage["supplementary_streams"] = supplement(ctx, out["cfgs"])
    ctx.coverage["base_video_format_default_streams"] = base_format_supplement(ctx)
    ctx.assumptions.append("re-packed coefficient magnitudes up to 2^63, qindex up to 119 (HQ) / 99 (LD)")


# ---------------------------------------------------------------------------------- supplement
# Two kinds of accepted streams the encoder never produces by itself (added after independently seeded changes
# showed that the encoder-shaped corpus cannot see them):
#  * "mixed":  one sequence whose pictures use DIFFERENT transform depths (per-picture transform parameters are
#              legal): pictures of a second encoding (other dwt_depth / dwt_depth_ho) spliced in at byte level;
#  * "wide":   custom signal ranges whose excursion + 1 is 2^29 (29-bit samples), with extreme coefficients.
def _encode(features, pictures, *patterns):
    from io import BytesIO
    from vc2_conformance.encoder.sequence import make_sequence
    from vc2_conformance.bitstream import Stream, autofill_and_serialise_stream

    f = BytesIO()
    autofill_and_serialise_stream(f, Stream(sequences=[make_sequence(features, pictures, *patterns)]))
    return f.getvalue()


def execute_supp(job):
    import random
    from io import BytesIO
    from .. import corpus
    from vc2_conformance.bitstream import autofill_and_serialise_stream

    kind, c, seed, tid = job["kind"], job["c"], job["seed"], job["tid"]
    cfg = dict(c["cfg"], qm="zeros", pn="zero")
    outcome = c["outcome"]
    rec = dict(cc.EMPTY_STREAM)
    rec.update({"tid": tid, "ev": "run", "kind": "repacked", "cfg": cfg, "npics": cfg["npics"], "enc": "ok", "ser": "ok", "verdict": "none", "pics": [], "klass": kind})
    try:
        if kind == "mixed":
            alt = [x for x in ((0, 0), (1, 0), (2, 0), (0, 1), (1, 1), (0, 2)) if x != (cfg["d"], cfg["dho"])]
            d2, dho2 = alt[seed % len(alt)]
            cfg2 = dict(cfg, d=d2, dho=dho2)
            n = 2 if cfg["pcm"] == 1 else 1 + seed % 2
            parts = []
            for k, cf in enumerate((cfg, cfg2, cfg)):
                pics = cc.make_pictures(dict(cf, npics=n, pn="auto"), outcome, seed + k)
                for i, pic in enumerate(pics):
                    pic["pic_num"] = k * n + i
                parts.append(_encode(cc.make_features(cf, outcome), pics))
            # byte-level splice: all of A except its end_of_sequence, the picture/fragment units of B and of A again
            def units(data):
                offs = corpus.pi_offsets(data)
                return [data[o:(offs[i + 1] if i + 1 < len(offs) else len(data))] for i, o in enumerate(offs)]

            ua, ub, uc = units(parts[0]), units(parts[1]), units(parts[2])
            data = corpus.fix_offsets(b"".join(ua[:-1] + ub[1:-1] + uc[1:]))
            rec["npics"] = 3 * n
        elif kind == "padded":
            # padding / auxiliary data / repeated sequence headers after EVERY data unit (also between and after
            # the fragments of a picture): the number of outputs must still be the number of coded pictures
            pat = ["(. padding_data)+ end_of_sequence", "(. auxiliary_data)+ end_of_sequence", "(sequence_header .)+"][seed % 3]
            pics = cc.make_pictures(dict(cfg, pn="auto"), outcome, seed)
            data = _encode(cc.make_features(cfg, outcome), pics, pat)
        else:
            feats = cc.make_features(cfg, outcome)
            vp = feats["video_parameters"]
            vp["luma_offset"], vp["luma_excursion"] = 0, (1 << 29) - 1
            vp["color_diff_offset"], vp["color_diff_excursion"] = 1 << 28, (1 << 29) - 1
            out2 = dict(outcome, ydepth=29, cdepth=29)
            pics = cc.make_pictures(dict(cfg, pn="auto"), out2, seed)
            s2 = cc.read_back(_encode(feats, pics))
            cc.repack(s2, random.Random(seed), "extreme")
            f2 = BytesIO()
            autofill_and_serialise_stream(f2, s2)
            data = f2.getvalue()
        rec.update(cc.project_stream(cc.read_back(data)))
    except Exception as e:  # noqa: harness could not build this input -> not a verdict
        rec["ser"] = "crash"
        return {"records": [rec], "detail": {"exc": "build:" + common.exc_signature(e)}}
    v, sig, pics = cc.decode(data, None, None)
    rec["verdict"], rec["pics"] = v, pics
    return {"records": [rec], "detail": {"exc": sig, "bytes_hex": data.hex() if len(data) < 3000 else ""}}


def execute_base(job):
    """A hand-assembled stream (harness/vc2bytes.py) whose sequence header takes its frame size, colour-difference
    format and signal range from a BASE VIDEO FORMAT (custom_dimensions_flag = 0; only a small custom clean area),
    with one all-zero high-quality picture (no transform, one slice).  What "the sequence header implies" is
    taken from the third-party table vc2_data_tables.BASE_VIDEO_FORMAT_PARAMETERS, not from the decoder."""
    from vc2_data_tables import BASE_VIDEO_FORMAT_PARAMETERS, BaseVideoFormats, PRESET_SIGNAL_RANGES
    from .. import vc2bytes as vb

    base, fields, tid = job["base"], job["fields"], job["tid"]
    par = BASE_VIDEO_FORMAT_PARAMETERS[BaseVideoFormats(base)]
    sr = PRESET_SIGNAL_RANGES[par.signal_range_index]
    f = vb.Fmt(profile="HQ", version=2, slices_x=1, slices_y=1)
    npics = 2 if fields else 1
    units = [dict(code=vb.PC_SH, payload=vb.sequence_header_base_defaults(base, fields=fields), first_in_sequence=True)]
    for pn in range(npics):
        units.append(dict(code=vb.PC_HQ_PIC, payload=vb.picture_payload(f, "HQ", pn)))
    units.append(dict(code=vb.PC_EOS, payload=b"", npo="zero"))
    data, _ = vb.assemble(units)
    rec = dict(cc.EMPTY_STREAM)
    rec.update({"tid": tid, "ev": "run", "kind": "repacked", "cfg": {"base": base, "fields": fields}, "npics": npics, "enc": "ok", "ser": "ok", "verdict": "none", "pics": [], "klass": "base"})
    try:
        rec.update(cc.project_stream(cc.read_back(data)))
    except Exception as e:  # noqa
        rec["ser"] = "crash"
        return {"records": [rec], "detail": {"exc": "build:" + common.exc_signature(e)}}
    v, sig, pics = cc.decode(data, None, None)
    for p in pics:
        # expectation from the standard's table (third party), not from what the decoder reported
        p["hdr"] = {"w": par.frame_width, "h": par.frame_height, "cdf": int(par.color_diff_format_index), "pcm": 1 if fields else 0,
                    "le": sr.luma_excursion, "ce": sr.color_diff_excursion}
    rec["verdict"], rec["pics"] = v, pics
    return {"records": [rec], "detail": {"exc": sig, "bytes_hex": data.hex()}}


def base_format_supplement(ctx):
    bases = ctx.pick([0, 1, 2, 3, 4, 5, 6, 7, 8, 9, 22], [0, 1, 2, 3, 4, 5, 6, 7, 8, 9, 10, 11, 13, 15, 21, 22])
    jobs = [{"base": b, "fields": bool(i % 2), "tid": i + 1} for i, b in enumerate(bases)]
    results = common.pmap(execute_base, jobs)
    records = [r["records"][0] for r in results]
    bad, applied, res = cc.judge(records)
    ctx.add_tlc(res, "trace validation (CodecTrace) of %d hand-assembled streams that rely on base video format defaults" % len(records))
    for b in bad:
        if b["clause"].startswith("C09.") and b["alarm"]:
            j = jobs[b["line"] - 1]
            r = records[b["line"] - 1]
            ctx.violation("C09|%s|base-format-defaults|" % b["clause"].split(".", 1)[1], "%s on a stream taking its frame size from base video format %d (%s): decoded %s" % (b["clause"], j["base"], "fields" if j["fields"] else "frames", [(p["yw"], p["yh"], p["cw"], p["ch"]) for p in r["pics"]]), {"basefmt": j})
    acc = sum(1 for r in records if r["verdict"] == "accepted" and r["pics"])
    stats = {"streams": len(records), "accepted_with_pictures": acc, "verdicts": dict((str(j["base"]), r["verdict"]) for j, r in zip(jobs, records))}
    if acc < len(records) - 2:
        # a validator that rejects these conformant streams is C01's business; here it only empties the premise
        stats["note"] = "most base-format streams were not accepted: the C09 premise is (nearly) empty for them"
    return stats


def supplement(ctx, cfgs):
    lossless = [c for c in cfgs if c["cfg"]["mode"] == "hq_lossless"]
    jobs = []
    for i, c in enumerate(lossless[: ctx.pick(120, 1200)]):
        jobs.append({"kind": "mixed", "c": c, "seed": ctx.seed * 7 + i, "tid": len(jobs) + 1})
    for i, c in enumerate([c for c in lossless if c["cfg"]["d"] + c["cfg"]["dho"] >= 1][: ctx.pick(60, 400)]):
        jobs.append({"kind": "wide", "c": c, "seed": ctx.seed * 11 + i, "tid": len(jobs) + 1})
    for i, c in enumerate(sorted(lossless, key=lambda c: -c["cfg"]["fsc"])[: ctx.pick(90, 600)]):
        jobs.append({"kind": "padded", "c": c, "seed": ctx.seed * 13 + i, "tid": len(jobs) + 1})
    results = common.pmap(execute_supp, jobs)
    records = [r["records"][0] for r in results]
    bad, applied, res = cc.judge(records)
    ctx.add_tlc(res, "trace validation (CodecTrace) of %d supplementary runs (mixed transform parameters, 29-bit ranges)" % len(records))
    stats = {}
    for j, r in zip(jobs, records):
        k = "%s:%s" % (j["kind"], r["verdict"] if r["ser"] == "ok" else "build_failed")
        stats[k] = stats.get(k, 0) + 1
    for b in bad:
        if b["clause"].startswith("C09.") and b["alarm"]:
            j = jobs[b["line"] - 1]
            r = records[b["line"] - 1]
            ctx.violation("C09|%s|%s|" % (b["clause"].split(".", 1)[1], j["kind"]), "%s on a %s stream of cfg %s (%d pictures output)" % (b["clause"], j["kind"], r["cfg"], len(r["pics"])), {"supp": {"kind": j["kind"], "c": j["c"], "seed": j["seed"], "tid": 1}})
    if stats.get("mixed:accepted", 0) < 10 or stats.get("wide:accepted", 0) < 5 or stats.get("padded:accepted", 0) < 10:
        raise RuntimeError("vacuous supplement: %s" % stats)
    return stats


def replay(case):
    if "basefmt" in case:
        r = execute_base(dict(case["basefmt"], tid=1))
        bad, _, _ = cc.judge(r["records"])
        return {"violations": [b for b in bad if b["alarm"] and b["clause"].startswith("C09.")], "detail": r["detail"]}
    if "supp" in case:
        r = execute_supp(case["supp"])
        bad, _, _ = cc.judge(r["records"])
        return {"violations": [b for b in bad if b["alarm"] and b["clause"].startswith("C09.")], "detail": r["detail"]}
    return cc.replay_case(case, "C09")
