"""C20 -- bit-level readers and writers agree on every primitive.

Spec: spec/BitIO.tla + BitIOOps.tla.  TLC (workers=1: the VIEW/hist idiom needs strict BFS) explores
  * writer programs (<= MaxLen ops of the alphabet WOps: all primitives with in-range, boundary and
    out-of-range values, bounded blocks of length -2..8, seeks, flushes), and
  * reader programs over *every* whole-byte padding of every bit string of <= MaxBits bits.
G: every dumped history is executed on the real BitstreamWriter, then read back with BitstreamReader and
   with the validator's reader (decoder.io); reader histories are run on both readers over the file.
T: random long programs with values up to 2^90 and random files are recorded and judged by BitIOTrace.tla.

Alarm clauses (exactly the statement of C20):
  readback    a value the design says is intact in the flushed file is not read back identically / at the
              same bit position (tell, bits_remaining) by one of the two readers
  length      exp_golomb_length / signed_exp_golomb_length != bits written
  outofrange  out-of-range value not refused with OutOfRangeError, or something was written / moved
  block       1 bits past the end of a bounded block not accepted, 0 bits not rejected, reads past the end != 1
  readers     BitstreamReader and decoder.io disagree (value, position, end-of-stream) on a bit string
Everything else the spec predicts (exact tell after every op, flushed file bytes, bits_remaining after seeks,
`Exception` for nesting errors) is compared and counted under spec_disagreements only.
"""
import glob
import io
import os
import random
import re

from .. import common, tlc, tlaval, trace

_MOD = {}


def M():
    if not _MOD:
        from bitarray import bitarray
        from vc2_conformance.bitstream import io as bio
        from vc2_conformance.bitstream import exp_golomb
        from vc2_conformance.bitstream.exceptions import OutOfRangeError
        from vc2_conformance.decoder import io as dio
        from vc2_conformance.decoder.exceptions import UnexpectedEndOfStream
        from vc2_conformance.pseudocode.state import State

        _MOD.update(
            bitarray=bitarray, bio=bio, eg=exp_golomb, OOR=OutOfRangeError, dio=dio, UEOS=UnexpectedEndOfStream, State=State
        )
    return _MOD


def exc_kind(e):
    m = M()
    if isinstance(e, m["OOR"]):
        return "OutOfRangeError"
    if isinstance(e, ValueError):
        return "ValueError"
    if isinstance(e, (EOFError, m["UEOS"])):
        return "EOF"
    if type(e) is Exception:
        return "Exception"
    return "other:" + type(e).__name__


def bits_of_bytes(data):
    out = []
    for b in bytearray(data):
        for i in range(7, -1, -1):
            out.append((b >> i) & 1)
    return out


def bytes_of_bits(bits):
    assert len(bits) % 8 == 0
    out = bytearray()
    for i in range(0, len(bits), 8):
        v = 0
        for b in bits[i : i + 8]:
            v = (v << 1) | b
        out.append(v)
    return bytes(out)


def pos_of(tell):
    return tell[0] * 8 + (7 - tell[1])


INT_OPS = ("bit", "nbits", "uintlit", "uint", "sint")
VALUE_OPS = INT_OPS + ("bitarray", "bytes")


# ------------------------------------------------------------------------------ concretisation
def do_write(w, o):
    m = M()
    op = o["op"]
    if op == "bit":
        return w.write_bit(o["v"])
    if op == "nbits":
        return w.write_nbits(o["n"], o["v"])
    if op == "uintlit":
        return w.write_uint_lit(o["n"], o["v"])
    if op == "uint":
        return w.write_uint(o["v"])
    if op == "sint":
        return w.write_sint(o["v"])
    if op == "bitarray":
        return w.write_bitarray(o["n"], m["bitarray"](list(o["s"])))
    if op == "bytes":
        return w.write_bytes(o["n"], bytes(bytearray(o["s"])))
    if op == "bbegin":
        return w.bounded_block_begin(o["n"])
    if op == "bend":
        return w.bounded_block_end()
    if op == "seek":
        return w.seek(o["n"], o["v"])
    if op == "flush":
        return w.flush()
    raise RuntimeError("unknown write op %r" % (o,))


def do_read_bs(r, o):
    """One primitive on a BitstreamReader; value projected to int or list of bits."""
    op = o["op"]
    if op == "bit":
        return r.read_bit()
    if op == "nbits":
        return r.read_nbits(o["n"])
    if op == "uintlit":
        return r.read_uint_lit(o["n"])
    if op == "uint":
        return r.read_uint()
    if op == "sint":
        return r.read_sint()
    if op == "bitarray":
        return r.read_bitarray(o["n"]).tolist()
    if op == "bytes":
        return bits_of_bytes(r.read_bytes(o["n"]))
    if op == "bbegin":
        r.bounded_block_begin(o["n"])
        return 0
    if op == "bend":
        return r.bounded_block_end()
    if op == "bendflush":
        n = r.bounded_block_end()
        r.read_bitarray(n)
        return n
    if op == "align":
        _, bits = r.tell()
        k = 0 if bits == 7 else bits + 1
        r.read_bitarray(k)
        return k
    if op == "seek":
        r.seek(o["n"], o["v"])
        return 0
    raise RuntimeError("unknown read op %r" % (o,))


class DecReader(object):
    """The validator's reader (vc2_conformance.decoder.io) behind the same op alphabet.

    Bounded blocks are state['bits_left'] + the *b functions.  `dead` = the op sequence left what this
    reader can express (negative block length, seek inside a block)."""

    def __init__(self, data, byte=0, bit=7):
        m = M()
        self.f = io.BytesIO(data)
        self.inblock = False
        self.dead = False
        self._open(byte, bit)

    def _open(self, byte, bit):
        m = M()
        self.f.seek(byte)
        self.state = m["State"]()
        m["dio"].init_io(self.state, self.f)
        if bit != 7:
            self.state["next_bit"] = bit

    def tell(self):
        return M()["dio"].tell(self.state)

    def left(self):
        return self.state["bits_left"] if self.inblock else None

    def _bit(self):
        d = M()["dio"]
        return d.read_bitb(self.state) if self.inblock else d.read_bit(self.state)

    def _bits(self, n):
        return [self._bit() for _ in range(n)]

    def do(self, o):
        d = M()["dio"]
        st = self.state
        op = o["op"]
        if op == "bit":
            return self._bit()
        if op in ("nbits", "uintlit"):
            n = o["n"] * (8 if op == "uintlit" else 1)
            if self.inblock:
                v = 0
                for _ in range(n):
                    v = (v << 1) | self._bit()
                return v
            return d.read_uint_lit(st, o["n"]) if op == "uintlit" else d.read_nbits(st, n)
        if op == "uint":
            return d.read_uintb(st) if self.inblock else d.read_uint(st)
        if op == "sint":
            return d.read_sintb(st) if self.inblock else d.read_sint(st)
        if op == "bitarray":
            return self._bits(o["n"])
        if op == "bytes":
            return self._bits(8 * o["n"])
        if op == "bbegin":
            if self.inblock:
                raise Exception("nested")
            if o["n"] < 0:
                self.dead = True
                return 0
            st["bits_left"] = o["n"]
            self.inblock = True
            return 0
        if op == "bend":
            if not self.inblock:
                raise Exception("not in block")
            self.inblock = False
            return st["bits_left"]
        if op == "bendflush":
            if not self.inblock:
                raise Exception("not in block")
            n = st["bits_left"]
            try:
                d.flush_inputb(st)
            finally:
                self.inblock = False
            return n
        if op == "align":
            _, bits = self.tell()
            k = 0 if bits == 7 else bits + 1
            d.byte_align(st)
            return k
        if op == "seek":
            if self.inblock:
                self.dead = True
                return 0
            self._open(o["n"], o["v"])
            return 0
        raise RuntimeError("unknown read op %r" % (o,))


def attempt(fn, *a):
    try:
        return fn(*a), "none"
    except Exception as e:  # noqa
        return None, exc_kind(e)


# ------------------------------------------------------------------------------ G: writer histories
def written_value(step):
    o = step["o"]
    if o["op"] in INT_OPS:
        return o["v"]
    return list(step["emit"])


PREFIX_BYTE = b"\xa5"  # BitIO.tla PrefixBits: 1,0,1,0,0,1,0,1


def replay_writer(hist, fin, base=0):
    """Execute a writer history on the real writer, read it back with both readers.  base = number of bytes
    already in the file object (and its position) when the writer is created (BitIO.tla `base`).

    returns dict(violations=[(sig, what)], dis=int, evals=int)"""
    m = M()
    bio = m["bio"]
    f = io.BytesIO()
    f.write(PREFIX_BYTE * base)
    w = bio.BitstreamWriter(f)
    viol = []
    dis = 0
    real = []
    for i, s in enumerate(hist):
        o = s["o"]
        op = o["op"]
        t0 = w.tell()
        rem0 = w.bits_remaining
        snap = (f.getvalue(), w._current_byte) if s["err"] == "OutOfRangeError" else None
        ret, err = attempt(do_write, w, o)
        t1 = w.tell()
        rem1 = w.bits_remaining
        real.append(dict(t0=t0, t1=t1, rem0=rem0, rem1=rem1, err=err, ret=ret))
        # P3: out-of-range values are refused and nothing is written
        if s["err"] == "OutOfRangeError":
            if err != "OutOfRangeError":
                viol.append(("C20|outofrange|not-refused|" + op, "%s: expected OutOfRangeError, got %s" % (o, err)))
            elif t1 != t0 or rem1 != rem0 or snap != (f.getvalue(), w._current_byte):
                viol.append(("C20|outofrange|wrote-something|" + op, "%s: refused but the writer moved %s->%s / changed its buffer" % (o, t0, t1)))
        elif err == "OutOfRangeError":
            viol.append(("C20|readback|in-range-value-refused|" + op, "%s refused with OutOfRangeError although in range" % (o,)))
        # P4: bounded block rule, bit by bit (the spec applies it to every bit of the primitive)
        elif op in VALUE_OPS and s["on0"] and (s["err"] == "ValueError") != (err == "ValueError"):
            viol.append(("C20|block|%s|%s" % ("zero-not-rejected" if s["err"] == "ValueError" else "one-rejected", op), "%s in block with %s bits left: spec %s, writer %s" % (o, s["rem0"], s["err"], err)))
        elif err != s["err"]:
            if op in VALUE_OPS:
                viol.append(("C20|readback|write-failed|%s|%s" % (op, err), "%s raised %s (spec: %s)" % (o, err, s["err"])))
            else:
                dis += 1
        # P2: length functions = bits written (outside blocks)
        if op in ("uint", "sint") and not s["on0"]:
            fn = m["eg"].exp_golomb_length if op == "uint" else m["eg"].signed_exp_golomb_length
            ln, lerr = attempt(fn, o["v"])
            if s["err"] == "OutOfRangeError":
                if lerr != "OutOfRangeError":
                    viol.append(("C20|outofrange|length-fn|" + op, "%s(%d) returned %r instead of raising OutOfRangeError" % (fn.__name__, o["v"], ln)))
            elif err == "none":
                nw = pos_of(t1) - pos_of(t0)
                if lerr != "none" or ln != nw:
                    viol.append(("C20|length|" + op, "%s(%d) = %r (%s) but %d bits were written" % (fn.__name__, o["v"], ln, lerr, nw)))
                if ln != s["len"]:
                    dis += 1
        if pos_of(t1) != s["p1"] or (s["on1"] and rem1 != s["rem1"]) or (rem1 is not None) != s["on1"]:
            dis += 1
        if op == "bend" and err == "none" and ret != max(0, s["rem0"]):
            dis += 1
    w.flush()
    data = f.getvalue()
    if bits_of_bytes(data) != list(fin["file"]):
        dis += 1
    evals = 0
    # P1 (per step): every step whose placed bits are intact in the flushed file reads back as written
    for i, s in enumerate(hist):
        if not fin["intact"][i]:
            continue
        o = s["o"]
        rw = real[i]
        if rw["err"] != "none":
            continue
        want = written_value(s)
        # BitstreamReader
        evals += 1
        r = bio.BitstreamReader(io.BytesIO(data))
        r.seek(*rw["t0"])
        if rw["rem0"] is not None:
            r.bounded_block_begin(rw["rem0"])
        v, err = attempt(do_read_bs, r, o)
        if err != "none" or v != want:
            viol.append(("C20|readback|value|%s|BitstreamReader" % o["op"], "wrote %s at %s (block %s) read back %r (%s)" % (o, rw["t0"], rw["rem0"], v, err)))
        elif r.tell() != rw["t1"] or r.bits_remaining != rw["rem1"]:
            viol.append(("C20|readback|position|%s|BitstreamReader" % o["op"], "wrote %s: writer ends at %s/%s, reader at %s/%s" % (o, rw["t1"], rw["rem1"], r.tell(), r.bits_remaining)))
        # decoder.io
        if rw["rem0"] is not None and rw["rem0"] < 0:
            continue
        evals += 1
        d = DecReader(data, *rw["t0"])
        if rw["rem0"] is not None:
            d.do({"op": "bbegin", "n": rw["rem0"]})
        v, err = attempt(d.do, o)
        if err != "none" or v != want:
            viol.append(("C20|readback|value|%s|decoder.io" % o["op"], "wrote %s at %s (block %s) read back %r (%s)" % (o, rw["t0"], rw["rem0"], v, err)))
        elif d.tell() != rw["t1"] or (rw["rem1"] is not None and d.left() != max(0, rw["rem1"])):
            viol.append(("C20|readback|position|%s|decoder.io" % o["op"], "wrote %s: writer ends at %s/%s, reader at %s/%s" % (o, rw["t1"], rw["rem1"], d.tell(), d.left())))
    # P1 (sequence): a program whose written values are all intact (always so without seeks) and which has no
    # half-written primitive is re-read in one pass, the reader mirroring blocks and seeks
    all_intact = all(fin["intact"][i] for i, s in enumerate(hist) if s["o"]["op"] in VALUE_OPS and s["err"] == "none")
    if all_intact and all(x["err"] != "ValueError" for x in real):
        r = bio.BitstreamReader(io.BytesIO(data))
        r.seek(base, 7)
        d = DecReader(data, base, 7)
        for s, rw in zip(hist, real):
            o = s["o"]
            if o["op"] == "flush" or rw["err"] != "none":
                continue
            evals += 1
            v, err = attempt(do_read_bs, r, o)
            ok = err == "none" and r.tell() == rw["t1"] and r.bits_remaining == rw["rem1"]
            if ok and o["op"] in VALUE_OPS:
                ok = v == written_value(s)
            if ok and o["op"] == "bend":
                ok = v == rw["ret"]
            if not ok:
                viol.append(("C20|readback|sequence|%s|BitstreamReader" % o["op"], "program %s: at %s reader got %r (%s) at %s/%s, writer was at %s/%s" % ([x["o"] for x in hist], o, v, err, r.tell(), r.bits_remaining, rw["t1"], rw["rem1"])))
                break
            if not d.dead:
                v, err = attempt(d.do, o)
                if d.dead:
                    continue
                ok = err == "none" and d.tell() == rw["t1"] and (rw["rem1"] is None or d.left() == max(0, rw["rem1"]))
                if ok and o["op"] in VALUE_OPS:
                    ok = v == written_value(s)
                if not ok:
                    viol.append(("C20|readback|sequence|%s|decoder.io" % o["op"], "program %s: at %s reader got %r (%s) at %s/%s, writer was at %s/%s" % ([x["o"] for x in hist], o, v, err, d.tell(), d.left(), rw["t1"], rw["rem1"])))
                    break
    return {"violations": viol, "dis": dis, "evals": evals + len(hist)}


# ------------------------------------------------------------------------------ G: reader histories
def replay_reader(fbits, hist):
    m = M()
    data = bytes_of_bits(list(fbits))
    r = m["bio"].BitstreamReader(io.BytesIO(data))
    d = DecReader(data)
    viol = []
    dis = 0
    prog = [s["o"] for s in hist]
    for s in hist:
        o = s["o"]
        op = o["op"]
        t0 = r.tell()
        v, err = attempt(do_read_bs, r, o)
        t1 = r.tell()
        rem = r.bits_remaining
        # P4: reads past the end of a bounded block yield 1 and do not move
        if s["pastend"] and (err != "none" or v != 1 or t1 != t0):
            viol.append(("C20|block|read-past-end|BitstreamReader", "file %s program %s: read past the block end gave %r (%s), %s->%s" % (data.hex(), prog, v, err, t0, t1)))
        # spec's exact prediction: logged only
        if err != s["err"] or pos_of(t1) != s["pos"] or (rem is not None) != s["on"] or (s["on"] and rem != s["rem"]):
            dis += 1
        elif err == "none" and v != (list(s["v"]) if isinstance(s["v"], tuple) else s["v"]):
            dis += 1
        if d.dead:
            continue
        if err == "Exception" and not (op == "seek"):
            # nesting errors of the BitstreamReader API have no counterpart in decoder.io: no-op there
            continue
        dleft0 = d.left()
        dt0 = d.tell()
        dv, derr = attempt(d.do, o)
        if d.dead:
            continue
        if s["pastend"] and (derr != "none" or dv != 1 or d.tell() != dt0):
            viol.append(("C20|block|read-past-end|decoder.io", "file %s program %s: read past the block end gave %r (%s)" % (data.hex(), prog, dv, derr)))
        # P5: the two readers agree
        same = derr == err and d.tell() == t1 and (d.left() is None) == (rem is None) and (rem is None or d.left() == max(0, rem))
        if same and err == "none":
            same = dv == v
        if not same:
            viol.append(("C20|readers|%s" % op, "file %s program %s: at %s BitstreamReader -> %r (%s) at %s/%s, decoder.io -> %r (%s) at %s/%s" % (data.hex(), prog, o, v, err, t1, rem, dv, derr, d.tell(), d.left())))
            break
    return {"violations": viol, "dis": dis, "evals": 2 * len(hist)}


# ------------------------------------------------------------------------------ dump handling
_HDR = re.compile(r"^State \d+:.*$|^STATE_\d+ ==.*$", re.M)


def chunk_offsets(path, nchunks):
    with open(path) as fh:
        text = fh.read()
    starts = [m_.start() for m_ in _HDR.finditer(text)]
    if not starts:
        return []
    step = max(1, len(starts) // nchunks + 1)
    cuts = starts[::step] + [len(text)]
    return [(path, cuts[i], cuts[i + 1]) for i in range(len(cuts) - 1)]


def replay_state(st):
    if st["mode"] == "w":
        return replay_writer(st["hist"], st["fin"], st.get("base", 0))
    return replay_reader(st["f"], st["hist"])


def case_of(st):
    return {"mode": st["mode"], "f": list(st["f"]), "base": st.get("base", 0), "hist": tlaval.to_jsonable(st["hist"]), "fin": tlaval.to_jsonable(st["fin"])}


def work_chunk(arg):
    path, a, b = arg
    with open(path) as fh:
        fh.seek(a)
        text = fh.read(b - a)
    hdrs = list(_HDR.finditer(text))
    out = {"n": 0, "nontrivial": 0, "evals": 0, "dis": 0, "viol": [], "ops": {}, "samples": []}
    for j, h in enumerate(hdrs):
        end = hdrs[j + 1].start() if j + 1 < len(hdrs) else len(text)
        st = tlaval.parse_state_block(text[h.end() : end])
        if not st["hist"]:
            out["empty"] = out.get("empty", 0) + 1
            continue
        res = replay_state(st)
        out["n"] += 1
        out["nontrivial"] += 1 if len(st["hist"]) >= 2 else 0
        out["evals"] += res["evals"]
        out["dis"] += res["dis"]
        key = "%s:%s" % (st["mode"], st["inp"]["op"])
        out["ops"][key] = out["ops"].get(key, 0) + 1
        if st.get("base", 0) > 0:
            out["ops"]["w:created-at-nonzero-file-position"] = out["ops"].get("w:created-at-nonzero-file-position", 0) + 1
        if res["violations"] and len(out["viol"]) < 40:
            c = case_of(st)
            for sig, what in res["violations"]:
                out["viol"].append((sig, what, c))
        if len(out["samples"]) < 1 and len(st["hist"]) >= 2:
            out["samples"].append(case_of(st))
    return out


def work_simfile(path):
    with open(path) as fh:
        text = fh.read()
    hdrs = list(_HDR.finditer(text))
    out = {"n": 0, "nontrivial": 0, "evals": 0, "dis": 0, "viol": [], "ops": {}, "samples": []}
    if not hdrs:
        return out
    st = tlaval.parse_state_block(text[hdrs[-1].end() :].split("\n=====")[0])
    if not st["hist"]:
        return out
    res = replay_state(st)
    out.update(n=1, nontrivial=1, evals=res["evals"], dis=res["dis"])
    for s in st["hist"]:
        key = "%s:%s" % (st["mode"], s["o"]["op"])
        out["ops"][key] = out["ops"].get(key, 0) + 1
    c = case_of(st)
    for sig, what in res["violations"]:
        out["viol"].append((sig, what, c))
    return out


def merge(parts):
    tot = {"n": 0, "nontrivial": 0, "evals": 0, "dis": 0, "viol": [], "ops": {}, "samples": []}
    for p in parts:
        for k in ("n", "nontrivial", "evals", "dis"):
            tot[k] += p[k]
        tot["viol"] += p["viol"]
        tot["samples"] += p["samples"][:1]
        for k, v in p["ops"].items():
            tot["ops"][k] = tot["ops"].get(k, 0) + v
    return tot


CFG_W = "mc/BitIO_w.cfg"
CFG_R = "mc/BitIO_r.cfg"


def cfg_text(name, **subst):
    with open(os.path.join(tlc.SPEC, name)) as fh:
        text = fh.read()
    for k, v in subst.items():
        text, n = re.subn(r"^(\s*%s\s*=).*$" % k, r"\g<1> %s" % v, text, flags=re.M)
        if n != 1:
            raise RuntimeError("cfg %s has no constant %s" % (name, k))
    return text


# the box is shared: keep the JVM from spawning one GC/JIT thread per core for a single-worker TLC
JVM_ENV = {"JAVA_TOOL_OPTIONS": "-XX:ParallelGCThreads=2 -XX:CICompilerCount=2 -XX:TieredStopAtLevel=1 -Xss64m"}


def _cached_run(mod, cfg, kw):
    """tlc.run, or (development aid, opt-in via VERIF_DEV_TLC_CACHE=<dir>) a pickled earlier result: TLC's
    output depends only on the spec, so mutation runs against a scratch worktree can reuse it."""
    cache = os.environ.get("VERIF_DEV_TLC_CACHE")
    if not cache:
        return tlc.run(mod, cfg, workers=1, env=JVM_ENV, **kw)
    import hashlib
    import pickle
    import shutil

    h = hashlib.sha1()
    for fn in sorted(glob.glob(os.path.join(tlc.SPEC, "BitIO*.tla")) + glob.glob(os.path.join(tlc.SPEC, "SerDes*.tla"))):
        h.update(open(fn, "rb").read())
    text = cfg if "\n" in cfg else open(os.path.join(tlc.SPEC, cfg)).read()
    h.update((mod + text + repr(sorted(kw.items()))).encode())
    base = os.path.join(cache, h.hexdigest())
    if os.path.exists(base + ".pkl"):
        res = pickle.load(open(base + ".pkl", "rb"))
        return res
    res = tlc.run(mod, cfg, workers=1, env=JVM_ENV, **kw)
    os.makedirs(cache, exist_ok=True)
    if res.dump_path:
        shutil.copy(res.dump_path, base + ".dump")
        res.dump_path = base + ".dump"
    pickle.dump(res, open(base + ".pkl", "wb"))
    return res


def tlc_parallel(jobs):
    """Run several single-worker TLC jobs concurrently (threads); jobs = [(module, cfg, kwargs)]."""
    import threading

    out = [None] * len(jobs)

    def one(i):
        mod, cfg, kw = jobs[i]
        try:
            out[i] = _cached_run(mod, cfg, kw)
        except BaseException as e:  # noqa
            out[i] = e

    ths = [threading.Thread(target=one, args=(i,)) for i in range(len(jobs))]
    for t in ths:
        t.start()
    for t in ths:
        t.join()
    for r in out:
        if isinstance(r, BaseException):
            raise r
    return out


def run_exhaustive(ctx, name, res, constants):
    ctx.add_tlc(res, name, constants)
    parts = common.pmap(work_chunk, chunk_offsets(res.dump_path, 128), chunksize=1)
    tot = merge(parts)
    empty = sum(p.get("empty", 0) for p in parts)
    if tot["n"] + empty != res.distinct or empty == 0:
        raise RuntimeError("dump of %s yielded %d histories + %d initial states for %d distinct states" % (name, tot["n"], empty, res.distinct))
    return res, tot


# ------------------------------------------------------------------------------ binding self-tests
def selftest_G():
    """Broken implementations (in-process, restored in finally) must be flagged by the same replay code.

    A mutant counts as flagged when the replay reports a signature it does not report for the code as it is
    (if the code under test already violates on the probe the main check reports that; the probe is then
    inconclusive rather than a machinery failure)."""
    m = M()
    bio = m["bio"]
    dio = m["dio"]
    fired = {}
    O = lambda op, n=0, v=0, s=(): {"op": op, "n": n, "v": v, "s": tuple(s)}  # noqa

    def wstep(o, p0, p1, err="none", on0=False, rem0=0, on1=False, rem1=0, placed=None, ln=0, emit=()):
        return dict(o=o, p0=p0, p1=p1, err=err, on0=on0, rem0=rem0, on1=on1, rem1=rem1, placed=p1 - p0 if placed is None else placed, len=ln, emit=tuple(emit))

    def sigs(res):
        return set(sg for sg, _ in res["violations"])

    def probe(name, run, obj, attr, broken):
        base = sigs(run())
        orig = getattr(obj, attr)
        setattr(obj, attr, broken(orig))
        try:
            new = sigs(run()) - base
        finally:
            setattr(obj, attr, orig)
        if new:
            fired[name] = sorted(new)
        elif base:
            fired[name] = "inconclusive: the code under test is already flagged on this probe (%s)" % sorted(base)
        else:
            raise RuntimeError("binding self-test failed: mutant %r was not flagged" % name)

    # 1. reader drops the sign of read_sint -> readback value
    hist = [wstep(O("sint", v=-1), 0, 4, ln=4, emit=(0, 0, 1, 1))]
    fin = {"file": (0, 0, 1, 1, 0, 0, 0, 0), "intact": (True,)}
    probe("BitstreamReader.read_sint drops the sign", lambda: replay_writer(hist, fin), bio.BitstreamReader, "read_sint", lambda orig: (lambda self: abs(orig(self))))
    # 2. writer accepts a too-wide value by truncation -> outofrange
    hist2 = [wstep(O("nbits", n=3, v=8), 0, 0, err="OutOfRangeError")]
    fin2 = {"file": (), "intact": (False,)}
    probe("BitstreamWriter.write_nbits truncates instead of refusing", lambda: replay_writer(hist2, fin2), bio.BitstreamWriter, "write_nbits", lambda orig: (lambda self, bits, value: orig(self, bits, value & ((1 << bits) - 1))))
    # 2b. writer that takes its starting position to be 0 although the file object is positioned after 2 bytes
    hist2b = [wstep(O("uintlit", n=1, v=165), 16, 24, emit=(1, 0, 1, 0, 0, 1, 0, 1))]
    fin2b = {"file": (1, 0, 1, 0, 0, 1, 0, 1) * 3, "intact": (True,)}

    def init_at_zero(orig):
        def __init__(self, file):
            orig(self, file)
            self._byte_offset = 0

        return __init__

    probe("BitstreamWriter ignores the position of the file it is given", lambda: replay_writer(hist2b, fin2b, 2), bio.BitstreamWriter, "__init__", init_at_zero)
    # 3. decoder.io read_bitb ignores the block end -> block / readers disagree
    rh = [
        dict(o=O("bbegin", n=0), v=0, err="none", pos=0, on=True, rem=0, pastend=False),
        dict(o=O("bit"), v=1, err="none", pos=0, on=True, rem=-1, pastend=True),
    ]
    probe("decoder.io.read_bitb ignores the block end", lambda: replay_reader((0,) * 8, rh), dio, "read_bitb", lambda orig: (lambda state: dio.read_bit(state)))
    return fired


# ------------------------------------------------------------------------------ entry points
def run(ctx):
    M()
    quick = ctx.quick
    # quick: programs of <= 3 calls, writer created at byte 0 and at byte 2; thorough: <= 4 calls at byte 0 (twice
    # the states of quick already), and the quick box once more for the writer created at byte 2
    wconst = {"Modes": ["w"], "MaxLen": ctx.pick(3, 4), "Bases": ctx.pick([0, 2], [0])}
    rconst = {"Modes": ["r"], "MaxLen": ctx.pick(2, 2), "MaxBits": ctx.pick(8, 10), "Pads": [0, 1]}
    jobs = [
        ("BitIO", cfg_text(CFG_W, MaxLen=wconst["MaxLen"], Bases="{%s}" % ", ".join(str(b) for b in wconst["Bases"])), {"dump": True, "timeout": 7200}),
        ("BitIO", cfg_text(CFG_R, MaxLen=rconst["MaxLen"], MaxBits=rconst["MaxBits"]), {"dump": True, "timeout": 7200}),
    ]
    if not quick:
        jobs.append(("BitIORef", "mc/BitIORef.cfg", {}))
        jobs.append(("BitIO", cfg_text(CFG_W, MaxLen=3), {"dump": True, "timeout": 7200}))
    results = tlc_parallel(jobs)
    wres, wtot = run_exhaustive(ctx, "writer programs (exhaustive)", results[0], wconst)
    if not quick:
        _, wtot_b = run_exhaustive(ctx, "writer programs created at byte 0 and at byte 2 (exhaustive, <= 3 calls)", results[3], {"Modes": ["w"], "MaxLen": 3, "Bases": [0, 2]})
        wtot = merge([wtot, wtot_b])
    rres, rtot = run_exhaustive(ctx, "reader programs over every file (exhaustive)", results[1], rconst)
    if not quick:
        ctx.add_tlc(results[2], "lemma: closed-form operators = literal current-byte machine (BitIORef)", {"MaxLen": 3})
    tots = [wtot, rtot]
    sims = 0
    if not quick:
        # random walks: writer programs only.  TLC's simulator compares successive states with `=`, and the
        # reader machine's `out.v` is an integer after some reads and a bit sequence after others: the simulation
        # worker dies with "Attempted to check equality of integer 0 with non-integer" and TLC never returns
        # (breadth-first checking works on fingerprints and is unaffected).  Long reader programs are covered by
        # the recorded traces (T direction) instead.
        for name, cfg, n, depth in (
            ("writer", cfg_text(CFG_W, MaxLen=14), 6000, 14),
        ):
            sim = tlc.run("BitIO", cfg, simulate=n, depth=depth, seed=ctx.seed, workers=1, env=JVM_ENV)
            files = sorted(glob.glob(os.path.join(sim.sim_dir, "tr*")))
            stot = merge(common.pmap(work_simfile, files))
            sims += stot["n"]
            tots.append(stot)
    tot = merge(tots)
    for sig, what, case in tot["viol"]:
        ctx.violation(sig, what, case)
    fired = selftest_G()
    tinfo = trace_direction(ctx)
    if wtot["n"] == 0 or rtot["n"] == 0:
        raise RuntimeError("vacuous: no histories replayed")
    if wtot["ops"].get("w:created-at-nonzero-file-position", 0) == 0:
        raise RuntimeError("vacuous: no writer history replayed on a file object positioned after existing bytes")
    ctx.coverage.update(
        {
            "traces_validated_against_impl": tot["n"] + tinfo["traces"],
            "replayed_histories": tot["n"],
            "simulated_walks_replayed": sims,
            "evaluations": tot["evals"] + tinfo["events"],
            "distinct_nontrivial": tot["nontrivial"] + tinfo["traces"],
            "rule": "one shortest history per abstract transition (state, op) of BitIO.tla in writer mode and in reader mode (per file), "
            "executed on BitstreamWriter + BitstreamReader + decoder.io; evaluations = primitive calls compared; "
            "non-trivial = history of >= 2 ops, or a recorded random trace",
            "exhaustive": True,
            "bounds": {"writer": wconst, "reader": rconst, "files": "every bit string of <= MaxBits bits padded to whole bytes with 0s and with 1s"},
            "transitions_per_action": tot["ops"],
            "spec_disagreements": tot["dis"] + tinfo["dis"],
            "binding_selftest": {"G": fired, "T": tinfo["selftest"]},
            "recorded_traces": tinfo["traces"],
            "recorded_events": tinfo["events"],
            "trace_kinds": tinfo["kinds"],
            "samples": tot["samples"][:4] + tinfo["samples"],
        }
    )
    ctx.assumptions += [
        "decoder.io has no seek and no negative block lengths: its mirror stops at a seek inside a block or a negative length (BitstreamReader continues)",
        "TLC integers are 32-bit: values >= 2^31 occur only in the trace direction, as bit lists judged bit-wise by BitIOTrace.tla",
        "exhaustive TLC runs use -workers 1: with VIEW + a length-bounded hist, parallel BFS can drop the shortest representative of a view class",
    ]


def replay(case):
    M()
    if case.get("trace"):
        return replay_trace(case)
    st = {"mode": case["mode"], "f": tuple(case["f"]), "base": case.get("base", 0), "hist": _tup(case["hist"]), "fin": _tup(case["fin"])}
    res = replay_state(st)
    return {"violations": res["violations"], "spec_disagreements": res["dis"]}


def _tup(x):
    if isinstance(x, list):
        return tuple(_tup(i) for i in x)
    if isinstance(x, dict):
        return {k: _tup(v) for k, v in x.items()}
    return x


# ------------------------------------------------------------------------------ T direction
def val_rec(v):
    """int / list of bits -> the uniform record [neg, mb, s] of BitIOTrace.tla"""
    if isinstance(v, bool):
        v = int(v)
    if isinstance(v, int):
        return {"neg": v < 0, "mb": [int(c) for c in bin(abs(v))[2:]] if v else [], "s": []}
    return {"neg": False, "mb": [], "s": list(v)}


NOVAL = {"neg": False, "mb": [], "s": []}


def rd_rec(v, err, tell, rem, on, ret=0, na=False, clamp=False):
    return {
        "na": na,
        "exc": err,
        "v": val_rec(v) if (err == "none" and v is not None) else NOVAL,
        "p1": pos_of(tell),
        "on1": bool(on),
        "rem1": rem if (on and rem is not None) else 0,
        "ret": ret if isinstance(ret, int) and not isinstance(ret, bool) else 0,
        "clamp": clamp,
    }


NA = {"na": True, "exc": "none", "v": NOVAL, "p1": 0, "on1": False, "rem1": 0, "ret": 0, "clamp": True}


def big_value(rnd):
    k = rnd.choice([0, 1, 2, 3, 7, 8, 15, 16, 30, 31, 32, 33, 45, 63, 64, 65, 90])
    c = rnd.random()
    if c < 0.25:
        return (1 << k) - 1
    if c < 0.4:
        return 1 << k
    if c < 0.5:
        return max(0, (1 << k) - 2)
    return rnd.getrandbits(k) if k else 0


def gen_wop(rnd, inblock):
    m = M()
    c = rnd.random()
    if c < 0.08:
        return {"op": "bit", "n": 0, "v": rnd.randrange(2)}
    if c < 0.26:
        v = big_value(rnd)
        n = max(0, v.bit_length() + rnd.choice([0, 0, 0, 1, 5, -1]))
        if rnd.random() < 0.05:
            v = -v - 1
        return {"op": "nbits", "n": n, "v": v}
    if c < 0.34:
        v = big_value(rnd)
        n = max(0, (v.bit_length() + 7) // 8 + rnd.choice([0, 0, 1, -1]))
        return {"op": "uintlit", "n": n, "v": v}
    if c < 0.52:
        v = big_value(rnd)
        return {"op": "uint", "n": 0, "v": -v - 1 if rnd.random() < 0.06 else v}
    if c < 0.68:
        v = big_value(rnd)
        return {"op": "sint", "n": 0, "v": -v if rnd.random() < 0.5 else v}
    if c < 0.76:
        k = rnd.randrange(0, 30)
        bits = [rnd.randrange(2) if rnd.random() < 0.7 else 1 for _ in range(k)]
        return {"op": "bitarray", "n": max(0, k + rnd.choice([0, 0, 3, 9, 17, -1])), "s": bits}
    if c < 0.82:
        k = rnd.randrange(0, 5)
        return {"op": "bytes", "n": max(0, k + rnd.choice([0, 0, 1, 2, 3, -1])), "s": [rnd.choice([0, 255, rnd.randrange(256)]) for _ in range(k)]}
    if c < 0.92:
        if inblock:
            return {"op": "bend", "n": 0}
        return {"op": "bbegin", "n": rnd.choice([-3, -1, 0, 0, 1, 2, 5, 8, 13, 40, 100, 200, rnd.randrange(0, 64)])}
    if c < 0.96:
        return {"op": "bend", "n": 0}
    return {"op": "flush", "n": 0}


def spec_o(o):
    """driver op -> the op record of the spec / do_write (v as int, s as tuple)"""
    return {"op": o["op"], "n": o["n"], "v": o.get("v", 0), "s": tuple(o.get("s", ()))}


def record_writer_trace(arg):
    tid, seed, nops = arg
    m = M()
    bio = m["bio"]
    rnd = random.Random(seed)
    f = io.BytesIO()
    base = rnd.choice([0, 0, 0, 1, 3])  # bytes already in the file (and its position) when the writer is created
    f.write(PREFIX_BYTE * base)
    w = bio.BitstreamWriter(f)
    steps = []
    for _ in range(nops):
        o = gen_wop(rnd, w.bits_remaining is not None)
        t0, rem0 = w.tell(), w.bits_remaining
        ret, err = attempt(do_write, w, spec_o(o))
        t1, rem1 = w.tell(), w.bits_remaining
        lenfn, lenexc = 0, "none"
        if o["op"] in ("uint", "sint"):
            fn = m["eg"].exp_golomb_length if o["op"] == "uint" else m["eg"].signed_exp_golomb_length
            lenfn, lenexc = attempt(fn, o["v"])
            lenfn = lenfn or 0
        steps.append(dict(o=o, t0=t0, t1=t1, rem0=rem0, rem1=rem1, err=err, ret=ret, lenfn=lenfn, lenexc=lenexc))
        if err == "ValueError":
            break
    w.flush()
    data = f.getvalue()
    bits = bits_of_bytes(data)
    r = bio.BitstreamReader(io.BytesIO(data))
    r.seek(base, 7)
    d = DecReader(data, base, 7)
    ev = [{"tid": tid, "ev": "wbegin", "base": base}]
    rsync = True
    for st in steps:
        o = st["o"]
        so = spec_o(o)
        bs = dict(NA, clamp=False)
        dec = NA
        if st["err"] == "none" and o["op"] != "flush" and rsync:
            v, err = attempt(do_read_bs, r, so)
            bs = rd_rec(v if o["op"] in VALUE_OPS else None, err, r.tell(), r.bits_remaining, r.bits_remaining is not None, ret=v if o["op"] == "bend" else 0)
            if err != "none":
                rsync = False
            if not d.dead:
                v, err = attempt(d.do, so)
                if not d.dead:
                    dec = rd_rec(v if o["op"] in VALUE_OPS else None, err, d.tell(), d.left(), d.inblock, clamp=True)
        val = o.get("v", 0)
        ev.append(
            {
                "tid": tid,
                "ev": "w",
                "o": {"op": o["op"], "n": o["n"], "neg": val < 0, "mb": val_rec(val)["mb"], "s": list(o.get("s", []))},
                "exc": st["err"],
                "p0": pos_of(st["t0"]),
                "p1": pos_of(st["t1"]),
                "on0": st["rem0"] is not None,
                "rem0": st["rem0"] or 0,
                "on1": st["rem1"] is not None,
                "rem1": st["rem1"] or 0,
                "ret": st["ret"] if isinstance(st["ret"], int) and not isinstance(st["ret"], bool) else 0,
                "lenfn": st["lenfn"],
                "lenexc": st["lenexc"],
                "bits": bits[pos_of(st["t0"]) : pos_of(st["t1"])],
                "bs": bs,
                "dec": dec,
            }
        )
    return ev


def gen_file(rnd):
    n = rnd.choice([0, 1, 2, 3, 5, 8, 13, 24, 48])
    style = rnd.random()
    out = bytearray()
    for _ in range(n):
        if style < 0.3:
            out.append(rnd.randrange(256))
        elif style < 0.55:
            out.append(rnd.choice([0x00, 0x01, 0x04, 0x10, 0x11, 0x44, 0x55, 0x15]))  # long exp-Golomb codes
        elif style < 0.75:
            out.append(rnd.choice([0xFF, 0xFE, 0x7F, 0xAA, 0xFF]))
        else:
            out.append(rnd.choice([0x00, 0xFF, rnd.randrange(256)]))
    return bytes(out)


def gen_rop(rnd, r, nbytes):
    inblock = r.bits_remaining is not None
    c = rnd.random()
    if c < 0.14:
        return {"op": "bit", "n": 0, "b": 0}
    if c < 0.26:
        return {"op": "nbits", "n": rnd.choice([0, 1, 2, 7, 8, 9, 17, 33, 40]), "b": 0}
    if c < 0.31:
        return {"op": "uintlit", "n": rnd.choice([0, 1, 2, 4]), "b": 0}
    if c < 0.47:
        return {"op": "uint", "n": 0, "b": 0}
    if c < 0.6:
        return {"op": "sint", "n": 0, "b": 0}
    if c < 0.65:
        return {"op": "bitarray", "n": rnd.choice([0, 1, 5, 12, 20]), "b": 0}
    if c < 0.69:
        return {"op": "bytes", "n": rnd.choice([0, 1, 3]), "b": 0}
    if c < 0.8:
        if inblock:
            return {"op": rnd.choice(["bend", "bendflush", "bendflush"]), "n": 0, "b": 0}
        return {"op": "bbegin", "n": rnd.choice([-2, 0, 0, 1, 2, 3, 7, 8, 9, 16, 30, 60, rnd.randrange(0, 40)]), "b": 0}
    if c < 0.84:
        return {"op": rnd.choice(["bend", "bendflush"]), "n": 0, "b": 0}
    if c < 0.9:
        byte, bit = r.tell()
        if not inblock and (bit == 7 or byte < nbytes):
            return {"op": "align", "n": 0, "b": 0}
        return {"op": "bit", "n": 0, "b": 0}
    return {"op": "seek", "n": rnd.randrange(0, nbytes + 2), "b": rnd.choice([7, 7, 0, 3, rnd.randrange(8)])}


def record_reader_trace(arg):
    tid, seed, nops = arg
    m = M()
    rnd = random.Random(seed)
    data = gen_file(rnd)
    r = m["bio"].BitstreamReader(io.BytesIO(data))
    d = DecReader(data)
    ev = [{"tid": tid, "ev": "rbegin", "file": bits_of_bytes(data)}]
    for _ in range(nops):
        o = gen_rop(rnd, r, len(data))
        so = {"op": o["op"], "n": o["n"], "v": o["b"], "s": ()}
        t0, rem0 = r.tell(), r.bits_remaining
        v, err = attempt(do_read_bs, r, so)
        isval = o["op"] in VALUE_OPS
        bs = rd_rec(v if isval else None, err, r.tell(), r.bits_remaining, r.bits_remaining is not None, ret=0 if isval else (v or 0))
        dec = NA
        if not d.dead and not (err == "Exception" and o["op"] != "seek"):
            dv, derr = attempt(d.do, so)
            if not d.dead:
                dec = rd_rec(dv if isval else None, derr, d.tell(), d.left(), d.inblock, ret=0 if isval else (dv or 0))
        elif not d.dead:
            # nesting error on the BitstreamReader API: decoder.io has no such call, nothing happens there
            dec = dict(bs, rem1=max(0, bs["rem1"]))
        ev.append({"tid": tid, "ev": "r", "o": o, "p0": pos_of(t0), "on0": rem0 is not None, "rem0": rem0 or 0, "bs": bs, "dec": dec})
    return ev


def trace_jobs(ctx):
    nw = ctx.pick(60, 1200)
    nr = ctx.pick(60, 1200)
    jobs = []
    for i in range(nw):
        jobs.append(("w", i + 1, ctx.seed * 7919 + i + 1, ctx.pick(30, 40)))
    for i in range(nr):
        jobs.append(("r", nw + i + 1, ctx.seed * 104729 + i + 1, ctx.pick(30, 45)))
    return jobs


def record_job(job):
    kind, tid, seed, nops = job
    return record_writer_trace((tid, seed, nops)) if kind == "w" else record_reader_trace((tid, seed, nops))


def trace_direction(ctx):
    jobs = trace_jobs(ctx)
    evs = common.pmap(record_job, jobs)
    records = [e for ev in evs for e in ev]
    bad, res = trace.validate("BitIOTrace", records, env=JVM_ENV)
    ctx.add_tlc(res, "trace validation (BitIOTrace)")
    by_tid = {j[1]: j for j in jobs}
    dis = 0
    clauses = {}
    for b in bad:
        clauses[b["clause"]] = clauses.get(b["clause"], 0) + 1
        if b["alarm"]:
            rec = records[b["line"] - 1]
            ctx.violation(
                "C20|trace|%s|%s" % (b["clause"], rec["o"]["op"]),
                "recorded %s trace %d line %d: %s" % (by_tid[b["tid"]][0], b["tid"], b["line"], _short(rec)),
                {"trace": True, "job": list(by_tid[b["tid"]]), "line": b["line"]},
            )
        else:
            dis += 1
    if any(b["clause"] == "MalformedEvent" for b in bad):
        raise RuntimeError("recorder produced malformed events: %r" % bad[:3])
    # vacuity: the interesting clauses must have had their antecedents exercised
    nbig = sum(1 for r in records if r["ev"] == "w" and len(r["o"]["mb"]) > 31 and r["exc"] == "none")
    noor = sum(1 for r in records if r["ev"] == "w" and r["exc"] == "OutOfRangeError")
    npast = sum(1 for r in records if r["ev"] == "r" and r["o"]["op"] == "bit" and r["on0"] and r["rem0"] <= 0)
    ndec = sum(1 for r in records if r["ev"] == "r" and not r["dec"]["na"])
    nverr = sum(1 for r in records if r["ev"] == "w" and r["exc"] == "ValueError")
    nbased = sum(1 for r in records if r["ev"] == "wbegin" and r.get("base", 0) > 0)
    if min(nbig, noor, npast, ndec, nverr, nbased) == 0:
        raise RuntimeError("vacuous trace set: big=%d oor=%d pastend=%d dec=%d valueerror=%d writers-at-nonzero-position=%d" % (nbig, noor, npast, ndec, nverr, nbased))
    # binding self-test: corrupt recorded fields -> the trace spec must flag exactly those lines
    def pick_w(ev):
        a = [i for i, r in enumerate(ev) if r["ev"] == "w" and r["o"]["op"] in ("uint", "sint") and r["exc"] == "none" and not r["on0"]]
        b = [i for i, r in enumerate(ev) if r["ev"] == "w" and r["o"]["op"] in VALUE_OPS and r["exc"] == "none" and not r["bs"]["na"] and i not in a[:1]]
        return (a[0], b[0]) if a and b else None

    wsrc = next(ev for j, ev in zip(jobs, evs) if j[0] == "w" and pick_w(ev))
    wtrace = [dict(r) for r in wsrc]
    li, lj = pick_w(wtrace)
    wtrace[li] = dict(wtrace[li], lenfn=wtrace[li]["lenfn"] + 2)
    wtrace[lj] = dict(wtrace[lj], bs=dict(wtrace[lj]["bs"], p1=wtrace[lj]["bs"]["p1"] + 1))
    rtrace = [dict(r) for r in next(ev for j, ev in zip(jobs, evs) if j[0] == "r" and any(not e["dec"]["na"] and e["bs"]["exc"] == "none" and e["o"]["op"] == "uint" for e in ev[1:]))]
    lk = next(i for i, r in enumerate(rtrace) if r["ev"] == "r" and not r["dec"]["na"] and r["bs"]["exc"] == "none" and r["o"]["op"] == "uint")
    rtrace[lk] = dict(rtrace[lk], dec=dict(rtrace[lk]["dec"], v=val_rec(12345 + sum(rtrace[lk]["dec"]["v"]["mb"]))))
    probe = wtrace + rtrace
    pbad, _ = trace.validate("BitIOTrace", probe, env=JVM_ENV)
    got = {(b["line"], b["clause"]) for b in pbad if b["alarm"]}
    want = {(li + 1, "LengthFunction"), (lj + 1, "ReadBackBitstreamReader"), (len(wtrace) + lk + 1, "ReadersDisagree")}
    if not want <= got:
        raise RuntimeError("trace binding self-test failed: wanted %r, trace spec reported %r" % (sorted(want), sorted(got)))
    return {
        "traces": len(jobs),
        "events": len(records),
        "dis": dis,
        "selftest": "corrupting lenfn / the reader's end position / decoder.io's value in recorded lines is flagged as LengthFunction / ReadBackBitstreamReader / ReadersDisagree",
        "kinds": {"writer_traces": sum(1 for j in jobs if j[0] == "w"), "reader_traces": sum(1 for j in jobs if j[0] == "r"), "values_over_31_bits": nbig, "out_of_range_writes": noor, "reads_past_block_end": npast, "lines_with_decoder_io": ndec, "rejected_zero_writes": nverr, "non_ok_clauses": clauses},
        "samples": [_short(records[1]), _short(next(r for r in records if r["ev"] == "r"))],
    }


def _short(rec):
    r = dict(rec)
    for k in ("bits",):
        if k in r and len(r[k]) > 40:
            r[k] = r[k][:40] + ["..."]
    return r


def replay_trace(case):
    job = tuple(case["job"])
    ev = record_job(job)
    bad, _ = trace.validate("BitIOTrace", ev, env=JVM_ENV)
    return {"violations": [b for b in bad if b["alarm"]], "events": [_short(e) for e in ev[max(0, case.get("line", 1) - 3) : case.get("line", 1) + 1]]}
