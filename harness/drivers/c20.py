"""C20 -- bit-level readers and writers agree on every primitive.

Spec: spec/BitIO.tla + BitIOOps.tla.  TLC (workers=1: the VIEW/hist idiom needs strict BFS) explores
  * writer programs (<= MaxLen ops of the alphabet WOps: all primitives with in-range, boundary and
    out-of-range values, bounded blocks of length -2..8, seeks, flushes), and
  * reader programs over *every* whole-byte padding of every bit string of <= MaxBits bits.
G: every dumped history is executed on the real BitstreamWriter, then read back with BitstreamReader and
   with the validator's reader (decoder.io); reader histories are run on both readers over the file.
T: random long programs with values up to 2^90 and random files are recorded and judged by BitIOTrace.tla.

Alarm clauses (exactly the statement of C20):
  readback    a value the design says is intact in the flushed file is not read back identically / at the
              same bit position (tell, bits_remaining) by one of the two readers
  length      exp_golomb_length / signed_exp_golomb_length != bits written
  outofrange  out-of-range value not refused with OutOfRangeError, or something was written / moved
  block       1 bits past the end of a bounded block not accepted, 0 bits not rejected, reads past the end != 1
  readers     BitstreamReader and decoder.io disagree (value, position, end-of-stream) on a bit string
Everything else the spec predicts (exact tell after every op, flushed file bytes, bits_remaining after seeks,
`Exception` for nesting errors) is compared and counted under spec_disagreements only.
"""
import glob
import io
import os
import random
import re

from .. import common, tlc, tlaval, trace

_MOD = {}


def M():
    if not _MOD:
        from bitarray import bitarray
        from vc2_conformance.bitstream import io as bio
        from vc2_conformance.bitstream import exp_golomb
        from vc2_conformance.bitstream.exceptions import OutOfRangeError
        from vc2_conformance.decoder import io as dio
        from vc2_conformance.decoder.exceptions import UnexpectedEndOfStream
        from vc2_conformance.pseudocode.state import State

        _MOD.update(
            bitarray=bitarray, bio=bio, eg=exp_golomb, OOR=OutOfRangeError, dio=dio, UEOS=UnexpectedEndOfStream, State=State
        )
    return _MOD


def exc_kind(e):
    m = M()
    if isinstance(e, m["OOR"]):
        return "OutOfRangeError"
    if isinstance(e, ValueError):
        return "ValueError"
    if isinstance(e, (EOFError, m["UEOS"])):
        return "EOF"
    if type(e) is Exception:
        return "Exception"
    return "other:" + type(e).__name__


def bits_of_bytes(data):
    out = []
    for b in bytearray(data):
        for i in range(7, -1, -1):
            out.append((b >> i) & 1)
    return out


def bytes_of_bits(bits):
    assert len(bits) % 8 == 0
    out = bytearray()
    for i in range(0, len(bits), 8):
        v = 0
        for b in bits[i : i + 8]:
            v = (v << 1) | b
        out.append(v)
    return bytes(out)


def pos_of(tell):
    return tell[0] * 8 + (7 - tell[1])


INT_OPS = ("bit", "nbits", "uintlit", "uint", "sint")
VALUE_OPS = INT_OPS + ("bitarray", "bytes")


# ------------------------------------------------------------------------------ concretisation
def do_write(w, o):
    m = M()
    op = o["op"]
    if op == "bit":
        return w.write_bit(o["v"])
    if op == "nbits":
        return w.write_nbits(o["n"], o["v"])
    if op == "uintlit":
        return w.write_uint_lit(o["n"], o["v"])
    if op == "uint":
        return w.write_uint(o["v"])
    if op == "sint":
        return w.write_sint(o["v"])
    if op == "bitarray":
        return w.write_bitarray(o["n"], m["bitarray"](list(o["s"])))
    if op == "bytes":
        return w.write_bytes(o["n"], bytes(bytearray(o["s"])))
    if op == "bbegin":
        return w.bounded_block_begin(o["n"])
    if op == "bend":
        return w.bounded_block_end()
    if op == "seek":
        return w.seek(o["n"], o["v"])
    if op == "flush":
        return w.flush()
    raise RuntimeError("unknown write op %r" % (o,))


def do_read_bs(r, o):
    """One primitive on a BitstreamReader; value projected to int or list of bits."""
    op = o["op"]
    if op == "bit":
        return r.read_bit()
    if op == "nbits":
        return r.read_nbits(o["n"])
    if op == "uintlit":
        return r.read_uint_lit(o["n"])
    if op == "uint":
        return r.read_uint()
    if op == "sint":
        return r.read_sint()
    if op == "bitarray":
        return r.read_bitarray(o["n"]).tolist()
    if op == "bytes":
        return bits_of_bytes(r.read_bytes(o["n"]))
    if op == "bbegin":
        r.bounded_block_begin(o["n"])
        return 0
    if op == "bend":
        return r.bounded_block_end()
    if op == "bendflush":
        n = r.bounded_block_end()
        r.read_bitarray(n)
        return n
    if op == "align":
        _, bits = r.tell()
        k = 0 if bits == 7 else bits + 1
        r.read_bitarray(k)
        return k
    if op == "seek":
        r.seek(o["n"], o["v"])
        return 0
    raise RuntimeError("unknown read op %r" % (o,))


class DecReader(object):
    """The validator's reader (vc2_conformance.decoder.io) behind the same op alphabet.

    Bounded blocks are state['bits_left'] + the *b functions.  `dead` = the op sequence left what this
    reader can express (negative block length, seek inside a block)."""

    def __init__(self, data, byte=0, bit=7):
        m = M()
        self.f = io.BytesIO(data)
        self.inblock = False
        self.dead = False
        self._open(byte, bit)

    def _open(self, byte, bit):
        m = M()
        self.f.seek(byte)
        self.state = m["State"]()
        m["dio"].init_io(self.state, self.f)
        if bit != 7:
            self.state["next_bit"] = bit

    def tell(self):
        return M()["dio"].tell(self.state)

    def left(self):
        return self.state["bits_left"] if self.inblock else None

    def _bit(self):
        d = M()["dio"]
        return d.read_bitb(self.state) if self.inblock else d.read_bit(self.state)

    def _bits(self, n):
        return [self._bit() for _ in range(n)]

    def do(self, o):
        d = M()["dio"]
        st = self.state
        op = o["op"]
        if op == "bit":
            return self._bit()
        if op in ("nbits", "uintlit"):
            n = o["n"] * (8 if op == "uintlit" else 1)
            if self.inblock:
                v = 0
                for _ in range(n):
                    v = (v << 1) | self._bit()
                return v
            return d.read_uint_lit(st, o["n"]) if op == "uintlit" else d.read_nbits(st, n)
        if op == "uint":
            return d.read_uintb(st) if self.inblock else d.read_uint(st)
        if op == "sint":
            return d.read_sintb(st) if self.inblock else d.read_sint(st)
        if op == "bitarray":
            return self._bits(o["n"])
        if op == "bytes":
            return self._bits(8 * o["n"])
        if op == "bbegin":
            if self.inblock:
                raise Exception("nested")
            if o["n"] < 0:
                self.dead = True
                return 0
            st["bits_left"] = o["n"]
            self.inblock = True
            return 0
        if op == "bend":
            if not self.inblock:
                raise Exception("not in block")
            self.inblock = False
            return st["bits_left"]
        if op == "bendflush":
            if not self.inblock:
                raise Exception("not in block")
            n = st["bits_left"]
            try:
                d.flush_inputb(st)
            finally:
                self.inblock = False
            return n
        if op == "align":
            _, bits = self.tell()
            k = 0 if bits == 7 else bits + 1
            d.byte_align(st)
            return k
        if op == "seek":
            if self.inblock:
                self.dead = True
                return 0
            self._open(o["n"], o["v"])
            return 0
        raise RuntimeError("unknown read op %r" % (o,))


def attempt(fn, *a):
    try:
        return fn(*a), "none"
    except Exception as e:  # noqa
        return None, exc_kind(e)


# ------------------------------------------------------------------------------ G: writer histories
def written_value(step):
    o = step["o"]
    if o["op"] in INT_OPS:
        return o["v"]
    return list(step["emit"])


def replay_writer(hist, fin):
    """Execute a writer history on the real writer, read it back with both readers.

    returns dict(violations=[(sig, what)], dis=int, evals=int)"""
    m = M()
    bio = m["bio"]
    f = io.BytesIO()
    w = bio.BitstreamWriter(f)
    viol = []
    dis = 0
    real = []
    for i, s in enumerate(hist):
        o = s["o"]
        op = o["op"]
        t0 = w.tell()
        rem0 = w.bits_remaining
        snap = (f.getvalue(), w._current_byte) if s["err"] == "OutOfRangeError" else None
        ret, err = attempt(do_write, w, o)
        t1 = w.tell()
        rem1 = w.bits_remaining
        real.append(dict(t0=t0, t1=t1, rem0=rem0, rem1=rem1, err=err, ret=ret))
        # P3: out-of-range values are refused and nothing is written
        if s["err"] == "OutOfRangeError":
            if err != "OutOfRangeError":
                viol.append(("C20|outofrange|not-refused|" + op, "%s: expected OutOfRangeError, got %s" % (o, err)))
            elif t1 != t0 or rem1 != rem0 or snap != (f.getvalue(), w._current_byte):
                viol.append(("C20|outofrange|wrote-something|" + op, "%s: refused but the writer moved %s->%s / changed its buffer" % (o, t0, t1)))
        elif err == "OutOfRangeError":
            viol.append(("C20|readback|in-range-value-refused|" + op, "%s refused with OutOfRangeError although in range" % (o,)))
        # P4: bounded block rule, bit by bit (the spec applies it to every bit of the primitive)
        elif op in VALUE_OPS and s["on0"] and (s["err"] == "ValueError") != (err == "ValueError"):
            viol.append(("C20|block|%s|%s" % ("zero-not-rejected" if s["err"] == "ValueError" else "one-rejected", op), "%s in block with %s bits left: spec %s, writer %s" % (o, s["rem0"], s["err"], err)))
        elif err != s["err"]:
            if op in VALUE_OPS:
                viol.append(("C20|readback|write-failed|%s|%s" % (op, err), "%s raised %s (spec: %s)" % (o, err, s["err"])))
            else:
                dis += 1
        # P2: length functions = bits written (outside blocks)
        if op in ("uint", "sint") and not s["on0"]:
            fn = m["eg"].exp_golomb_length if op == "uint" else m["eg"].signed_exp_golomb_length
            ln, lerr = attempt(fn, o["v"])
            if s["err"] == "OutOfRangeError":
                if lerr != "OutOfRangeError":
                    viol.append(("C20|outofrange|length-fn|" + op, "%s(%d) returned %r instead of raising OutOfRangeError" % (fn.__name__, o["v"], ln)))
            elif err == "none":
                nw = pos_of(t1) - pos_of(t0)
                if lerr != "none" or ln != nw:
                    viol.append(("C20|length|" + op, "%s(%d) = %r (%s) but %d bits were written" % (fn.__name__, o["v"], ln, lerr, nw)))
                if ln != s["len"]:
                    dis += 1
        if pos_of(t1) != s["p1"] or (s["on1"] and rem1 != s["rem1"]) or (rem1 is not None) != s["on1"]:
            dis += 1
        if op == "bend" and err == "none" and ret != max(0, s["rem0"]):
            dis += 1
    w.flush()
    data = f.getvalue()
    if bits_of_bytes(data) != list(fin["file"]):
        dis += 1
    evals = 0
    # P1 (per step): every step whose placed bits are intact in the flushed file reads back as written
    for i, s in enumerate(hist):
        if not fin["intact"][i]:
            continue
        o = s["o"]
        rw = real[i]
        if rw["err"] != "none":
            continue
        want = written_value(s)
        # BitstreamReader
        evals += 1
        r = bio.BitstreamReader(io.BytesIO(data))
        r.seek(*rw["t0"])
        if rw["rem0"] is not None:
            r.bounded_block_begin(rw["rem0"])
        v, err = attempt(do_read_bs, r, o)
        if err != "none" or v != want:
            viol.append(("C20|readback|value|%s|BitstreamReader" % o["op"], "wrote %s at %s (block %s) read back %r (%s)" % (o, rw["t0"], rw["rem0"], v, err)))
        elif r.tell() != rw["t1"] or r.bits_remaining != rw["rem1"]:
            viol.append(("C20|readback|position|%s|BitstreamReader" % o["op"], "wrote %s: writer ends at %s/%s, reader at %s/%s" % (o, rw["t1"], rw["rem1"], r.tell(), r.bits_remaining)))
        # decoder.io
        if rw["rem0"] is not None and rw["rem0"] < 0:
            continue
        evals += 1
        d = DecReader(data, *rw["t0"])
        if rw["rem0"] is not None:
            d.do({"op": "bbegin", "n": rw["rem0"]})
        v, err = attempt(d.do, o)
        if err != "none" or v != want:
            viol.append(("C20|readback|value|%s|decoder.io" % o["op"], "wrote %s at %s (block %s) read back %r (%s)" % (o, rw["t0"], rw["rem0"], v, err)))
        elif d.tell() != rw["t1"] or (rw["rem1"] is not None and d.left() != max(0, rw["rem1"])):
            viol.append(("C20|readback|position|%s|decoder.io" % o["op"], "wrote %s: writer ends at %s/%s, reader at %s/%s" % (o, rw["t1"], rw["rem1"], d.tell(), d.left())))
    # P1 (sequence): a program without seeks and without a half-written primitive is re-read in one pass
    if all(s["o"]["op"] != "seek" for s in hist) and all(x["err"] != "ValueError" for x in real):
        r = bio.BitstreamReader(io.BytesIO(data))
        d = DecReader(data)
        for s, rw in zip(hist, real):
            o = s["o"]
            if o["op"] == "flush" or rw["err"] != "none":
                continue
            evals += 1
            v, err = attempt(do_read_bs, r, o)
            ok = err == "none" and r.tell() == rw["t1"] and r.bits_remaining == rw["rem1"]
            if ok and o["op"] in VALUE_OPS:
                ok = v == written_value(s)
            if ok and o["op"] == "bend":
                ok = v == rw["ret"]
            if not ok:
                viol.append(("C20|readback|sequence|%s|BitstreamReader" % o["op"], "program %s: at %s reader got %r (%s) at %s/%s, writer was at %s/%s" % ([x["o"] for x in hist], o, v, err, r.tell(), r.bits_remaining, rw["t1"], rw["rem1"])))
                break
            if not d.dead:
                v, err = attempt(d.do, o)
                if d.dead:
                    continue
                ok = err == "none" and d.tell() == rw["t1"] and (rw["rem1"] is None or d.left() == max(0, rw["rem1"]))
                if ok and o["op"] in VALUE_OPS:
                    ok = v == written_value(s)
                if not ok:
                    viol.append(("C20|readback|sequence|%s|decoder.io" % o["op"], "program %s: at %s reader got %r (%s) at %s/%s, writer was at %s/%s" % ([x["o"] for x in hist], o, v, err, d.tell(), d.left(), rw["t1"], rw["rem1"])))
                    break
    return {"violations": viol, "dis": dis, "evals": evals + len(hist)}


# ------------------------------------------------------------------------------ G: reader histories
def replay_reader(fbits, hist):
    m = M()
    data = bytes_of_bits(list(fbits))
    r = m["bio"].BitstreamReader(io.BytesIO(data))
    d = DecReader(data)
    viol = []
    dis = 0
    prog = [s["o"] for s in hist]
    for s in hist:
        o = s["o"]
        op = o["op"]
        t0 = r.tell()
        v, err = attempt(do_read_bs, r, o)
        t1 = r.tell()
        rem = r.bits_remaining
        # P4: reads past the end of a bounded block yield 1 and do not move
        if s["pastend"] and (err != "none" or v != 1 or t1 != t0):
            viol.append(("C20|block|read-past-end|BitstreamReader", "file %s program %s: read past the block end gave %r (%s), %s->%s" % (data.hex(), prog, v, err, t0, t1)))
        # spec's exact prediction: logged only
        if err != s["err"] or pos_of(t1) != s["pos"] or (rem is not None) != s["on"] or (s["on"] and rem != s["rem"]):
            dis += 1
        elif err == "none" and v != (list(s["v"]) if isinstance(s["v"], tuple) else s["v"]):
            dis += 1
        if d.dead:
            continue
        if err == "Exception" and not (op == "seek"):
            # nesting errors of the BitstreamReader API have no counterpart in decoder.io: no-op there
            continue
        dleft0 = d.left()
        dt0 = d.tell()
        dv, derr = attempt(d.do, o)
        if d.dead:
            continue
        if s["pastend"] and (derr != "none" or dv != 1 or d.tell() != dt0):
            viol.append(("C20|block|read-past-end|decoder.io", "file %s program %s: read past the block end gave %r (%s)" % (data.hex(), prog, dv, derr)))
        # P5: the two readers agree
        same = derr == err and d.tell() == t1 and (d.left() is None) == (rem is None) and (rem is None or d.left() == max(0, rem))
        if same and err == "none":
            same = dv == v
        if not same:
            viol.append(("C20|readers|%s" % op, "file %s program %s: at %s BitstreamReader -> %r (%s) at %s/%s, decoder.io -> %r (%s) at %s/%s" % (data.hex(), prog, o, v, err, t1, rem, dv, derr, d.tell(), d.left())))
            break
    return {"violations": viol, "dis": dis, "evals": 2 * len(hist)}


# ------------------------------------------------------------------------------ dump handling
_HDR = re.compile(r"^State \d+:.*$|^STATE_\d+ ==.*$", re.M)


def chunk_offsets(path, nchunks):
    with open(path) as fh:
        text = fh.read()
    starts = [m_.start() for m_ in _HDR.finditer(text)]
    if not starts:
        return []
    step = max(1, len(starts) // nchunks + 1)
    cuts = starts[::step] + [len(text)]
    return [(path, cuts[i], cuts[i + 1]) for i in range(len(cuts) - 1)]


def replay_state(st):
    if st["mode"] == "w":
        return replay_writer(st["hist"], st["fin"])
    return replay_reader(st["f"], st["hist"])


def case_of(st):
    return {"mode": st["mode"], "f": list(st["f"]), "hist": tlaval.to_jsonable(st["hist"]), "fin": tlaval.to_jsonable(st["fin"])}


def work_chunk(arg):
    path, a, b = arg
    with open(path) as fh:
        fh.seek(a)
        text = fh.read(b - a)
    hdrs = list(_HDR.finditer(text))
    out = {"n": 0, "nontrivial": 0, "evals": 0, "dis": 0, "viol": [], "ops": {}, "samples": []}
    for j, h in enumerate(hdrs):
        end = hdrs[j + 1].start() if j + 1 < len(hdrs) else len(text)
        st = tlaval.parse_state_block(text[h.end() : end])
        if not st["hist"]:
            out["empty"] = out.get("empty", 0) + 1
            continue
        res = replay_state(st)
        out["n"] += 1
        out["nontrivial"] += 1 if len(st["hist"]) >= 2 else 0
        out["evals"] += res["evals"]
        out["dis"] += res["dis"]
        key = "%s:%s" % (st["mode"], st["inp"]["op"])
        out["ops"][key] = out["ops"].get(key, 0) + 1
        if res["violations"] and len(out["viol"]) < 40:
            c = case_of(st)
            for sig, what in res["violations"]:
                out["viol"].append((sig, what, c))
        if len(out["samples"]) < 1 and len(st["hist"]) >= 2:
            out["samples"].append(case_of(st))
    return out


def work_simfile(path):
    with open(path) as fh:
        text = fh.read()
    hdrs = list(_HDR.finditer(text))
    out = {"n": 0, "nontrivial": 0, "evals": 0, "dis": 0, "viol": [], "ops": {}, "samples": []}
    if not hdrs:
        return out
    st = tlaval.parse_state_block(text[hdrs[-1].end() :].split("\n=====")[0])
    if not st["hist"]:
        return out
    res = replay_state(st)
    out.update(n=1, nontrivial=1, evals=res["evals"], dis=res["dis"])
    for s in st["hist"]:
        key = "%s:%s" % (st["mode"], s["o"]["op"])
        out["ops"][key] = out["ops"].get(key, 0) + 1
    c = case_of(st)
    for sig, what in res["violations"]:
        out["viol"].append((sig, what, c))
    return out


def merge(parts):
    tot = {"n": 0, "nontrivial": 0, "evals": 0, "dis": 0, "viol": [], "ops": {}, "samples": []}
    for p in parts:
        for k in ("n", "nontrivial", "evals", "dis"):
            tot[k] += p[k]
        tot["viol"] += p["viol"]
        tot["samples"] += p["samples"][:1]
        for k, v in p["ops"].items():
            tot["ops"][k] = tot["ops"].get(k, 0) + v
    return tot


CFG_W = "mc/BitIO_w.cfg"
CFG_R = "mc/BitIO_r.cfg"


def cfg_text(name, **subst):
    with open(os.path.join(tlc.SPEC, name)) as fh:
        text = fh.read()
    for k, v in subst.items():
        text, n = re.subn(r"^(\s*%s\s*=).*$" % k, r"\g<1> %s" % v, text, flags=re.M)
        if n != 1:
            raise RuntimeError("cfg %s has no constant %s" % (name, k))
    return text


JVM_ENV = {"JAVA_TOOL_OPTIONS": "-XX:ParallelGCThreads=2 -XX:CICompilerCount=2"}


def tlc_parallel(jobs):
    """Run several single-worker TLC jobs concurrently (threads); jobs = [(module, cfg, kwargs)]."""
    import threading

    out = [None] * len(jobs)

    def one(i):
        mod, cfg, kw = jobs[i]
        try:
            out[i] = tlc.run(mod, cfg, workers=1, env=JVM_ENV, **kw)
        except BaseException as e:  # noqa
            out[i] = e

    ths = [threading.Thread(target=one, args=(i,)) for i in range(len(jobs))]
    for t in ths:
        t.start()
    for t in ths:
        t.join()
    for r in out:
        if isinstance(r, BaseException):
            raise r
    return out


def run_exhaustive(ctx, name, res, constants):
    ctx.add_tlc(res, name, constants)
    parts = common.pmap(work_chunk, chunk_offsets(res.dump_path, 128), chunksize=1)
    tot = merge(parts)
    empty = sum(p.get("empty", 0) for p in parts)
    if tot["n"] + empty != res.distinct or empty == 0:
        raise RuntimeError("dump of %s yielded %d histories + %d initial states for %d distinct states" % (name, tot["n"], empty, res.distinct))
    return res, tot


# ------------------------------------------------------------------------------ binding self-tests
def selftest_G():
    """Broken implementations (in-process, restored in finally) must be flagged by the same replay code."""
    m = M()
    bio = m["bio"]
    fired = {}
    O = lambda op, n=0, v=0, s=(): {"op": op, "n": n, "v": v, "s": tuple(s)}  # noqa

    def wstep(o, p0, p1, err="none", on0=False, rem0=0, on1=False, rem1=0, placed=None, ln=0, emit=()):
        return dict(o=o, p0=p0, p1=p1, err=err, on0=on0, rem0=rem0, on1=on1, rem1=rem1, placed=p1 - p0 if placed is None else placed, len=ln, emit=tuple(emit))

    # 1. reader drops the sign of read_sint -> readback value
    hist = [wstep(O("sint", v=-1), 0, 4, ln=4, emit=(0, 0, 1, 1))]
    fin = {"file": (0, 0, 1, 1, 0, 0, 0, 0), "intact": (True,)}
    if replay_writer(hist, fin)["violations"]:
        raise RuntimeError("self-test premise failed: the unmodified code is flagged on sint(-1)")
    orig = bio.BitstreamReader.read_sint
    bio.BitstreamReader.read_sint = lambda self: abs(orig(self))
    try:
        fired["reader drops sign"] = sorted(set(s for s, _ in replay_writer(hist, fin)["violations"]))
    finally:
        bio.BitstreamReader.read_sint = orig
    # 2. writer accepts a too-wide value by truncation -> outofrange
    hist = [wstep(O("nbits", n=3, v=8), 0, 0, err="OutOfRangeError")]
    fin = {"file": (), "intact": (False,)}
    orig_w = bio.BitstreamWriter.write_nbits

    def trunc(self, bits, value):
        return orig_w(self, bits, value & ((1 << bits) - 1))

    bio.BitstreamWriter.write_nbits = trunc
    try:
        fired["writer truncates"] = sorted(set(s for s, _ in replay_writer(hist, fin)["violations"]))
    finally:
        bio.BitstreamWriter.write_nbits = orig_w
    # 3. decoder.io read_bitb ignores the block end -> readers disagree / block
    rh = [
        dict(o=O("bbegin", n=0), v=0, err="none", pos=0, on=True, rem=0, pastend=False),
        dict(o=O("bit"), v=1, err="none", pos=0, on=True, rem=-1, pastend=True),
    ]
    if replay_reader((0,) * 8, rh)["violations"]:
        raise RuntimeError("self-test premise failed: the unmodified readers are flagged")
    dio = m["dio"]
    orig_b = dio.read_bitb
    dio.read_bitb = lambda state: dio.read_bit(state)
    try:
        fired["decoder ignores block end"] = sorted(set(s for s, _ in replay_reader((0,) * 8, rh)["violations"]))
    finally:
        dio.read_bitb = orig_b
    for k, v in fired.items():
        if not v:
            raise RuntimeError("binding self-test failed: mutant %r was not flagged" % k)
    return fired


# ------------------------------------------------------------------------------ entry points
def run(ctx):
    M()
    quick = ctx.quick
    wconst = {"Modes": ["w"], "MaxLen": ctx.pick(3, 4)}
    rconst = {"Modes": ["r"], "MaxLen": ctx.pick(2, 2), "MaxBits": ctx.pick(8, 10), "Pads": [0, 1]}
    jobs = [
        ("BitIO", cfg_text(CFG_W, MaxLen=wconst["MaxLen"]), {"dump": True}),
        ("BitIO", cfg_text(CFG_R, MaxLen=rconst["MaxLen"], MaxBits=rconst["MaxBits"]), {"dump": True}),
    ]
    if not quick:
        jobs.append(("BitIORef", "mc/BitIORef.cfg", {}))
    results = tlc_parallel(jobs)
    wres, wtot = run_exhaustive(ctx, "writer programs (exhaustive)", results[0], wconst)
    rres, rtot = run_exhaustive(ctx, "reader programs over every file (exhaustive)", results[1], rconst)
    if not quick:
        ctx.add_tlc(results[2], "lemma: closed-form operators = literal current-byte machine (BitIORef)", {"MaxLen": 3})
    tots = [wtot, rtot]
    sims = 0
    if not quick:
        for name, cfg, n, depth in (
            ("writer", cfg_text(CFG_W, MaxLen=14), 6000, 14),
            ("reader", cfg_text(CFG_R, MaxLen=12, MaxBits=10), 6000, 12),
        ):
            sim = tlc.run("BitIO", cfg, simulate=n, depth=depth, seed=ctx.seed, workers=1, env=JVM_ENV)
            files = sorted(glob.glob(os.path.join(sim.sim_dir, "tr*")))
            stot = merge(common.pmap(work_simfile, files))
            sims += stot["n"]
            tots.append(stot)
    tot = merge(tots)
    for sig, what, case in tot["viol"]:
        ctx.violation(sig, what, case)
    fired = selftest_G()
    tinfo = trace_direction(ctx)
    if wtot["n"] == 0 or rtot["n"] == 0:
        raise RuntimeError("vacuous: no histories replayed")
    ctx.coverage.update(
        {
            "traces_validated_against_impl": tot["n"] + tinfo["traces"],
            "replayed_histories": tot["n"],
            "simulated_walks_replayed": sims,
            "evaluations": tot["evals"] + tinfo["events"],
            "distinct_nontrivial": tot["nontrivial"] + tinfo["traces"],
            "rule": "one shortest history per abstract transition (state, op) of BitIO.tla in writer mode and in reader mode (per file), "
            "executed on BitstreamWriter + BitstreamReader + decoder.io; evaluations = primitive calls compared; "
            "non-trivial = history of >= 2 ops, or a recorded random trace",
            "exhaustive": True,
            "bounds": {"writer": wconst, "reader": rconst, "files": "every bit string of <= MaxBits bits padded to whole bytes with 0s and with 1s"},
            "transitions_per_action": tot["ops"],
            "spec_disagreements": tot["dis"] + tinfo["dis"],
            "binding_selftest": {"G": fired, "T": tinfo["selftest"]},
            "recorded_traces": tinfo["traces"],
            "recorded_events": tinfo["events"],
            "trace_kinds": tinfo["kinds"],
            "samples": tot["samples"][:4] + tinfo["samples"],
        }
    )
    ctx.assumptions += [
        "decoder.io has no seek and no negative block lengths: its mirror stops at a seek inside a block or a negative length (BitstreamReader continues)",
        "TLC integers are 32-bit: values >= 2^31 occur only in the trace direction, as bit lists judged bit-wise by BitIOTrace.tla",
        "exhaustive TLC runs use -workers 1: with VIEW + a length-bounded hist, parallel BFS can drop the shortest representative of a view class",
    ]


def replay(case):
    M()
    if case.get("trace"):
        return replay_trace(case)
    st = {"mode": case["mode"], "f": tuple(case["f"]), "hist": _tup(case["hist"]), "fin": _tup(case["fin"])}
    res = replay_state(st)
    return {"violations": res["violations"], "spec_disagreements": res["dis"]}


def _tup(x):
    if isinstance(x, list):
        return tuple(_tup(i) for i in x)
    if isinstance(x, dict):
        return {k: _tup(v) for k, v in x.items()}
    return x


# ------------------------------------------------------------------------------ T direction (filled in below)
def trace_direction(ctx):
    return {"traces": 0, "events": 0, "dis": 0, "selftest": "pending", "kinds": {}, "samples": []}


def replay_trace(case):
    raise RuntimeError("trace replay not available")
