"""C23 -- raw picture files round-trip and comparisons are exact.

Spec: spec/RawFile.tla (choice process: format, depths, picture, comparison; TLC enumerates every luma depth
1..64 x every valid small format and every combination of difference kinds and predicts dimensions, bytes per
sample, file size, exit code and per-component difference counts), pure operators in RawFileOps.tla.
Binding G: every dumped configuration is built with the real code: file_format.write -> file_format.read ->
equality; vc2_picture_compare.compare_pictures / main on a pair of files -> exit code + parsed counts.
Process level (spec/RawFileProc.tla): the caller's pictures are OBJECTS of several container kinds that are written
repeatedly and looked at afterwards, and formats are used one after the other IN ONE PROCESS (every depth 1..64
after every other, every small shape after every other); every history is run in a freshly forked process.
Binding T: random larger formats / depths / samples / numbers are recorded (samples as base-256 digits) and
TLC (spec/RawFileTrace.tla) evaluates equality of the arrays, the exit code rule and the counts.
"""
import contextlib
import copy
import io
import json
import os
import pickle
import random
import re
import traceback
import zlib

from .. import common, tlc, tlaval
from .c17 import fix_coverage, require_actions, cfg_text, dump_blocks, J, guard, parse_vars, tlc_many

COMPS = ("Y", "C1", "C2")
SUB = {"444": 0, "422": 1, "420": 2}
PN = {"zero": 0, "one": 1, "p31": 1 << 31, "max32": (1 << 32) - 1}


# ---------------------------------------------------------------------------------- concretisation
def excursion(d, salt):
    if d >= 2 and salt % 2:
        return 1 << (d - 1)  # intlog2(2^(d-1) + 1) = d as well
    return (1 << d) - 1


def make_vp(fmt, salt=0):
    from vc2_conformance.pseudocode.video_parameters import VideoParameters
    from vc2_data_tables import ColorDifferenceSamplingFormats, SourceSamplingModes, PresetColorPrimaries, PresetColorMatrices, PresetTransferFunctions

    return VideoParameters(
        frame_width=fmt["w"],
        frame_height=fmt["h"],
        color_diff_format_index=ColorDifferenceSamplingFormats(SUB[fmt["sub"]]),
        source_sampling=SourceSamplingModes(salt % 2),
        top_field_first=bool(salt % 3),
        frame_rate_numer=25 + salt % 5,
        frame_rate_denom=1,
        pixel_aspect_ratio_numer=1,
        pixel_aspect_ratio_denom=1,
        clean_width=fmt["w"],
        clean_height=fmt["h"],
        left_offset=0,
        top_offset=0,
        luma_offset=0,
        luma_excursion=excursion(fmt["dl"], salt),
        color_diff_offset=1 << (fmt["dc"] - 1),
        color_diff_excursion=excursion(fmt["dc"], salt // 2),
        color_primaries_index=PresetColorPrimaries(salt % 4),
        color_matrix_index=PresetColorMatrices(salt % 4),
        transfer_function_index=PresetTransferFunctions(salt % 4),
    )


def make_mode(fields):
    from vc2_data_tables import PictureCodingModes

    return PictureCodingModes(1 if fields else 0)


def own_dims(fmt):
    """dimensions computed by the driver's own arithmetic (used where the spec's prediction is not at hand)"""
    lw, lh = fmt["w"], fmt["h"]
    cw, ch = lw, lh
    if fmt["sub"] in ("422", "420"):
        cw //= 2
    if fmt["sub"] == "420":
        ch //= 2
    if fmt["fields"]:
        lh //= 2
        ch //= 2
    return {"Y": (lw, lh, fmt["dl"]), "C1": (cw, ch, fmt["dc"]), "C2": (cw, ch, fmt["dc"])}


def own_bps(d):
    return 1 if d <= 8 else 2 if d <= 16 else 4 if d <= 32 else 8


def sample(sc, d, i, rnd):
    m = (1 << d) - 1
    if sc == "zero":
        return 0
    if sc == "max":
        return m
    if sc == "alt":
        return (int("aa" * 8, 16) if i % 2 else int("55" * 8, 16)) & m
    x = rnd.random()
    if x < 0.1:
        return m
    if x < 0.2:
        return 0
    if x < 0.3:
        return 1 << (d - 1)
    return rnd.getrandbits(d)


def make_picture(dims, sc, pn, rnd):
    pic = {"pic_num": pn}
    for c in COMPS:
        w, h, d = dims[c]
        pic[c] = [[sample(sc, d, y * w + x + y, rnd) for x in range(w)] for y in range(h)]
    return pic


def valid_format(fmt):
    if fmt["sub"] in ("422", "420") and fmt["w"] % 2:
        return False
    div = (2 if fmt["sub"] == "420" else 1) * (2 if fmt["fields"] else 1)
    if fmt["h"] % div:
        return False
    d = own_dims(fmt)
    return all(d[c][0] >= 1 and d[c][1] >= 1 for c in COMPS)


_DIR = None


def workdir():
    global _DIR
    if _DIR is None or _DIR[0] != os.getpid():
        _DIR = (os.getpid(), tlc.mkscratch("raw"))
    return _DIR[1]


def digits(v, bps):
    return list(int(v).to_bytes(bps, "little"))


def flat_digits(pic, dims):
    out = {}
    for c in COMPS:
        bps = own_bps(dims[c][2])
        out[c] = [digits(v, bps) for row in pic[c] for v in row]
    return out


_RE_COUNT = re.compile(r"^\s*(Y|C1|C2): (Identical|Different: PSNR = \S+ dB, (\d+) pixels? \()", re.M)


def parse_counts(msg):
    counts = {}
    for m in _RE_COUNT.finditer(msg):
        counts[m.group(1)] = 0 if m.group(2) == "Identical" else int(m.group(3))
    return counts


def apply_sample_diffs(pic, dims, n, rnd):
    out = dict(pic)
    for c in COMPS:
        w, h, d = dims[c]
        rows = [list(r) for r in pic[c]]
        for j, pos in enumerate(sorted(rnd.sample(range(w * h), n[c]))):
            bit = (d - 1) if (pos + j) % 2 else 0
            rows[pos // w][pos % w] ^= 1 << bit
        out[c] = rows
    return out


def set_padding_bits(raw_path, vp, mode):
    """Set a bit that carries no sample information in the first sample of every component that has one.
    Where those bits are is a matter of the layout the code under test uses (C23 does not fix the layout), so
    the implementation's own dimensions / bytes-per-sample are used to find them."""
    from vc2_conformance.dimensions_and_depths import compute_dimensions_and_depths

    with open(raw_path, "rb") as f:
        data = bytearray(f.read())
    off = 0
    changed = False
    for c, (w, h, d, bps) in compute_dimensions_and_depths(vp, mode).items():
        if bps * 8 > d and off + bps <= len(data):
            data[off + bps - 1] |= 0x80
            changed = True
        off += w * h * bps
    with open(raw_path, "wb") as f:
        f.write(bytes(data))
    return changed


def run_compare(fa, fb, use_main):
    from vc2_conformance.scripts import vc2_picture_compare as pc

    if use_main:
        buf = io.StringIO()
        with contextlib.redirect_stdout(buf):
            code = pc.main([fa, fb])
        return buf.getvalue(), code
    return pc.compare_pictures(fa, fb)


# -------------------------------------------------------------------------------------- G replay
def g_exec(case):
    """case = {stage, fmt, pic, diff, obs, salt}"""
    from vc2_conformance import file_format

    mark_used()
    from vc2_conformance.dimensions_and_depths import compute_dimensions_and_depths

    fmt, pic_c, obs = case["fmt"], case["pic"], case["obs"]
    salt = case["salt"]
    rnd = random.Random(salt)
    viol = []
    dis = 0
    dims = own_dims(fmt)
    sig_fmt = "dl=%d dc=%d %dx%d %s %s" % (fmt["dl"], fmt["dc"], fmt["w"], fmt["h"], fmt["sub"], "fields" if fmt["fields"] else "frames")
    base = os.path.join(workdir(), "p%d" % os.getpid())
    try:
        vp = make_vp(fmt, salt)
        mode = make_mode(fmt["fields"])
        if case["stage"] == "pic":
            want_dims = dict((c, (obs["dims"][c]["w"], obs["dims"][c]["h"], obs["dims"][c]["d"])) for c in COMPS)
            if want_dims != dims:
                raise RuntimeError("driver arithmetic and spec disagree on dimensions: %r vs %r" % (dims, want_dims))
            pic = make_picture(want_dims, pic_c["sc"], PN[pic_c["pn"]], rnd)
            file_format.write(pic, vp, mode, base + "_7.raw")
            size = os.path.getsize(base + "_7.raw")
            rpic, rvp, rmode = file_format.read(base + "_7.json" if salt % 2 else base + "_7.raw")
            for c in COMPS:
                if rpic[c] != pic[c]:
                    bad = [(y, x, pic[c][y][x], rpic[c][y][x]) for y in range(len(pic[c])) for x in range(len(pic[c][y])) if y < len(rpic[c]) and x < len(rpic[c][y]) and rpic[c][y][x] != pic[c][y][x]][:3]
                    viol.append(("C23|roundtrip-samples|%s|depth%s" % (c, "<=32" if want_dims[c][2] <= 32 else ">32"), "%s: component %s read back differently, e.g. (y, x, written, read) %s" % (sig_fmt, c, bad)))
            if rpic["pic_num"] != pic["pic_num"]:
                viol.append(("C23|roundtrip-picture-number", "%s: picture number %r read back as %r" % (sig_fmt, pic["pic_num"], rpic["pic_num"])))
            if rvp != vp or rmode != mode:
                viol.append(("C23|roundtrip-metadata", "%s: video parameters / coding mode read back differently: %r %r" % (sig_fmt, rvp, rmode)))
            if size != obs["size"]:
                dis += 1
            dd = compute_dimensions_and_depths(vp, mode)
            if any(tuple(dd[c]) != (obs["dims"][c]["w"], obs["dims"][c]["h"], obs["dims"][c]["d"], obs["dims"][c]["bps"]) for c in COMPS):
                dis += 1
        else:
            diff = case["diff"]
            pa = make_picture(dims, "rand", 1, rnd)
            fmt_b = dict(fmt, fields=(not fmt["fields"]) if diff["mode"] else fmt["fields"])
            dims_b = own_dims(fmt_b)
            vpb = make_vp(fmt_b, salt)
            if diff["params"]:
                key = ["frame_rate_numer", "top_field_first", "luma_offset", "clean_width", "pixel_aspect_ratio_denom"][salt % 5]
                vpb[key] = (not vpb[key]) if isinstance(vpb[key], bool) else vpb[key] + 1
            if diff["mode"]:
                pb = make_picture(dims_b, "rand", 1, rnd)
            else:
                pb = apply_sample_diffs(pa, dims, diff["n"], rnd)
            pb["pic_num"] = (pa["pic_num"] + [1, 1 << 31, (1 << 32) - 2][salt % 3]) if diff["number"] else pa["pic_num"]
            fa, fb = base + "_a_3.raw", base + "_b_3.raw"
            file_format.write(pa, vp, mode, fa)
            file_format.write(pb, vpb, make_mode(fmt_b["fields"]), fb)
            if diff["pad"] and not set_padding_bits(fb, vpb, make_mode(fmt_b["fields"])):
                dis += 1  # the implementation's layout has no padding bits here: nothing to set
            msg, code = run_compare(fa, fb, salt % 4 == 0)
            if code != obs["exit"]:
                viol.append(("C23|compare-exit|want%d|got%s" % (obs["exit"], code), "%s, differences %s: exit code %s (%r), expected %d" % (sig_fmt, diff, code, msg[:200], obs["exit"])))
            elif code == 4:
                got = parse_counts(msg)
                if got != obs["counts"]:
                    viol.append(("C23|compare-counts", "%s, differences %s: reported differing pixels %s, actually %s (%r)" % (sig_fmt, diff, got, obs["counts"], msg[:300])))
            elif code == 0 and "Pictures are identical" not in msg:
                dis += 1
    except RuntimeError:
        raise
    except BaseException as e:  # noqa  (SystemExit from the tool is an answer of the code under test)
        if isinstance(e, KeyboardInterrupt):
            raise
        viol.append(("C23|%s-exception|%s" % (case["stage"], common.exc_signature(e) if isinstance(e, Exception) else "SystemExit(%s)" % (e.code,)), "%s: raised %r" % (sig_fmt, e)))
    return {"violations": viol, "disagreements": dis}


def g_block(arg):
    idx, block = arg
    st = tlaval.parse_state_block(block)
    if st["stage"] not in ("pic", "cmp"):
        return None
    case = {"stage": st["stage"], "fmt": J(st["fmt"]), "pic": J(st["pic"]), "diff": J(st["diff"]), "obs": J(st["obs"])}
    case["salt"] = zlib.crc32(repr(sorted(case["fmt"].items())).encode() + repr(sorted(case["pic"].items())).encode() + repr(case["diff"]).encode()) & 0xFFFFFF
    r = g_exec(case)
    r["case"] = case if r["violations"] else None
    r["sample"] = case
    r["stage"] = case["stage"]
    r["nontrivial"] = case["stage"] == "cmp" or case["fmt"]["dl"] > 16 or case["fmt"]["dl"] % 8 != 0
    return r


# ------------------------------------------------------------------- one process, objects, histories
_USED_LIBRARY = False  # True as soon as THIS process (or the one it was forked from) has called the code under test


def mark_used():
    global _USED_LIBRARY
    _USED_LIBRARY = True


def in_fresh_process(fn, arg):
    """fn(arg) in a forked child of a process that has imported, but never called, the code under test: the
    child's module-level state (caches, registries) is that of a process that starts with this history."""
    import vc2_conformance.file_format  # noqa: F401  (import only)
    import vc2_conformance.scripts.vc2_picture_compare  # noqa: F401

    if _USED_LIBRARY:
        raise RuntimeError("in_fresh_process called from a process that has already used the code under test")
    r, w = os.pipe()
    pid = os.fork()
    if pid == 0:
        code = 1
        try:
            os.close(r)
            try:
                out = ("ok", fn(arg))
            except BaseException:  # noqa
                out = ("err", traceback.format_exc())
            with os.fdopen(w, "wb") as f:
                pickle.dump(out, f)
            code = 0
        finally:
            os._exit(code)
    os.close(w)
    with os.fdopen(r, "rb") as f:
        data = f.read()
    _, status = os.waitpid(pid, 0)
    if status != 0 or not data:
        raise RuntimeError("child process for %s died (status %r)" % (getattr(fn, "__name__", fn), status))
    tag, val = pickle.loads(data)
    if tag == "err":
        raise RuntimeError("child process for %s failed:\n%s" % (getattr(fn, "__name__", fn), val))
    return val


KINDS = ("list", "npint", "npobj", "nprows")


def container(kind, rows, depth):
    """the caller's container for one component"""
    import numpy as np

    if kind == "list":
        return [list(r) for r in rows]
    if kind == "npint":
        return np.array(rows, dtype=np.int64 if depth <= 63 else np.uint64)
    if kind == "npobj":
        return np.array(rows, dtype=object)
    if kind == "nprows":
        return [np.array(r, dtype=object) for r in rows]
    raise RuntimeError("unknown container kind %r" % (kind,))


def make_object(kind, ref, dims):
    obj = {"pic_num": ref["pic_num"]}
    for c in COMPS:
        obj[c] = container(kind, ref[c], dims[c][2])
    return obj


def as_lists(x):
    return [[int(v) for v in row] for row in x]


def denotes(pic, refs):
    """which of the reference values (1: as created, 2: the variant) the picture denotes; 3: neither"""
    try:
        got = dict((c, as_lists(pic[c])) for c in COMPS)
    except Exception:  # noqa
        return 3
    for n in sorted(refs):
        if all(got[c] == refs[n][c] for c in COMPS):
            return n
    return 3


def make_variant(ref, dims, rnd):
    """differs from ref in the top bit of one luma sample and in bit 0 of one C2 sample"""
    out = dict((c, [list(r) for r in ref[c]]) for c in COMPS)
    out["pic_num"] = ref["pic_num"]
    w, h, d = dims["Y"]
    p = rnd.randrange(w * h)
    out["Y"][p // w][p % w] ^= 1 << (d - 1)
    w, h, d = dims["C2"]
    p = rnd.randrange(w * h)
    out["C2"][p // w][p % w] ^= 1
    return out


def fmt_text(f):
    return "dl=%d dc=%d %dx%d %s %s" % (f["dl"], f["dc"], f["w"], f["h"], f["sub"], "fields" if f["fields"] else "frames")


def proc_exec(case):
    """case = {hist: [{i: step, exp: prediction}], salt, dir}: one history of RawFileProc.tla on the real code,
    every step compared with the prediction it carries.  Runs in a fresh process (see in_fresh_process)."""
    from vc2_conformance import file_format

    mark_used()
    salt = case["salt"]
    viol, dis, nlib, nw2, nr2 = [], 0, 0, 0, 0
    used = []
    st = None
    hist_text = lambda: ("in one process after the %d formats [%s%s]" % (len(used), "... " if len(used) > 4 else "", "; ".join(fmt_text(f) for f in used[-4:]))) if case.get("fresh", True) else "(process history not modelled)"
    where = lambda: hist_text() + ("" if st is None else ", %s picture held as %s" % (fmt_text(st["f"]), st["k"]))
    path = lambda s: os.path.join(case["dir"], "u%d_%s_0.raw" % (len(used), s))
    for n, step in enumerate(case["hist"]):
        i, exp = step["i"], step["exp"]
        a = i["a"]
        try:
            if a == "new":
                f = i["f"]
                rnd = random.Random(salt * 31 + len(used))
                dims = own_dims(f)
                pn = [0, 1, 1 << 31, (1 << 32) - 1][(salt + len(used)) % 4]
                ref1 = make_picture(dims, "rand", pn, rnd)
                refs = {1: ref1, 2: make_variant(ref1, dims, rnd)}
                # all formats of one history share every other video parameter (same salt)
                st = {"f": f, "k": i["k"], "dims": dims, "refs": refs, "pn": pn, "vp": make_vp(f, salt), "vp_ref": make_vp(f, salt), "mode": make_mode(f["fields"]), "files": {}, "nw": 0}
                st["obj"] = make_object(st["k"], refs[1], dims)
                st["objv"] = 1
            elif a == "vary":
                st["obj"] = make_object(st["k"], st["refs"][2], st["dims"])
                st["objv"] = 2
                st["nw"] = 0
            elif a == "done":
                for sl in st["files"]:
                    for fn in (path(sl), path(sl)[:-4] + ".json"):
                        if os.path.exists(fn):
                            os.remove(fn)
                used.append(st["f"])
                st = None
            elif a == "start":
                pass
            elif a == "write":
                nlib += 1
                st["nw"] += 1
                fn = path(i["s"])
                keys = sorted(st["obj"].keys())
                if (salt + n) % 2:
                    file_format.write(st["obj"], st["vp"], st["mode"], fn)
                else:
                    with open(fn[:-4] + ".json", "wb") as fh:
                        file_format.write_metadata(st["obj"], st["vp"], st["mode"], fh)
                    with open(fn, "wb") as fh:
                        file_format.write_picture(st["obj"], st["vp"], st["mode"], fh)
                st["files"][i["s"]] = st["nw"]
                nw2 += st["nw"] >= 2
                objv = denotes(st["obj"], st["refs"])
                if objv != exp["objv"]:
                    viol.append(("C23|proc|write-changes-picture|%s|bps%s" % (st["k"], ">1" if max(st["f"]["dl"], st["f"]["dc"]) > 8 else "=1"), "%s: after write number %d of the caller's picture object it no longer denotes the picture it was created with (the write is not a function of its arguments' values: a second write or any later use of the object sees other samples)" % (where(), st["nw"])))
                    st["objv"] = objv
                args_same = sorted(st["obj"].keys()) == keys and st["obj"]["pic_num"] == st["pn"] and st["vp"] == st["vp_ref"] and type(st["vp"]) is type(st["vp_ref"]) and st["mode"] == make_mode(st["f"]["fields"])
                if args_same != exp["args"]:
                    viol.append(("C23|proc|write-changes-arguments", "%s: the write changed its picture number / video parameters / coding mode arguments: %r %r" % (where(), st["obj"].get("pic_num"), st["vp"])))
                if os.path.getsize(fn) != exp["size"]:
                    dis += 1
            elif a == "read":
                nlib += 1
                fn = path(i["s"])
                rpic, rvp, rmode = file_format.read(fn[:-4] + ".json" if (salt + n) % 3 == 0 else fn)
                v = denotes(rpic, st["refs"])
                nr2 += st["files"][i["s"]] >= 2
                if v != exp["v"]:
                    bad = [(c, y, x, st["refs"][exp["v"]][c][y][x], rpic[c][y][x]) for c in COMPS for y in range(min(len(rpic[c]), st["dims"][c][1])) for x in range(min(len(rpic[c][y]), st["dims"][c][0])) if rpic[c][y][x] != st["refs"][exp["v"]][c][y][x]][:3]
                    viol.append(("C23|proc|roundtrip-samples|write%d|%s|prev%d" % (st["files"][i["s"]], st["k"], min(len(used), 1)), "%s: the file produced by write number %d of the object reads back differently from the picture that was written, e.g. (component, y, x, written, read) %s" % (where(), st["files"][i["s"]], bad)))
                meta = rpic["pic_num"] == st["pn"] and rvp == st["vp_ref"] and type(rvp) is type(st["vp_ref"]) and rmode == make_mode(st["f"]["fields"])
                if meta != exp["meta"]:
                    viol.append(("C23|proc|roundtrip-metadata|prev%d" % min(len(used), 1), "%s: picture number / video parameters / coding mode read back differently: %r %r %r" % (where(), rpic["pic_num"], rvp, rmode)))
            elif a == "cmp":
                nlib += 1
                msg, code = run_compare(path(i["s"]), path(i["t"]), (salt + n) % 4 == 0)
                if code != exp["exit"]:
                    viol.append(("C23|proc|compare-exit|want%d|got%s|prev%d" % (exp["exit"], code, min(len(used), 1)), "%s: files %s and %s (writes number %s and %s): exit code %s (%r), expected %d" % (where(), i["s"], i["t"], st["files"][i["s"]], st["files"][i["t"]], code, msg[:200], exp["exit"])))
                elif code == 4 and parse_counts(msg) != exp["counts"]:
                    viol.append(("C23|proc|compare-counts|prev%d" % min(len(used), 1), "%s: reported differing pixels %s, actually %s (%r)" % (where(), parse_counts(msg), exp["counts"], msg[:300])))
            else:
                raise RuntimeError("unknown step %r" % (i,))
        except RuntimeError:
            raise
        except BaseException as e:  # noqa
            if isinstance(e, KeyboardInterrupt):
                raise
            viol.append(("C23|proc|%s-exception|%s" % (a, common.exc_signature(e) if isinstance(e, Exception) else "SystemExit(%s)" % (e.code,)), "%s: step %r raised %r" % (where(), i, e)))
            break
        if viol:
            break
    return {"violations": viol, "disagreements": dis, "library_calls": nlib, "second_writes": nw2, "reads_of_second_writes": nr2}


def proc_hist(block):
    st = parse_vars(block, ["hist"])
    return json.dumps(J(st["hist"]), sort_keys=True)


def proc_leaf(arg):
    """arg = (history as JSON, fresh): fresh = the history models the process from its start, so it gets a
    freshly forked process; otherwise (process history not modelled) it runs in the long-lived pool worker"""
    hist_json, fresh = arg
    hist = json.loads(hist_json)
    case = {"hist": hist, "salt": zlib.crc32(hist_json.encode()) & 0xFFFFFF, "fresh": fresh}
    r = in_fresh_process(proc_exec, dict(case, dir=workdir())) if fresh else proc_exec(dict(case, dir=workdir()))
    r["case"] = case
    r["kinds"] = sorted(set(s["i"]["k"] for s in hist if s["i"]["a"] == "new"))
    r["formats"] = [[s["i"]["f"]["dl"], s["i"]["f"]["dc"]] for s in hist if s["i"]["a"] == "new"]
    if not r["violations"]:
        r["case"] = None if zlib.crc32(hist_json.encode()) % 50 or len(hist) > 40 else case
    return r


_RE_HVAR = re.compile(r"^/\\ (p|n|rank|last|inp) = (.*)$", re.M)
_HPARSE = {}


def hist_state(block):
    """one dumped RawFileHist state -> (pivot, position in the process, step as JSON); the few distinct
    inp / last texts are parsed once"""
    st = dict(_RE_HVAR.findall(block))
    if len(st) != 5:
        raise RuntimeError("unexpected RawFileHist state %r" % (block,))
    if st["p"] == "0" or '"start"' in st["inp"]:
        return None
    key = (st["inp"], st["last"])
    if key not in _HPARSE:
        _HPARSE[key] = json.dumps({"i": J(tlaval.parse(st["inp"])), "exp": J(tlaval.parse(st["last"]))}, sort_keys=True)
    return (int(st["p"]), int(st["n"]) * 8 + int(st["rank"]), _HPARSE[key])


def hist_processes(res):
    """the behaviours of a dumped RawFileHist run: per pivot the chain of its steps in order"""
    per = {}
    n = 0
    for t in map(hist_state, dump_blocks(res.dump_path)):
        if t is not None:
            per.setdefault(t[0], []).append(t[1:])
            n += 1
    out = []
    for pv in sorted(per):
        steps = sorted(per[pv])
        if [k for k, _ in steps] != list(range(1, len(steps) + 1)):
            raise RuntimeError("RawFileHist dump: steps of pivot %d are not a chain" % pv)
        out.append("[" + ", ".join(sj for _, sj in steps) + "]")
    return out, n


def proc_leaves(res):
    """histories of a dumped RawFileProc run that are not a proper prefix of another dumped history: replaying
    them with every step checked covers every dumped state (each is the end of a prefix of a replayed history)."""
    hs = [proc_hist(b) for b in dump_blocks(res.dump_path)]
    steps = []
    for h in hs:
        steps.append(json.loads(h))
    keyed = [tuple(json.dumps(s, sort_keys=True) for s in h) for h in steps]
    allh = set(keyed)
    prefixes = set()
    for k in allh:
        for n in range(len(k)):
            prefixes.add(k[:n])
    leaves = sorted(k for k in allh if k not in prefixes)
    covered = len(allh)
    # every dumped history must be a prefix of (or equal to) a leaf
    if any(k not in prefixes and k not in set(leaves) for k in allh):
        raise RuntimeError("leaf selection lost a history")
    return ["[" + ", ".join(k) + "]" for k in leaves], covered


# ----------------------------------------------------------------------------------- T direction
def rand_format(rnd):
    while True:
        fmt = {
            "w": rnd.randrange(1, 9),
            "h": rnd.randrange(1, 9),
            "sub": rnd.choice(["444", "422", "420"]),
            "fields": rnd.random() < 0.4,
            "dl": rnd.choice([rnd.randrange(1, 65), rnd.choice([1, 7, 8, 9, 15, 16, 17, 31, 32, 33, 63, 64])]),
            "dc": rnd.choice([rnd.randrange(1, 65), rnd.choice([1, 7, 8, 9, 15, 16, 17, 31, 32, 33, 63, 64])]),
        }
        if valid_format(fmt):
            return fmt


def safe_digits(v, bps):
    try:
        v = int(v)
        if 0 <= v < (1 << (8 * bps)):
            return digits(v, bps)
    except Exception:  # noqa
        pass
    return [-1]


def obj_digits(pic, dims):
    try:
        return dict((c, [safe_digits(v, own_bps(dims[c][2])) for row in pic[c] for v in row]) for c in COMPS)
    except Exception:  # noqa
        return {"Y": [[-1]], "C1": [[-1]], "C2": [[-1]]}


def rt_event(tid, fmt, kind, nth, ref, obj, salt, base, use_write):
    """one write of the caller's object `obj` (created from the reference value `ref`, which never goes near the
    library) + read back, as an "rt" event: wr = the picture the caller wrote (ref), wra = what the caller's
    object holds after the write, rd = what was read back"""
    from vc2_conformance import file_format

    dims = own_dims(fmt)
    pn = ref["pic_num"]
    ev = {"tid": tid, "ev": "rt", "fmt": fmt, "kind": kind, "nth": nth, "wr": flat_digits(ref, dims), "wra": {"Y": [], "C1": [], "C2": []}, "argsame": False, "rd": {"Y": [], "C1": [], "C2": []}, "file": [], "pnw": str(pn), "pnr": "", "vpeq": False, "modeeq": False, "exc": "none"}
    try:
        vp = make_vp(fmt, salt)
        vp_ref = make_vp(fmt, salt)
        mode = make_mode(fmt["fields"])
        keys = sorted(obj.keys())
        if use_write:
            file_format.write(obj, vp, mode, base)
            rpic, rvp, rmode = file_format.read(base)
        else:
            with open(base[:-4] + ".json", "wb") as f:
                file_format.write_metadata(obj, vp, mode, f)
            with open(base, "wb") as f:
                file_format.write_picture(obj, vp, mode, f)
            with open(base[:-4] + ".json", "rb") as f:
                rvp, rmode, rpn = file_format.read_metadata(f)
            with open(base, "rb") as f:
                rpic = file_format.read_picture(rvp, rmode, rpn, f)
        ev["wra"] = obj_digits(obj, dims)
        ev["argsame"] = bool(sorted(obj.keys()) == keys and obj["pic_num"] == pn and vp == vp_ref and type(vp) is type(vp_ref) and mode == make_mode(fmt["fields"]))
        with open(base, "rb") as f:
            ev["file"] = list(f.read())
        ev["rd"] = obj_digits(rpic, dims)
        ev["pnr"] = str(rpic["pic_num"])
        ev["vpeq"] = bool(rvp == vp_ref and type(rvp) is type(vp_ref))
        ev["modeeq"] = bool(rmode == make_mode(fmt["fields"]))
    except Exception as e:  # noqa
        ev["exc"] = common.exc_signature(e)
    return ev


def rec_rt(arg):
    mark_used()
    tid, seed = arg
    rnd = random.Random(seed)
    fmt = rand_format(rnd)
    dims = own_dims(fmt)
    pn = rnd.choice([0, 1, (1 << 31) - 1, 1 << 31, (1 << 32) - 1, rnd.getrandbits(32)])
    pic = make_picture(dims, rnd.choice(["rand", "rand", "rand", "max", "alt"]), pn, rnd)
    base = os.path.join(workdir(), "t%d_%d.raw" % (os.getpid(), rnd.randrange(10)))
    return rt_event(tid, fmt, "list", 1, copy.deepcopy(pic), pic, seed, base, bool(seed % 2))


SESSION_FORMATS = 10


def session_body(arg):
    """One PROCESS: a fixed shape and fixed other video parameters, a sequence of depths biased towards pairs
    (d, d +- 61) and the ends of the range, pictures held in random container kinds, each object written once or
    twice, sometimes compared with a variant.  Returns the recorded events (tids from tid0)."""
    from vc2_conformance import file_format

    mark_used()
    tid, seed, d = arg
    rnd = random.Random(seed)
    while True:
        shape = {"w": rnd.randrange(1, 7), "h": rnd.randrange(1, 7), "sub": rnd.choice(["444", "422", "420"]), "fields": rnd.random() < 0.4}
        if valid_format(dict(shape, dl=1, dc=1)):
            break
    pool = [1, 2, 3, 62, 63, 64]
    for _ in range(3):
        x = rnd.randrange(1, 65)
        pool += [x] + [y for y in (x - 61, x + 61) if 1 <= y <= 64]
    events = []
    alt = rnd.random() < 0.3
    for j in range(SESSION_FORMATS):
        dl = rnd.choice(pool)
        dc = (65 - dl if alt else dl) if rnd.random() < 0.7 else rnd.choice(pool)
        fmt = dict(shape, dl=dl, dc=dc)
        dims = own_dims(fmt)
        kind = rnd.choice(KINDS)
        ref = make_picture(dims, "rand", rnd.choice([0, 1, 1 << 31, (1 << 32) - 1]), rnd)
        obj = make_object(kind, ref, dims)
        fa = os.path.join(d, "s%d_a_0.raw" % j)
        for nth in (1, 2) if rnd.random() < 0.6 else (1,):
            tid += 1
            events.append(rt_event(tid, fmt, kind, nth, ref, obj, seed, fa, bool((seed + j + nth) % 2)))
        if rnd.random() < 0.5:
            var = make_variant(ref, dims, rnd)
            same = rnd.random() < 0.3
            other = make_object(kind, ref if same else var, dims)
            fb = os.path.join(d, "s%d_b_0.raw" % j)
            tid += 1
            ev = {"tid": tid, "ev": "cmp", "fmt": fmt, "a": flat_digits(ref, dims), "b": flat_digits(ref if same else var, dims), "sameparams": True, "samemode": True, "pna": str(ref["pic_num"]), "pnb": str(ref["pic_num"]), "exit": -1, "counts": {"Y": -1, "C1": -1, "C2": -1}, "saysidentical": False, "exc": "none", "kind": "session"}
            try:
                file_format.write(other, make_vp(fmt, seed), make_mode(fmt["fields"]), fb)
                msg, code = run_compare(fa, fb, (seed + j) % 3 == 0)
                ev["exit"] = int(code)
                got = parse_counts(msg)
                for c in COMPS:
                    ev["counts"][c] = got.get(c, -1)
                ev["saysidentical"] = "Pictures are identical" in msg
            except BaseException as e:  # noqa
                if isinstance(e, KeyboardInterrupt):
                    raise
                ev["exc"] = common.exc_signature(e) if isinstance(e, Exception) else "SystemExit(%s)" % (e.code,)
            events.append(ev)
    return events


def rec_session(arg):
    tid0, seed = arg
    return in_fresh_process(session_body, (tid0, seed, workdir()))


def rec_cmp(arg):
    from vc2_conformance import file_format

    mark_used()
    tid, seed = arg
    rnd = random.Random(seed)
    fmt = rand_format(rnd)
    dims = own_dims(fmt)
    pn = rnd.choice([0, 5, (1 << 32) - 1])
    pa = make_picture(dims, "rand", pn, rnd)
    vp = make_vp(fmt, seed)
    fmt_b = dict(fmt)
    vpb = make_vp(fmt, seed)
    kind = rnd.choice(["same", "samples", "samples", "samples", "number", "params", "struct", "mode", "pad", "multi"])
    sameparams = samemode = True
    pnb = pn
    n = {"Y": 0, "C1": 0, "C2": 0}
    if kind in ("samples", "multi", "pad") or (kind in ("number",) and rnd.random() < 0.5):
        for c in rnd.sample(COMPS, rnd.randrange(1, 4)) if kind != "pad" or rnd.random() < 0.3 else []:
            n[c] = rnd.randrange(1, dims[c][0] * dims[c][1] + 1)
    if kind in ("number", "multi") :
        pnb = (pn + rnd.choice([1, 1 << 31])) % (1 << 32)
    if kind == "params" or (kind == "multi" and rnd.random() < 0.5):
        key = rnd.choice(["frame_rate_numer", "top_field_first", "luma_offset", "clean_height", "source_sampling"])
        vpb[key] = (not vpb[key]) if isinstance(vpb[key], bool) else type(vpb[key])((int(vpb[key]) + 1) % 2) if key == "source_sampling" else vpb[key] + 1
        sameparams = False
    if kind == "struct":
        cand = dict(fmt, w=fmt["w"] * 2)
        fmt_b = cand
        vpb = make_vp(fmt_b, seed)
        sameparams = False
    if kind == "mode" or (kind == "multi" and rnd.random() < 0.3):
        cand = dict(fmt_b, fields=not fmt_b["fields"])
        if valid_format(cand):
            fmt_b = cand
            samemode = False
    dims_b = own_dims(fmt_b)
    if dims_b == dims:
        pb = apply_sample_diffs(pa, dims, n, rnd)
    else:
        pb = make_picture(dims_b, "rand", pn, rnd)
    pb["pic_num"] = pnb
    ev = {"tid": tid, "ev": "cmp", "fmt": fmt, "a": flat_digits(pa, dims), "b": flat_digits(pb, dims_b), "sameparams": sameparams, "samemode": samemode, "pna": str(pn), "pnb": str(pnb), "exit": -1, "counts": {"Y": -1, "C1": -1, "C2": -1}, "saysidentical": False, "exc": "none", "kind": kind}
    fa = os.path.join(workdir(), "ca%d_%d.raw" % (os.getpid(), 4))
    fb = os.path.join(workdir(), "cb%d_%d.raw" % (os.getpid(), 4))
    try:
        file_format.write(pa, vp, make_mode(fmt["fields"]), fa)
        file_format.write(pb, vpb, make_mode(fmt_b["fields"]), fb)
        if kind == "pad":
            set_padding_bits(fb, vpb, make_mode(fmt_b["fields"]))
        msg, code = run_compare(fa, fb, seed % 3 == 0)
        ev["exit"] = int(code)
        got = parse_counts(msg)
        for c in COMPS:
            ev["counts"][c] = got.get(c, -1)
        ev["saysidentical"] = "Pictures are identical" in msg
    except BaseException as e:  # noqa
        if isinstance(e, KeyboardInterrupt):
            raise
        ev["exc"] = common.exc_signature(e) if isinstance(e, Exception) else "SystemExit(%s)" % (e.code,)
    return ev


_RE_SUMMARY = re.compile(r"^Summary: (\d+) identical, (\d+) different$", re.M)


def rec_dir(arg):
    """The comparison tool on two DIRECTORIES of numbered pictures (main([dir_a, dir_b])): 1-4 pairs, file
    numbers in an order in which numeric and lexicographic sorting differ, different name stems and zero padding
    in the two directories; each pair is made identical / different in padding bits, samples, picture number,
    one video parameter or the coding mode."""
    import shutil
    from vc2_conformance import file_format
    from vc2_conformance.scripts import vc2_picture_compare as pc

    mark_used()
    tid, seed = arg
    rnd = random.Random(seed)
    fmt = rand_format(rnd)
    dims = own_dims(fmt)
    npairs = rnd.randrange(1, 5)
    numbers = sorted(rnd.sample([0, 1, 2, 3, 9, 10, 11, 100], npairs))
    da = os.path.join(workdir(), "da%d" % os.getpid())
    db = os.path.join(workdir(), "db%d" % os.getpid())
    for d in (da, db):
        shutil.rmtree(d, ignore_errors=True)
        os.makedirs(d)
    pairs = []
    ev = {"tid": tid, "ev": "dir", "fmt": fmt, "numbers": numbers, "pairs": pairs, "exit": -1, "nsame": -1, "ndifferent": -1, "exc": "none"}
    try:
        for i, num in enumerate(numbers):
            kind = rnd.choice(["same", "same", "same", "pad", "samples", "samples", "number", "params", "mode"])
            pn = rnd.choice([0, 5, (1 << 32) - 1])
            pa = make_picture(dims, "rand", pn, rnd)
            vp = make_vp(fmt, seed + i)
            vpb = make_vp(fmt, seed + i)
            fmt_b = fmt
            n = {"Y": 0, "C1": 0, "C2": 0}
            sameparams = samemode = True
            pnb = pn
            if kind == "samples":
                for c in rnd.sample(COMPS, rnd.randrange(1, 4)):
                    n[c] = rnd.randrange(1, dims[c][0] * dims[c][1] + 1)
            elif kind == "number":
                pnb = (pn + rnd.choice([1, 1 << 31])) % (1 << 32)
            elif kind == "params":
                vpb["frame_rate_numer"] += 1
                sameparams = False
            elif kind == "mode":
                cand = dict(fmt, fields=not fmt["fields"])
                if valid_format(cand):
                    fmt_b = cand
                    samemode = False
            dims_b = own_dims(fmt_b)
            pb = apply_sample_diffs(pa, dims, n, rnd) if dims_b == dims else make_picture(dims_b, "rand", pn, rnd)
            pb["pic_num"] = pnb
            fa = os.path.join(da, "picture_%d.raw" % num)
            fb = os.path.join(db, "out%s%03d.raw" % ("_" if seed % 2 else "", num))
            file_format.write(pa, vp, make_mode(fmt["fields"]), fa)
            file_format.write(pb, vpb, make_mode(fmt_b["fields"]), fb)
            if kind == "pad":
                set_padding_bits(fb, vpb, make_mode(fmt_b["fields"]))
            pairs.append({"kind": kind, "sameparams": sameparams, "samemode": samemode, "samenumber": pnb == pn, "counts": n if (sameparams and samemode) else {"Y": 0, "C1": 0, "C2": 0}})
        buf = io.StringIO()
        with contextlib.redirect_stdout(buf):
            code = pc.main([da, db])
        ev["exit"] = int(code)
        m = _RE_SUMMARY.search(buf.getvalue())
        if m:
            ev["nsame"], ev["ndifferent"] = int(m.group(1)), int(m.group(2))
    except BaseException as e:  # noqa
        if isinstance(e, KeyboardInterrupt):
            raise
        ev["exc"] = common.exc_signature(e) if isinstance(e, Exception) else "SystemExit(%s)" % (e.code,)
    finally:
        shutil.rmtree(da, ignore_errors=True)
        shutil.rmtree(db, ignore_errors=True)
    return ev


def rec_any(job):
    kind, tid, seed = job
    if kind == "ses":
        return rec_session((tid, seed))
    if kind == "dir":
        return rec_dir((tid, seed))
    return (rec_rt if kind == "rt" else rec_cmp)((tid, seed))


def trace_direction(ctx, ses_jobs, ses_out):
    """ses_out: the events of the sessions (each recorded in a freshly forked process, see proc_direction)"""
    from .. import trace

    counts = ctx.pick({"rt": 600, "cmp": 900, "dir": 300}, {"rt": 6000, "cmp": 9000, "dir": 3000})
    counts["ses"] = len(ses_jobs)
    records, rec_jobs = [], []
    for job, evs in zip(ses_jobs, ses_out):
        records += evs
        rec_jobs += [("ses",) + tuple(job)] * len(evs)
    nses = len(records)
    jobs = []
    tid = 0
    for kind in ("rt", "cmp", "dir"):
        for _ in range(counts[kind]):
            tid += 1
            jobs.append((kind, tid, ctx.seed * 1000003 + tid))
    records += common.pmap(rec_any, jobs)
    rec_jobs += jobs
    bad, res = trace.validate("RawFileTrace", records)
    ctx.add_tlc(res, "trace validation (RawFileTrace)")
    dis = 0
    for b in bad:
        rec = records[b["line"] - 1]
        if b["clause"] == "DriverInput":
            raise RuntimeError("driver built an ill-formed picture: %r" % (rec_jobs[b["line"] - 1],))
        if b["alarm"]:
            what = dict((k, v) for k, v in rec.items() if k not in ("wr", "wra", "rd", "file", "a", "b"))
            sig = "C23|trace|%s|%s" % (rec["ev"], b["clause"])
            if rec_jobs[b["line"] - 1][0] == "ses":
                sig += "|session"
            ctx.violation(sig, "recorded %s event rejected by clause %s: %s" % (rec["ev"], b["clause"], what), {"kind": "trace", "job": list(rec_jobs[b["line"] - 1]), "tid": rec["tid"]})
        else:
            dis += 1
    ses = records[:nses]
    ses_stats = {
        "sessions": counts["ses"],
        "events": nses,
        "second_writes_of_one_object": sum(1 for r in ses if r["ev"] == "rt" and r["nth"] == 2),
        "second_writes_of_numpy_object_arrays_above_8_bits": sum(1 for r in ses if r["ev"] == "rt" and r["nth"] == 2 and r["kind"] == "npobj" and max(r["fmt"]["dl"], r["fmt"]["dc"]) > 8),
        "container_kinds": dict((k, sum(1 for r in ses if r.get("kind") == k)) for k in KINDS),
        "depth_after_depth_minus_61_in_one_process": 0,
    }
    by_ses = {}
    for r in ses:
        by_ses.setdefault(r["tid"] // 1000, []).append(r)
    for evs in by_ses.values():
        seen = set()
        for r in evs:
            key = (r["fmt"]["dl"], r["fmt"]["dc"])
            if key not in seen and any((g[0] - key[0]) % 61 == 0 and (g[1] - key[1]) % 61 == 0 and g != key for g in seen):
                ses_stats["depth_after_depth_minus_61_in_one_process"] += 1
            seen.add(key)
    guard(ctx, ses_stats["second_writes_of_numpy_object_arrays_above_8_bits"] > 0 and ses_stats["depth_after_depth_minus_61_in_one_process"] > 0 and all(v > 0 for v in ses_stats["container_kinds"].values()), "vacuity: recorded sessions: %r" % (ses_stats,))
    exits = {}
    for r in records:
        if r["ev"] == "cmp":
            exits[r["exit"]] = exits.get(r["exit"], 0) + 1
    guard(ctx, all(exits.get(k, 0) > 0 for k in (0, 1, 2, 3, 4)), "vacuity: recorded comparisons did not produce every exit code: %r" % (exits,))
    dirs = [r for r in records if r["ev"] == "dir" and r["exc"] == "none"]
    ident = lambda q: q["sameparams"] and q["samemode"] and q["samenumber"] and not any(q["counts"].values())
    dir_stats = {
        "runs": len(dirs),
        "all_identical_with_2_or_more_pairs": sum(1 for r in dirs if len(r["pairs"]) > 1 and all(ident(q) for q in r["pairs"])),
        "different_pair_followed_by_identical_last_pair": sum(1 for r in dirs if len(r["pairs"]) > 1 and ident(r["pairs"][-1]) and not all(ident(q) for q in r["pairs"])),
        "numeric_order_differs_from_lexicographic": sum(1 for r in dirs if sorted(map(str, r["numbers"])) != list(map(str, r["numbers"]))),
        "exit_codes": dict((str(k), sum(1 for r in dirs if r["exit"] == k)) for k in sorted(set(r["exit"] for r in dirs))),
    }
    guard(ctx, dir_stats["all_identical_with_2_or_more_pairs"] > 0 and dir_stats["different_pair_followed_by_identical_last_pair"] > 0 and dir_stats["numeric_order_differs_from_lexicographic"] > 0, "vacuity: recorded directory comparisons: %r" % (dir_stats,))
    deep = sum(1 for r in records if r["ev"] == "rt" and max(r["fmt"]["dl"], r["fmt"]["dc"]) > 32)
    guard(ctx, deep > 0, "vacuity: no recorded round trip above 32 bits")
    # binding self-test: corrupted recorded fields must be rejected on exactly those lines
    try:
        rt = next(dict(r) for r in records if r["ev"] == "rt" and r["exc"] == "none" and r["rd"]["Y"] and len(r["rd"]["Y"][0]) > 0 and r["rd"]["Y"][0][0] >= 0)
        cm = next(dict(r) for r in records if r["ev"] == "cmp" and r["exit"] == 4 and any(r["counts"][c] > 0 for c in COMPS))
        c0 = next(dict(r) for r in records if r["ev"] == "cmp" and r["exit"] == 0)
        rd = dict(rt["rd"])
        rd["Y"] = [list(rd["Y"][0])] + rd["Y"][1:]
        rd["Y"][0][0] ^= 1
        rt["rd"] = rd
        cc = dict(cm["counts"])
        k = next(c for c in COMPS if cc[c] > 0)
        cc[k] += 1
        cm["counts"] = cc
        c0["exit"] = 4
        rt2 = next(dict(r) for r in records if r["ev"] == "rt" and r["exc"] == "none" and r["wra"]["Y"] and r["wra"]["Y"][0][0] >= 0)
        wra = dict(rt2["wra"])
        wra["Y"] = [list(wra["Y"][0])] + wra["Y"][1:]
        wra["Y"][0][0] ^= 1
        rt2["wra"] = wra
        rt3 = next(dict(r) for r in records if r["ev"] == "rt" and r["exc"] == "none")
        rt3["argsame"] = False
        d0 = next(dict(r) for r in dirs if r["exit"] == 0 and len(r["pairs"]) > 1)
        d0["exit"] = 4
        d4 = next(dict(r) for r in dirs if r["exit"] != 0 and ident(r["pairs"][-1]))
        d4["exit"] = 0
        pbad, _ = trace.validate("RawFileTrace", [rt, cm, c0, rt2, rt3, d0, d4])
        got = sorted((b["line"], b["clause"], b["alarm"]) for b in pbad)
        okst = got == [(1, "RoundTripSamples", True), (2, "DifferenceCounts", True), (3, "ExitCode", True), (4, "WriteChangedPicture", True), (5, "WriteChangedArguments", True), (6, "DirExitZeroIffAllIdentical", True), (7, "DirExitZeroIffAllIdentical", True)]
    except StopIteration:
        got, okst = "no suitable recorded event", False
    guard(ctx, okst, "trace binding self-test failed: corrupted fields judged as %r" % (got,))
    small = lambda r: dict((k, (v if k not in ("wr", "wra", "rd", "file", "a", "b") else "...")) for k, v in r.items())
    return len(records), dis, {"exit_codes": exits, "roundtrips_above_32_bits": deep, "sessions_in_one_process": ses_stats, "directory_mode": dir_stats}, [small(records[0]), small(records[nses]), small(records[nses + counts["rt"]])]


def selftest_proc(arg):
    """(in a forked child) two broken implementations installed in-process must be flagged by the process-level
    replay: a write_picture that works in place on numpy object arrays, and dimensions memoised under hash()."""
    from vc2_conformance import file_format

    alias_cases, hist_cases, d = arg
    orig_wp, orig_cd = file_format.write_picture, file_format.compute_dimensions_and_depths
    import numpy as np

    def aliasing_write_picture(picture, video_parameters, picture_coding_mode, file):
        orig_wp(picture, video_parameters, picture_coding_mode, file)
        for c in COMPS:
            if isinstance(picture[c], np.ndarray) and picture[c].dtype == object:
                picture[c] >>= 8

    cache = {}

    def hashed_dims(video_parameters, picture_coding_mode):
        key = hash((tuple(sorted(video_parameters.items())), int(picture_coding_mode)))
        if key not in cache:
            cache[key] = orig_cd(video_parameters, picture_coding_mode)
        return cache[key]

    hits = {"alias": 0, "history": 0}
    try:
        file_format.write_picture = aliasing_write_picture
        for c in alias_cases:
            if any(sg.startswith("C23|proc|write-changes-picture|npobj") or sg.startswith("C23|proc|roundtrip-samples|write2|npobj") for sg, _ in proc_exec(dict(c, dir=d))["violations"]):
                hits["alias"] += 1
        file_format.write_picture = orig_wp
        file_format.compute_dimensions_and_depths = hashed_dims
        for c in hist_cases:
            cache.clear()
            if any(sg.startswith("C23|proc|roundtrip-samples") and sg.endswith("prev1") for sg, _ in proc_exec(dict(c, dir=d))["violations"]):
                hits["history"] += 1
    finally:
        file_format.write_picture, file_format.compute_dimensions_and_depths = orig_wp, orig_cd
    return hits


FRESH_PROCS = 8  # concurrent freshly forked processes (fork + copy-on-write scale badly beyond that on a busy box)


def fresh_job(arg):
    kind, payload = arg
    return proc_leaf((payload, True)) if kind == "leaf" else rec_session(payload)


def proc_direction(ctx, runs, ses_jobs):
    """runs: list of (module, name, consts, TLCResult) of RawFileProc / RawFileHist configurations; ses_jobs: the
    recording sessions of the T direction (they need fresh processes too and share the pool).  Must be called
    before this process uses the code under test itself (histories that model a process from its start run in
    a freshly forked child)."""
    stats = {"configurations": {}, "histories_replayed": 0, "processes_forked": 0, "dumped_states_covered": 0, "library_calls": 0, "second_writes": 0, "reads_of_second_writes": 0, "kinds": {}}
    dis = 0
    samples = []
    alias_probe, hist_probe = [], []
    consecutive, first_use = set(), set()
    todo = []
    for module, name, consts, res in runs:
        fix_coverage(res)
        if module == "RawFileProc":
            fresh = str(consts["MaxPrev"]) != "0"
            require_actions(res, ["New", "WriteTo", "ReadFrom", "Compare"] + (["Done"] if fresh else ["Vary"]))
            leaves, covered = proc_leaves(res)
        else:
            fresh = True
            require_actions(res, ["Start", "Use"])
            leaves, covered = hist_processes(res)
        ctx.add_tlc(res, "%s exhaustive (%s)" % (module, name), consts)
        stats["configurations"][name] = {"module": module, "dumped_states": covered, "histories_replayed": len(leaves), "each_in_a_fresh_process": fresh}
        stats["histories_replayed"] += len(leaves)
        stats["processes_forked"] += len(leaves) if fresh else 0
        stats["dumped_states_covered"] += covered
        todo += [(module, name, consts, fresh, h) for h in leaves]
    # one pool for everything that needs a fresh process (longest first), one for the rest
    fresh_items = sorted([("leaf", t[4]) for t in todo if t[3]], key=lambda x: -len(x[1])) + [("ses", j) for j in ses_jobs]
    fresh_out = common.pmap(fresh_job, fresh_items, procs=FRESH_PROCS, chunksize=1)
    by_hist = dict((it[1], r) for it, r in zip(fresh_items, fresh_out) if it[0] == "leaf")
    ses_out = [r for it, r in zip(fresh_items, fresh_out) if it[0] == "ses"]
    shared = [t[4] for t in todo if not t[3]]
    by_hist.update(zip(shared, common.pmap(proc_leaf, [(h, False) for h in shared], chunksize=max(1, min(64, len(shared) // 128)))))
    for module, name, consts, fresh, h in todo:
        r = by_hist[h]
        dis += r["disagreements"]
        for k in ("library_calls", "second_writes", "reads_of_second_writes"):
            stats[k] += r[k]
        for k in r["kinds"]:
            stats["kinds"][k] = stats["kinds"].get(k, 0) + 1
        if fresh and str(consts["Shapes"]) == "ShapeF0":
            fm = [tuple(x) for x in r["formats"]]
            seen = []
            for j, x in enumerate(fm):
                if j:
                    consecutive.add((fm[j - 1], x))
                if x not in seen:
                    first_use.update((g, x) for g in seen)
                    seen.append(x)
        for sig, what in r["violations"]:
            ctx.violation(sig, what, {"kind": "proc", "case": r["case"]})
        if r["case"] is not None and not r["violations"] and len(samples) < 3 and name not in [x[0] for x in samples]:
            samples.append((name, r["case"]))
        if not fresh and r["reads_of_second_writes"] and r["kinds"] == ["npobj"] and len(alias_probe) < 10:
            f = json.loads(h)[0]["i"]["f"]
            if max(f["dl"], f["dc"]) > 8:
                alias_probe.append({"hist": json.loads(h), "salt": 5})
        if module == "RawFileHist" and r["formats"][0] in ([1, 1], [3, 3]) and str(consts["Shapes"]) == "ShapeF0":
            hist_probe.append({"hist": json.loads(h), "salt": 6})
    every = [(d, d) for d in range(1, 65)]
    stats["ordered_depth_pairs_used_consecutively_in_one_process"] = sum(1 for a in every for b in every if (a, b) in consecutive)
    stats["ordered_depth_pairs_first_use_after_the_other"] = sum(1 for a in every for b in every if (a, b) in first_use)
    stats["pairs_d_and_d_plus_61_both_orders"] = sum(1 for d in (1, 2, 3) for a, b in [((d, d), (d + 61, d + 61)), ((d + 61, d + 61), (d, d))] if (a, b) in first_use and (a, b) in consecutive)
    guard(
        ctx,
        stats["reads_of_second_writes"] > 0 and set(stats["kinds"]) == set(KINDS) and stats["pairs_d_and_d_plus_61_both_orders"] == 6 and stats["ordered_depth_pairs_used_consecutively_in_one_process"] == 64 * 64 and stats["ordered_depth_pairs_first_use_after_the_other"] == 64 * 63,
        "vacuity: process-level replay covered %r" % (stats,),
    )
    hits = in_fresh_process(selftest_proc, (alias_probe, hist_probe, workdir())) if alias_probe and hist_probe else {"alias": 0, "history": 0}
    guard(ctx, hits["alias"] > 0 and hits["history"] > 0, "process-level binding self-test failed: in-place write_picture / hash-memoised dimensions flagged on %r of %d / %d histories" % (hits, len(alias_probe), len(hist_probe)))
    stats["binding_selftest"] = {"mutants": "write_picture that shifts numpy object arrays of the caller in place; compute_dimensions_and_depths memoised under hash() of the parameters (both installed in a forked child)", "histories_flagging_them": hits}
    return stats, dis, [c for _, c in samples], ses_out


def selftest_binding(cases):
    """A read_picture that loses the top bit of luma samples must be flagged by the round-trip replay."""
    from vc2_conformance import file_format

    orig = file_format.read_picture

    def broken(video_parameters, picture_coding_mode, picture_number, file):
        pic = orig(video_parameters, picture_coding_mode, picture_number, file)
        pic["Y"] = [[v & ~(1 << 63) for v in row] for row in pic["Y"]]
        return pic

    file_format.read_picture = broken
    try:
        hit = 0
        for c in cases:
            if any(s.startswith("C23|roundtrip-samples|Y") or s.startswith("C23|pic-exception") for s, _ in g_exec(c)["violations"]):
                hit += 1
    finally:
        file_format.read_picture = orig
    return hit


def run(ctx):
    consts = ctx.pick({"Sizes": "SizesSmall", "CmpDepths": "{1, 8, 10, 16, 33, 64}"}, {"Sizes": "SizesMore", "CmpDepths": "{1, 2, 7, 8, 9, 10, 12, 16, 17, 24, 31, 32, 33, 48, 63, 64}"})
    NEG = {"Shapes": "ShapeF0", "MaxWrites": 2, "MaxPrev": 1, "Canon": "FALSE"}
    pconf = [
        # objects of every container kind, written up to twice, read and compared in any order (process history not modelled)
        ("RawFileProc", "objects: container kinds", dict(Shapes="ShapeF0", DepthPairs=ctx.pick("DepthsKinds", "DepthsKindsMore"), Kinds="AllKinds", MaxWrites=2, MaxPrev=0, Canon="FALSE")),
        # every history with one (thorough: up to two) earlier formats over depths that are congruent modulo 61, one fresh process each
        ("RawFileProc", "short histories: one (thorough: two) earlier formats", dict(Shapes="ShapeF0", DepthPairs=ctx.pick("DepthsNeg", "DepthsEdge"), Kinds="KindsList", MaxWrites=1, MaxPrev=ctx.pick(1, 2), Canon="TRUE")),
        # one process per pivot depth: every depth immediately before and after the pivot, first used after it
        ("RawFileHist", "long histories: every depth after every other", dict(Shapes="ShapeF0", DepthPairs=ctx.pick("DepthsEvery", "DepthsEveryAlt"))),
        # the same over every small shape / subsampling / coding mode at two depth pairs
        ("RawFileHist", "long histories: every shape after every other", dict(Shapes=ctx.pick("ShapesSmall", "ShapesMore"), DepthPairs="DepthsTwo")),
    ]
    negs = [
        ("ObjectsDenoteTheirValue", dict(NEG, DepthPairs="DepthsOne", Kinds="KindsObj", MaxPrev=0, WriteImpl='"alias"')),
        ("FileLayoutOfOwnFormat", dict(NEG, DepthPairs="DepthsNeg", Kinds="KindsList", MaxWrites=1, Canon="TRUE", CacheImpl='"hash61"')),
    ]
    specs = [{"module": "RawFile", "cfg": cfg_text("RawFile.cfg", **consts), "kwargs": {"dump": True, "workers": 1}}]
    specs += [{"module": m, "cfg": cfg_text(m + ".cfg", **c), "kwargs": {"dump": True, "workers": 1}} for m, _, c in pconf]
    specs += [{"module": "RawFileProc", "cfg": cfg_text("RawFileProc.cfg", **c), "kwargs": {"workers": 1, "allow_invariant_violation": True}} for _, c in negs]
    import time

    cpu = lambda: round(sum(os.times()[:4]), 1)
    phase, t0, c0 = {}, time.time(), cpu()
    R = tlc_many(specs)
    phase["tlc_models"], t0, c0 = {"wall": round(time.time() - t0, 1), "cpu": round(cpu() - c0, 1)}, time.time(), cpu()
    res = R[0]
    spec_selftest = {}
    for (inv, c), r in zip(negs, R[1 + len(pconf) :]):
        if r.invariant_violated != inv:
            raise RuntimeError("spec self-test: RawFileProc with %r does not violate %s (%r)" % (c, inv, r.invariant_violated))
        spec_selftest[inv] = "violated by the negative model %s after %d states" % (" ".join("%s=%s" % kv for kv in sorted(c.items()) if kv[0] in ("WriteImpl", "CacheImpl")), r.generated)
    # process-level histories first: this process must not have used the code under test before they are forked
    nses = ctx.pick(32, 320)
    ses_jobs = [(1000000 + 1000 * k, ctx.seed * 1000003 + 7919 * k) for k in range(nses)]
    pstats, pdis, psamples, ses_out = proc_direction(ctx, [(m, n, c, r) for (m, n, c), r in zip(pconf, R[1 : 1 + len(pconf)])], ses_jobs)
    pstats["negative_models"] = spec_selftest
    phase["process_level_replay"], t0, c0 = {"wall": round(time.time() - t0, 1), "cpu": round(cpu() - c0, 1)}, time.time(), cpu()
    fix_coverage(res)
    require_actions(res, ["ChooseFormat", "ChooseDepths", "ChoosePicture", "Compare"])
    ctx.add_tlc(res, "RawFile exhaustive", dict(consts, MaxDepth=64))
    blocks = dump_blocks(res.dump_path)
    out = [r for r in common.pmap(g_block, list(enumerate(blocks))) if r is not None]
    dis = 0
    for r in out:
        dis += r["disagreements"]
        for sig, what in r["violations"]:
            ctx.violation(sig, what, {"kind": "g", "case": r["case"]})
    npic = sum(1 for r in out if r["stage"] == "pic")
    ncmp = sum(1 for r in out if r["stage"] == "cmp")
    depths = set(r["sample"]["fmt"]["dl"] for r in out if r["stage"] == "pic")
    guard(ctx, depths == set(range(1, 65)) and ncmp > 0, "vacuity: depths replayed %r, comparisons %d" % (sorted(depths), ncmp))
    exits = {}
    for r in out:
        if r["stage"] == "cmp":
            exits[r["sample"]["obs"]["exit"]] = exits.get(r["sample"]["obs"]["exit"], 0) + 1
    phase["configuration_replay"], t0, c0 = {"wall": round(time.time() - t0, 1), "cpu": round(cpu() - c0, 1)}, time.time(), cpu()
    ntr, tdis, tstats, tsamples = trace_direction(ctx, ses_jobs, ses_out)
    phase["recorded_traces"], t0, c0 = {"wall": round(time.time() - t0, 1), "cpu": round(cpu() - c0, 1)}, time.time(), cpu()
    probe = [r["sample"] for r in out if r["stage"] == "pic" and r["sample"]["fmt"]["dl"] == 64 and r["sample"]["pic"]["sc"] == "max"][:20]
    hit = selftest_binding(probe)
    guard(ctx, hit > 0, "binding self-test failed: a read_picture losing bit 63 was not detected")
    pics = [r for r in out if r["stage"] == "pic"]
    cmps = [r for r in out if r["stage"] == "cmp"]
    ctx.coverage.update(
        {
            "traces_validated_against_impl": len(out) + ntr + pstats["histories_replayed"],
            "replayed_configurations": {"write_read": npic, "compare": ncmp, "compare_expected_exit_codes": exits},
            "process_level": pstats,
            "phase_seconds": phase,
            "recorded_events": ntr,
            "recorded_stats": tstats,
            "trace_spec_disagreements": tdis,
            "evaluations": len(out) + ntr + pstats["dumped_states_covered"],
            "distinct_nontrivial": sum(1 for r in out if r["nontrivial"]),
            "rule": "one configuration per state of the RawFile choice process at stage pic (write + read back) or cmp (pair of files compared), each built with the real code; non-trivial = a comparison, or a round trip at a depth that is not 8 or 16",
            "exhaustive": True,
            "bounds": dict(consts, MaxDepth=64, note="luma depth every value 1..64, colour-difference depth d or 65-d; all four sample classes x four picture-number classes on the 2x2 4:2:2 format, random samples elsewhere"),
            "spec_disagreements": dis + pdis,
            "binding_selftest": {"mutant": "read_picture that clears bit 63 of luma samples (in-process monkeypatch)", "configurations_flagging_it": hit, "trace": "flipping a digit of a recorded read-back sample / a recorded count / a recorded exit code is rejected by clauses RoundTripSamples / DifferenceCounts / ExitCode"},
            "samples": [pics[len(pics) // 2]["sample"], cmps[len(cmps) // 3]["sample"], cmps[-1]["sample"]] + tsamples + psamples[:2],
        }
    )
    ctx.assumptions += [
        "samples are in range (0 .. 2^depth - 1); formats satisfy the standard's divisibility rules for subsampling and field coding",
        "sample values travel to TLC as base-256 digit sequences (TLC integers are 32-bit); the conversion int <-> digits is done by the driver",
        "video parameters other than size/subsampling/excursions are fixed or salted values; the differing parameter of a 'params' difference is one of five non-structural fields (G) or also the frame width (T)",
    ]


def replay(case):
    if case["kind"] == "g":
        return g_exec(case["case"])
    if case["kind"] == "proc":
        return in_fresh_process(proc_exec, dict(case["case"], dir=workdir()))
    from .. import trace

    rec = rec_any(tuple(case["job"]))
    recs = rec if isinstance(rec, list) else [rec]
    bad, _ = trace.validate("RawFileTrace", recs)
    return {"violations": [dict(b, tid=recs[b["line"] - 1]["tid"]) for b in bad if b["alarm"]], "events": [dict((k, v) for k, v in r.items() if k not in ("wr", "wra", "rd", "file", "a", "b")) for r in recs if not isinstance(rec, list) or r["tid"] == case.get("tid")]}
