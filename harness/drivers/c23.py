"""C23 -- raw picture files round-trip and comparisons are exact.

Spec: spec/RawFile.tla (choice process: format, depths, picture, comparison; TLC enumerates every luma depth
1..64 x every valid small format and every combination of difference kinds and predicts dimensions, bytes per
sample, file size, exit code and per-component difference counts), pure operators in RawFileOps.tla.
Binding G: every dumped configuration is built with the real code: file_format.write -> file_format.read ->
equality; vc2_picture_compare.compare_pictures / main on a pair of files -> exit code + parsed counts.
Binding T: random larger formats / depths / samples / numbers are recorded (samples as base-256 digits) and
TLC (spec/RawFileTrace.tla) evaluates equality of the arrays, the exit code rule and the counts.
"""
import contextlib
import io
import os
import random
import re
import zlib

from .. import common, tlc, tlaval
from .c17 import fix_coverage, require_actions, cfg_text, dump_blocks, J, guard

COMPS = ("Y", "C1", "C2")
SUB = {"444": 0, "422": 1, "420": 2}
PN = {"zero": 0, "one": 1, "p31": 1 << 31, "max32": (1 << 32) - 1}


# ---------------------------------------------------------------------------------- concretisation
def excursion(d, salt):
    if d >= 2 and salt % 2:
        return 1 << (d - 1)  # intlog2(2^(d-1) + 1) = d as well
    return (1 << d) - 1


def make_vp(fmt, salt=0):
    from vc2_conformance.pseudocode.video_parameters import VideoParameters
    from vc2_data_tables import ColorDifferenceSamplingFormats, SourceSamplingModes, PresetColorPrimaries, PresetColorMatrices, PresetTransferFunctions

    return VideoParameters(
        frame_width=fmt["w"],
        frame_height=fmt["h"],
        color_diff_format_index=ColorDifferenceSamplingFormats(SUB[fmt["sub"]]),
        source_sampling=SourceSamplingModes(salt % 2),
        top_field_first=bool(salt % 3),
        frame_rate_numer=25 + salt % 5,
        frame_rate_denom=1,
        pixel_aspect_ratio_numer=1,
        pixel_aspect_ratio_denom=1,
        clean_width=fmt["w"],
        clean_height=fmt["h"],
        left_offset=0,
        top_offset=0,
        luma_offset=0,
        luma_excursion=excursion(fmt["dl"], salt),
        color_diff_offset=1 << (fmt["dc"] - 1),
        color_diff_excursion=excursion(fmt["dc"], salt // 2),
        color_primaries_index=PresetColorPrimaries(salt % 4),
        color_matrix_index=PresetColorMatrices(salt % 4),
        transfer_function_index=PresetTransferFunctions(salt % 4),
    )


def make_mode(fields):
    from vc2_data_tables import PictureCodingModes

    return PictureCodingModes(1 if fields else 0)


def own_dims(fmt):
    """dimensions computed by the driver's own arithmetic (used where the spec's prediction is not at hand)"""
    lw, lh = fmt["w"], fmt["h"]
    cw, ch = lw, lh
    if fmt["sub"] in ("422", "420"):
        cw //= 2
    if fmt["sub"] == "420":
        ch //= 2
    if fmt["fields"]:
        lh //= 2
        ch //= 2
    return {"Y": (lw, lh, fmt["dl"]), "C1": (cw, ch, fmt["dc"]), "C2": (cw, ch, fmt["dc"])}


def own_bps(d):
    return 1 if d <= 8 else 2 if d <= 16 else 4 if d <= 32 else 8


def sample(sc, d, i, rnd):
    m = (1 << d) - 1
    if sc == "zero":
        return 0
    if sc == "max":
        return m
    if sc == "alt":
        return (int("aa" * 8, 16) if i % 2 else int("55" * 8, 16)) & m
    x = rnd.random()
    if x < 0.1:
        return m
    if x < 0.2:
        return 0
    if x < 0.3:
        return 1 << (d - 1)
    return rnd.getrandbits(d)


def make_picture(dims, sc, pn, rnd):
    pic = {"pic_num": pn}
    for c in COMPS:
        w, h, d = dims[c]
        pic[c] = [[sample(sc, d, y * w + x + y, rnd) for x in range(w)] for y in range(h)]
    return pic


def valid_format(fmt):
    if fmt["sub"] in ("422", "420") and fmt["w"] % 2:
        return False
    div = (2 if fmt["sub"] == "420" else 1) * (2 if fmt["fields"] else 1)
    if fmt["h"] % div:
        return False
    d = own_dims(fmt)
    return all(d[c][0] >= 1 and d[c][1] >= 1 for c in COMPS)


_DIR = None


def workdir():
    global _DIR
    if _DIR is None or _DIR[0] != os.getpid():
        _DIR = (os.getpid(), tlc.mkscratch("raw"))
    return _DIR[1]


def digits(v, bps):
    return list(int(v).to_bytes(bps, "little"))


def flat_digits(pic, dims):
    out = {}
    for c in COMPS:
        bps = own_bps(dims[c][2])
        out[c] = [digits(v, bps) for row in pic[c] for v in row]
    return out


_RE_COUNT = re.compile(r"^\s*(Y|C1|C2): (Identical|Different: PSNR = \S+ dB, (\d+) pixels? \()", re.M)


def parse_counts(msg):
    counts = {}
    for m in _RE_COUNT.finditer(msg):
        counts[m.group(1)] = 0 if m.group(2) == "Identical" else int(m.group(3))
    return counts


def apply_sample_diffs(pic, dims, n, rnd):
    out = dict(pic)
    for c in COMPS:
        w, h, d = dims[c]
        rows = [list(r) for r in pic[c]]
        for j, pos in enumerate(sorted(rnd.sample(range(w * h), n[c]))):
            bit = (d - 1) if (pos + j) % 2 else 0
            rows[pos // w][pos % w] ^= 1 << bit
        out[c] = rows
    return out


def set_padding_bits(raw_path, vp, mode):
    """Set a bit that carries no sample information in the first sample of every component that has one.
    Where those bits are is a matter of the layout the code under test uses (C23 does not fix the layout), so
    the implementation's own dimensions / bytes-per-sample are used to find them."""
    from vc2_conformance.dimensions_and_depths import compute_dimensions_and_depths

    with open(raw_path, "rb") as f:
        data = bytearray(f.read())
    off = 0
    changed = False
    for c, (w, h, d, bps) in compute_dimensions_and_depths(vp, mode).items():
        if bps * 8 > d and off + bps <= len(data):
            data[off + bps - 1] |= 0x80
            changed = True
        off += w * h * bps
    with open(raw_path, "wb") as f:
        f.write(bytes(data))
    return changed


def run_compare(fa, fb, use_main):
    from vc2_conformance.scripts import vc2_picture_compare as pc

    if use_main:
        buf = io.StringIO()
        with contextlib.redirect_stdout(buf):
            code = pc.main([fa, fb])
        return buf.getvalue(), code
    return pc.compare_pictures(fa, fb)


# -------------------------------------------------------------------------------------- G replay
def g_exec(case):
    """case = {stage, fmt, pic, diff, obs, salt}"""
    from vc2_conformance import file_format
    from vc2_conformance.dimensions_and_depths import compute_dimensions_and_depths

    fmt, pic_c, obs = case["fmt"], case["pic"], case["obs"]
    salt = case["salt"]
    rnd = random.Random(salt)
    viol = []
    dis = 0
    dims = own_dims(fmt)
    sig_fmt = "dl=%d dc=%d %dx%d %s %s" % (fmt["dl"], fmt["dc"], fmt["w"], fmt["h"], fmt["sub"], "fields" if fmt["fields"] else "frames")
    base = os.path.join(workdir(), "p%d" % os.getpid())
    try:
        vp = make_vp(fmt, salt)
        mode = make_mode(fmt["fields"])
        if case["stage"] == "pic":
            want_dims = dict((c, (obs["dims"][c]["w"], obs["dims"][c]["h"], obs["dims"][c]["d"])) for c in COMPS)
            if want_dims != dims:
                raise RuntimeError("driver arithmetic and spec disagree on dimensions: %r vs %r" % (dims, want_dims))
            pic = make_picture(want_dims, pic_c["sc"], PN[pic_c["pn"]], rnd)
            file_format.write(pic, vp, mode, base + "_7.raw")
            size = os.path.getsize(base + "_7.raw")
            rpic, rvp, rmode = file_format.read(base + "_7.json" if salt % 2 else base + "_7.raw")
            for c in COMPS:
                if rpic[c] != pic[c]:
                    bad = [(y, x, pic[c][y][x], rpic[c][y][x]) for y in range(len(pic[c])) for x in range(len(pic[c][y])) if y < len(rpic[c]) and x < len(rpic[c][y]) and rpic[c][y][x] != pic[c][y][x]][:3]
                    viol.append(("C23|roundtrip-samples|%s|depth%s" % (c, "<=32" if want_dims[c][2] <= 32 else ">32"), "%s: component %s read back differently, e.g. (y, x, written, read) %s" % (sig_fmt, c, bad)))
            if rpic["pic_num"] != pic["pic_num"]:
                viol.append(("C23|roundtrip-picture-number", "%s: picture number %r read back as %r" % (sig_fmt, pic["pic_num"], rpic["pic_num"])))
            if rvp != vp or rmode != mode:
                viol.append(("C23|roundtrip-metadata", "%s: video parameters / coding mode read back differently: %r %r" % (sig_fmt, rvp, rmode)))
            if size != obs["size"]:
                dis += 1
            dd = compute_dimensions_and_depths(vp, mode)
            if any(tuple(dd[c]) != (obs["dims"][c]["w"], obs["dims"][c]["h"], obs["dims"][c]["d"], obs["dims"][c]["bps"]) for c in COMPS):
                dis += 1
        else:
            diff = case["diff"]
            pa = make_picture(dims, "rand", 1, rnd)
            fmt_b = dict(fmt, fields=(not fmt["fields"]) if diff["mode"] else fmt["fields"])
            dims_b = own_dims(fmt_b)
            vpb = make_vp(fmt_b, salt)
            if diff["params"]:
                key = ["frame_rate_numer", "top_field_first", "luma_offset", "clean_width", "pixel_aspect_ratio_denom"][salt % 5]
                vpb[key] = (not vpb[key]) if isinstance(vpb[key], bool) else vpb[key] + 1
            if diff["mode"]:
                pb = make_picture(dims_b, "rand", 1, rnd)
            else:
                pb = apply_sample_diffs(pa, dims, diff["n"], rnd)
            pb["pic_num"] = (pa["pic_num"] + [1, 1 << 31, (1 << 32) - 2][salt % 3]) if diff["number"] else pa["pic_num"]
            fa, fb = base + "_a_3.raw", base + "_b_3.raw"
            file_format.write(pa, vp, mode, fa)
            file_format.write(pb, vpb, make_mode(fmt_b["fields"]), fb)
            if diff["pad"] and not set_padding_bits(fb, vpb, make_mode(fmt_b["fields"])):
                dis += 1  # the implementation's layout has no padding bits here: nothing to set
            msg, code = run_compare(fa, fb, salt % 4 == 0)
            if code != obs["exit"]:
                viol.append(("C23|compare-exit|want%d|got%s" % (obs["exit"], code), "%s, differences %s: exit code %s (%r), expected %d" % (sig_fmt, diff, code, msg[:200], obs["exit"])))
            elif code == 4:
                got = parse_counts(msg)
                if got != obs["counts"]:
                    viol.append(("C23|compare-counts", "%s, differences %s: reported differing pixels %s, actually %s (%r)" % (sig_fmt, diff, got, obs["counts"], msg[:300])))
            elif code == 0 and "Pictures are identical" not in msg:
                dis += 1
    except RuntimeError:
        raise
    except BaseException as e:  # noqa  (SystemExit from the tool is an answer of the code under test)
        if isinstance(e, KeyboardInterrupt):
            raise
        viol.append(("C23|%s-exception|%s" % (case["stage"], common.exc_signature(e) if isinstance(e, Exception) else "SystemExit(%s)" % (e.code,)), "%s: raised %r" % (sig_fmt, e)))
    return {"violations": viol, "disagreements": dis}


def g_block(arg):
    idx, block = arg
    st = tlaval.parse_state_block(block)
    if st["stage"] not in ("pic", "cmp"):
        return None
    case = {"stage": st["stage"], "fmt": J(st["fmt"]), "pic": J(st["pic"]), "diff": J(st["diff"]), "obs": J(st["obs"])}
    case["salt"] = zlib.crc32(repr(sorted(case["fmt"].items())).encode() + repr(sorted(case["pic"].items())).encode() + repr(case["diff"]).encode()) & 0xFFFFFF
    r = g_exec(case)
    r["case"] = case if r["violations"] else None
    r["sample"] = case
    r["stage"] = case["stage"]
    r["nontrivial"] = case["stage"] == "cmp" or case["fmt"]["dl"] > 16 or case["fmt"]["dl"] % 8 != 0
    return r


# ----------------------------------------------------------------------------------- T direction
def rand_format(rnd):
    while True:
        fmt = {
            "w": rnd.randrange(1, 9),
            "h": rnd.randrange(1, 9),
            "sub": rnd.choice(["444", "422", "420"]),
            "fields": rnd.random() < 0.4,
            "dl": rnd.choice([rnd.randrange(1, 65), rnd.choice([1, 7, 8, 9, 15, 16, 17, 31, 32, 33, 63, 64])]),
            "dc": rnd.choice([rnd.randrange(1, 65), rnd.choice([1, 7, 8, 9, 15, 16, 17, 31, 32, 33, 63, 64])]),
        }
        if valid_format(fmt):
            return fmt


def rec_rt(arg):
    from vc2_conformance import file_format

    tid, seed = arg
    rnd = random.Random(seed)
    fmt = rand_format(rnd)
    dims = own_dims(fmt)
    pn = rnd.choice([0, 1, (1 << 31) - 1, 1 << 31, (1 << 32) - 1, rnd.getrandbits(32)])
    pic = make_picture(dims, rnd.choice(["rand", "rand", "rand", "max", "alt"]), pn, rnd)
    ev = {"tid": tid, "ev": "rt", "fmt": fmt, "wr": flat_digits(pic, dims), "rd": {"Y": [], "C1": [], "C2": []}, "file": [], "pnw": str(pn), "pnr": "", "vpeq": False, "modeeq": False, "exc": "none"}
    base = os.path.join(workdir(), "t%d_%d.raw" % (os.getpid(), rnd.randrange(10)))
    try:
        vp = make_vp(fmt, seed)
        mode = make_mode(fmt["fields"])
        if seed % 2:
            file_format.write(pic, vp, mode, base)
            rpic, rvp, rmode = file_format.read(base)
        else:
            with open(base[:-4] + ".json", "wb") as f:
                file_format.write_metadata(pic, vp, mode, f)
            with open(base, "wb") as f:
                file_format.write_picture(pic, vp, mode, f)
            with open(base[:-4] + ".json", "rb") as f:
                rvp, rmode, rpn = file_format.read_metadata(f)
            with open(base, "rb") as f:
                rpic = file_format.read_picture(rvp, rmode, rpn, f)
        with open(base, "rb") as f:
            ev["file"] = list(f.read())
        ev["rd"] = dict((c, [digits(v, own_bps(dims[c][2])) if isinstance(v, int) and 0 <= v < (1 << (8 * own_bps(dims[c][2]))) else [-1] for row in rpic[c] for v in row]) for c in COMPS)
        ev["pnr"] = str(rpic["pic_num"])
        ev["vpeq"] = bool(rvp == vp and type(rvp) is type(vp))
        ev["modeeq"] = bool(rmode == mode)
    except Exception as e:  # noqa
        ev["exc"] = common.exc_signature(e)
    return ev


def rec_cmp(arg):
    from vc2_conformance import file_format

    tid, seed = arg
    rnd = random.Random(seed)
    fmt = rand_format(rnd)
    dims = own_dims(fmt)
    pn = rnd.choice([0, 5, (1 << 32) - 1])
    pa = make_picture(dims, "rand", pn, rnd)
    vp = make_vp(fmt, seed)
    fmt_b = dict(fmt)
    vpb = make_vp(fmt, seed)
    kind = rnd.choice(["same", "samples", "samples", "samples", "number", "params", "struct", "mode", "pad", "multi"])
    sameparams = samemode = True
    pnb = pn
    n = {"Y": 0, "C1": 0, "C2": 0}
    if kind in ("samples", "multi", "pad") or (kind in ("number",) and rnd.random() < 0.5):
        for c in rnd.sample(COMPS, rnd.randrange(1, 4)) if kind != "pad" or rnd.random() < 0.3 else []:
            n[c] = rnd.randrange(1, dims[c][0] * dims[c][1] + 1)
    if kind in ("number", "multi") :
        pnb = (pn + rnd.choice([1, 1 << 31])) % (1 << 32)
    if kind == "params" or (kind == "multi" and rnd.random() < 0.5):
        key = rnd.choice(["frame_rate_numer", "top_field_first", "luma_offset", "clean_height", "source_sampling"])
        vpb[key] = (not vpb[key]) if isinstance(vpb[key], bool) else type(vpb[key])((int(vpb[key]) + 1) % 2) if key == "source_sampling" else vpb[key] + 1
        sameparams = False
    if kind == "struct":
        cand = dict(fmt, w=fmt["w"] * 2)
        fmt_b = cand
        vpb = make_vp(fmt_b, seed)
        sameparams = False
    if kind == "mode" or (kind == "multi" and rnd.random() < 0.3):
        cand = dict(fmt_b, fields=not fmt_b["fields"])
        if valid_format(cand):
            fmt_b = cand
            samemode = False
    dims_b = own_dims(fmt_b)
    if dims_b == dims:
        pb = apply_sample_diffs(pa, dims, n, rnd)
    else:
        pb = make_picture(dims_b, "rand", pn, rnd)
    pb["pic_num"] = pnb
    ev = {"tid": tid, "ev": "cmp", "fmt": fmt, "a": flat_digits(pa, dims), "b": flat_digits(pb, dims_b), "sameparams": sameparams, "samemode": samemode, "pna": str(pn), "pnb": str(pnb), "exit": -1, "counts": {"Y": -1, "C1": -1, "C2": -1}, "saysidentical": False, "exc": "none", "kind": kind}
    fa = os.path.join(workdir(), "ca%d_%d.raw" % (os.getpid(), 4))
    fb = os.path.join(workdir(), "cb%d_%d.raw" % (os.getpid(), 4))
    try:
        file_format.write(pa, vp, make_mode(fmt["fields"]), fa)
        file_format.write(pb, vpb, make_mode(fmt_b["fields"]), fb)
        if kind == "pad":
            set_padding_bits(fb, vpb, make_mode(fmt_b["fields"]))
        msg, code = run_compare(fa, fb, seed % 3 == 0)
        ev["exit"] = int(code)
        got = parse_counts(msg)
        for c in COMPS:
            ev["counts"][c] = got.get(c, -1)
        ev["saysidentical"] = "Pictures are identical" in msg
    except BaseException as e:  # noqa
        if isinstance(e, KeyboardInterrupt):
            raise
        ev["exc"] = common.exc_signature(e) if isinstance(e, Exception) else "SystemExit(%s)" % (e.code,)
    return ev


def rec_any(job):
    kind, tid, seed = job
    return (rec_rt if kind == "rt" else rec_cmp)((tid, seed))


def trace_direction(ctx):
    from .. import trace

    counts = ctx.pick({"rt": 600, "cmp": 900}, {"rt": 6000, "cmp": 9000})
    jobs = []
    tid = 0
    for kind in ("rt", "cmp"):
        for _ in range(counts[kind]):
            tid += 1
            jobs.append((kind, tid, ctx.seed * 1000003 + tid))
    records = common.pmap(rec_any, jobs)
    bad, res = trace.validate("RawFileTrace", records)
    ctx.add_tlc(res, "trace validation (RawFileTrace)")
    dis = 0
    for b in bad:
        rec = records[b["line"] - 1]
        if b["clause"] == "DriverInput":
            raise RuntimeError("driver built an ill-formed picture: %r" % (jobs[b["line"] - 1],))
        if b["alarm"]:
            what = dict((k, v) for k, v in rec.items() if k not in ("wr", "rd", "file", "a", "b"))
            ctx.violation("C23|trace|%s|%s" % (rec["ev"], b["clause"]), "recorded %s event rejected by clause %s: %s" % (rec["ev"], b["clause"], what), {"kind": "trace", "job": list(jobs[b["line"] - 1])})
        else:
            dis += 1
    exits = {}
    for r in records:
        if r["ev"] == "cmp":
            exits[r["exit"]] = exits.get(r["exit"], 0) + 1
    guard(ctx, all(exits.get(k, 0) > 0 for k in (0, 1, 2, 3, 4)), "vacuity: recorded comparisons did not produce every exit code: %r" % (exits,))
    deep = sum(1 for r in records if r["ev"] == "rt" and max(r["fmt"]["dl"], r["fmt"]["dc"]) > 32)
    guard(ctx, deep > 0, "vacuity: no recorded round trip above 32 bits")
    # binding self-test: corrupted recorded fields must be rejected on exactly those lines
    try:
        rt = next(dict(r) for r in records if r["ev"] == "rt" and r["exc"] == "none" and r["rd"]["Y"] and len(r["rd"]["Y"][0]) > 0 and r["rd"]["Y"][0][0] >= 0)
        cm = next(dict(r) for r in records if r["ev"] == "cmp" and r["exit"] == 4 and any(r["counts"][c] > 0 for c in COMPS))
        c0 = next(dict(r) for r in records if r["ev"] == "cmp" and r["exit"] == 0)
        rd = dict(rt["rd"])
        rd["Y"] = [list(rd["Y"][0])] + rd["Y"][1:]
        rd["Y"][0][0] ^= 1
        rt["rd"] = rd
        cc = dict(cm["counts"])
        k = next(c for c in COMPS if cc[c] > 0)
        cc[k] += 1
        cm["counts"] = cc
        c0["exit"] = 4
        pbad, _ = trace.validate("RawFileTrace", [rt, cm, c0])
        got = sorted((b["line"], b["clause"], b["alarm"]) for b in pbad)
        okst = got == [(1, "RoundTripSamples", True), (2, "DifferenceCounts", True), (3, "ExitCode", True)]
    except StopIteration:
        got, okst = "no suitable recorded event", False
    guard(ctx, okst, "trace binding self-test failed: corrupted fields judged as %r" % (got,))
    small = lambda r: dict((k, (v if k not in ("wr", "rd", "file", "a", "b") else "...")) for k, v in r.items())
    return len(records), dis, {"exit_codes": exits, "roundtrips_above_32_bits": deep}, [small(records[0]), small(records[counts["rt"]])]


def selftest_binding(cases):
    """A read_picture that loses the top bit of luma samples must be flagged by the round-trip replay."""
    from vc2_conformance import file_format

    orig = file_format.read_picture

    def broken(video_parameters, picture_coding_mode, picture_number, file):
        pic = orig(video_parameters, picture_coding_mode, picture_number, file)
        pic["Y"] = [[v & ~(1 << 63) for v in row] for row in pic["Y"]]
        return pic

    file_format.read_picture = broken
    try:
        hit = 0
        for c in cases:
            if any(s.startswith("C23|roundtrip-samples|Y") or s.startswith("C23|pic-exception") for s, _ in g_exec(c)["violations"]):
                hit += 1
    finally:
        file_format.read_picture = orig
    return hit


def run(ctx):
    consts = ctx.pick({"Sizes": "SizesSmall", "CmpDepths": "{1, 8, 10, 16, 33, 64}"}, {"Sizes": "SizesMore", "CmpDepths": "{1, 2, 7, 8, 9, 10, 12, 16, 17, 24, 31, 32, 33, 48, 63, 64}"})
    res = tlc.run("RawFile", cfg_text("RawFile.cfg", **consts), dump=True, workers=1)
    fix_coverage(res)
    require_actions(res, ["ChooseFormat", "ChooseDepths", "ChoosePicture", "Compare"])
    ctx.add_tlc(res, "RawFile exhaustive", dict(consts, MaxDepth=64))
    blocks = dump_blocks(res.dump_path)
    out = [r for r in common.pmap(g_block, list(enumerate(blocks))) if r is not None]
    dis = 0
    for r in out:
        dis += r["disagreements"]
        for sig, what in r["violations"]:
            ctx.violation(sig, what, {"kind": "g", "case": r["case"]})
    npic = sum(1 for r in out if r["stage"] == "pic")
    ncmp = sum(1 for r in out if r["stage"] == "cmp")
    depths = set(r["sample"]["fmt"]["dl"] for r in out if r["stage"] == "pic")
    guard(ctx, depths == set(range(1, 65)) and ncmp > 0, "vacuity: depths replayed %r, comparisons %d" % (sorted(depths), ncmp))
    exits = {}
    for r in out:
        if r["stage"] == "cmp":
            exits[r["sample"]["obs"]["exit"]] = exits.get(r["sample"]["obs"]["exit"], 0) + 1
    ntr, tdis, tstats, tsamples = trace_direction(ctx)
    probe = [r["sample"] for r in out if r["stage"] == "pic" and r["sample"]["fmt"]["dl"] == 64 and r["sample"]["pic"]["sc"] == "max"][:20]
    hit = selftest_binding(probe)
    guard(ctx, hit > 0, "binding self-test failed: a read_picture losing bit 63 was not detected")
    pics = [r for r in out if r["stage"] == "pic"]
    cmps = [r for r in out if r["stage"] == "cmp"]
    ctx.coverage.update(
        {
            "traces_validated_against_impl": len(out) + ntr,
            "replayed_configurations": {"write_read": npic, "compare": ncmp, "compare_expected_exit_codes": exits},
            "recorded_events": ntr,
            "recorded_stats": tstats,
            "trace_spec_disagreements": tdis,
            "evaluations": len(out) + ntr,
            "distinct_nontrivial": sum(1 for r in out if r["nontrivial"]),
            "rule": "one configuration per state of the RawFile choice process at stage pic (write + read back) or cmp (pair of files compared), each built with the real code; non-trivial = a comparison, or a round trip at a depth that is not 8 or 16",
            "exhaustive": True,
            "bounds": dict(consts, MaxDepth=64, note="luma depth every value 1..64, colour-difference depth d or 65-d; all four sample classes x four picture-number classes on the 2x2 4:2:2 format, random samples elsewhere"),
            "spec_disagreements": dis,
            "binding_selftest": {"mutant": "read_picture that clears bit 63 of luma samples (in-process monkeypatch)", "configurations_flagging_it": hit, "trace": "flipping a digit of a recorded read-back sample / a recorded count / a recorded exit code is rejected by clauses RoundTripSamples / DifferenceCounts / ExitCode"},
            "samples": [pics[len(pics) // 2]["sample"], cmps[len(cmps) // 3]["sample"], cmps[-1]["sample"]] + tsamples,
        }
    )
    ctx.assumptions += [
        "samples are in range (0 .. 2^depth - 1); formats satisfy the standard's divisibility rules for subsampling and field coding",
        "sample values travel to TLC as base-256 digit sequences (TLC integers are 32-bit); the conversion int <-> digits is done by the driver",
        "video parameters other than size/subsampling/excursions are fixed or salted values; the differing parameter of a 'params' difference is one of five non-structural fields (G) or also the frame width (T)",
    ]


def replay(case):
    if case["kind"] == "g":
        return g_exec(case["case"])
    from .. import trace

    rec = rec_any(tuple(case["job"]))
    bad, _ = trace.validate("RawFileTrace", [rec])
    return {"violations": [b for b in bad if b["alarm"]], "event": dict((k, v) for k, v in rec.items() if k not in ("wr", "rd", "file", "a", "b"))}
