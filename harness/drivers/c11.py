"""C11 -- forward and inverse wavelet transforms reconstruct exactly.

Spec: spec/Wavelet.tla (+ WaveletOps.tla, SliceGeometryOps.tla); the lifting filter tables are GENERATED at run time
from the third-party package vc2_data_tables into a scratch module (WaveletTables.tla) together with the root modules
WaveletMC / WaveletTraceMC that bind CONSTANT Filters to them.
Binding:
  G  TLC's dump of the model under VIEW ConfigView: one picture per (filter pair, depths, size) with the design's
     coefficients; the real dwt_pad_addition / dwt / idwt / idwt_pad_removal are run on it; coefficient
     differences are `spec_disagreements` (never an alarm).
  T  every transform the driver runs on the real code (TLC's pictures, all 7x7 filter pairs x depth pairs x sizes
     x value classes incl. magnitudes up to 2^62) is recorded and judged by TLC with WaveletTrace.tla: decoded
     picture = input picture, band set and shapes = the code's subband_width/height.
  State level (spec/WaveletPicture.tla + WaveletOps!ForwardWaveletTransform ...): whole pictures of three components
     with INDEPENDENT luma / colour-difference sizes under one set of transform parameters, run through the real
     forward_wavelet_transform + inverse_wavelet_transform (any integers) and picture_encode + picture_decode
     (in-range samples) with luma_width/height, color_diff_width/height in the state.  G: TLC enumerates the
     configurations of a box (dump = the design's coefficients of all three components); T: those plus a grid over
     all 49 filter pairs are recorded as "picture" events and every component is judged by the same clauses.
Python only builds states/pictures, calls the functions, copies arrays and compares two arrays for equality.
"""
import copy
import json
import os
import random
import resource

from .. import common, tlc, tlaval, trace

XSS = {"JAVA_TOOL_OPTIONS": "-Xss512m"}
WORKERS = 8
SKIP_MODEL = bool(os.environ.get("VERIF_SKIP_MODEL"))
SMALL = 2 ** 30


# ----------------------------------------------------------------------------- generated modules
def tla_seq(xs):
    return "<<" + ", ".join(xs) + ">>"


def write_generated(d):
    """WaveletTables.tla from vc2_data_tables.LIFTING_FILTERS, plus the two root modules."""
    import vc2_data_tables as tables

    rows = []
    n = 0
    for k in sorted(tables.LIFTING_FILTERS, key=int):
        if int(k) != n:
            raise RuntimeError("lifting filter indices are not 0..n")
        n += 1
        flt = tables.LIFTING_FILTERS[k]
        stages = tla_seq("[type |-> %d, S |-> %d, L |-> %d, D |-> %s, taps |-> %s]" % (int(s.lift_type), s.S, s.L, ("(%d)" % s.D) if s.D < 0 else str(s.D), tla_seq(("(%d)" % t) if t < 0 else str(t) for t in s.taps)) for s in flt.stages)
        rows.append("  \\* %s\n  [shift |-> %d, stages |-> %s]" % (k.name, flt.filter_bit_shift, stages))
    body = "---- MODULE WaveletTables ----\n(* GENERATED from vc2_data_tables.LIFTING_FILTERS (third-party, trusted) -- do not edit *)\nEXTENDS Integers, Sequences\nTableFilterSeq == <<\n%s\n>>\nTableFilters == [i \\in 0..%d |-> TableFilterSeq[i + 1]]\n====\n" % (",\n".join(rows), n - 1)
    files = []
    for name, text in (
        ("WaveletTables.tla", body),
        ("WaveletMC.tla", "---- MODULE WaveletMC ----\nEXTENDS Wavelet, WaveletTables\n====\n"),
        ("WaveletTraceMC.tla", "---- MODULE WaveletTraceMC ----\nEXTENDS WaveletTrace, WaveletTables\n====\n"),
    ):
        p = os.path.join(d, name)
        with open(p, "w") as f:
            f.write(text)
        files.append(p)
    return files


def tla_set(items):
    return "{" + ", ".join(items) + "}"


def write_picture_model(d, pairs, depths, luma, chroma, bits, patterns):
    """WaveletPictureBox.tla (state-level layer, constants of the box as definitions) + cfg text."""
    files = write_generated(d)
    tup = lambda xs: tla_set("<<%d, %d>>" % p for p in xs)
    box = "---- MODULE WaveletPictureBox ----\nEXTENDS WaveletPicture, WaveletTables\nBoxPairs == %s\nBoxDepths == %s\nBoxLuma == %s\nBoxChroma == %s\nBoxBits == %s\nBoxPatterns == %s\n====\n" % (
        tup(pairs), tup(depths), tup(luma), tup(chroma), tup(bits), tla_set(str(k) for k in patterns))
    p = os.path.join(d, "WaveletPictureBox.tla")
    with open(p, "w") as f:
        f.write(box)
    files.append(p)
    cfg = "SPECIFICATION Spec\nCONSTANTS\n  Filters <- TableFilters\n  FilterPairs <- BoxPairs\n  Depths <- BoxDepths\n  LumaSizes <- BoxLuma\n  ChromaSizes <- BoxChroma\n  BitDepths <- BoxBits\n  Patterns <- BoxPatterns\n"
    cfg += "INVARIANT PictureWellFormed\nINVARIANT PerfectReconstructionAll\nINVARIANT ShapesMatchSliceGeometryAll\nINVARIANT BoxCoversPaddingClasses\nCHECK_DEADLOCK FALSE\n"
    return "WaveletPictureBox", cfg, files


def write_model(d, pairs, depths, sizes, vals, view):
    """WaveletBox.tla (constants of the box as definitions) + cfg text; returns (root module name, cfg, files)."""
    files = write_generated(d)
    box = "---- MODULE WaveletBox ----\nEXTENDS Wavelet, WaveletTables\nBoxPairs == %s\nBoxDepths == %s\nBoxSizes == %s\nBoxVals == %s\n====\n" % (
        tla_set("<<%d, %d>>" % p for p in pairs),
        tla_set("<<%d, %d>>" % p for p in depths),
        tla_set("<<%d, %d>>" % p for p in sizes),
        tla_set(("(%d)" % v) if v < 0 else str(v) for v in vals),
    )
    p = os.path.join(d, "WaveletBox.tla")
    with open(p, "w") as f:
        f.write(box)
    files.append(p)
    cfg = "SPECIFICATION Spec\nCONSTANTS\n  Filters <- TableFilters\n  FilterPairs <- BoxPairs\n  Depths <- BoxDepths\n  Sizes <- BoxSizes\n  Vals <- BoxVals\n"
    cfg += "INVARIANT PerfectReconstruction\nINVARIANT ShapesMatchSliceGeometry\n"
    if view:
        cfg += "VIEW ConfigView\n"
    else:
        cfg += "INVARIANT StageInverts\nINVARIANT OneDInverts\n"
    cfg += "CHECK_DEADLOCK FALSE\n"
    return "WaveletBox", cfg, files


TRACE_CFG = "SPECIFICATION TraceSpec\nCONSTANTS\n  Filters <- TableFilters\nINVARIANT Report\nPOSTCONDITION AllConsumed\nCHECK_DEADLOCK FALSE\n"


def validate(records):
    d = tlc.mkscratch("wgen")
    files = write_generated(d)
    return trace.validate("WaveletTraceMC", records, cfg=TRACE_CFG, env=XSS, extra_files=files)


# ----------------------------------------------------------------------------- calling the code
BAND_ORDER = ("LL", "L", "H", "HL", "LH", "HH")


def transform(case, mods=None):
    """Pad, analyse, synthesise, unpad one component with the real code; returns the trace event."""
    if mods is None:
        from vc2_conformance.pseudocode import picture_encoding as pe, picture_decoding as pd, slice_sizes as ss
    else:
        pe, pd, ss = mods
    from vc2_conformance.pseudocode.state import State

    w, h = case["w"], case["h"]
    comp = case.get("comp", "Y")
    st = State(wavelet_index=case["f"], wavelet_index_ho=case["fho"], dwt_depth=case["d"], dwt_depth_ho=case["dho"])
    if comp == "Y":
        st["luma_width"], st["luma_height"] = w, h
        st["color_diff_width"], st["color_diff_height"] = max(1, w // 2), max(1, h // 2)
    else:
        st["luma_width"], st["luma_height"] = 2 * w, 2 * h
        st["color_diff_width"], st["color_diff_height"] = w, h
    pic = case["pic"]
    work = copy.deepcopy(pic)
    try:
        return _transform(case, pe, pd, ss, st, comp, pic, work)
    except Exception as e:  # the transform produced no picture at all: judged by the trace spec (clause NoResult)
        return {"tid": case["tid"], "ev": "dwt", "f": case["f"], "fho": case["fho"], "d": case["d"], "dho": case["dho"], "w": w, "h": h, "pw": 0, "ph": 0, "arrays": False, "equal": False, "shapes": [], "geom": [], "cmp": False, "exc": common.exc_signature(e), "_coeffs": []}


def _transform(case, pe, pd, ss, st, comp, pic, work):
    w, h = case["w"], case["h"]
    pe.dwt_pad_addition(st, work, comp)
    pw, ph = len(work[0]), len(work)
    co = pe.dwt(st, work)
    shapes = []
    coeffs = []
    for n in sorted(co):
        for b in sorted(co[n], key=BAND_ORDER.index):
            a = co[n][b]
            shapes.append({"n": n, "b": b, "w": len(a[0]) if len(a) else 0, "h": len(a)})
            coeffs.append({"n": n, "b": b, "a": [list(r) for r in a]})
    rec = pd.idwt(st, copy.deepcopy(co))
    pd.idwt_pad_removal(st, rec, comp)
    rec = [list(r) for r in rec]
    equal = rec == pic
    levels = range(case["d"] + case["dho"] + 1)
    geom = [{"n": n, "sw": ss.subband_width(st, n, comp), "sh": ss.subband_height(st, n, comp)} for n in levels]
    small = all(abs(v) < SMALL for r in pic for v in r) and all(abs(v) < SMALL for r in rec for v in r)
    ev = {"tid": case["tid"], "ev": "dwt", "f": case["f"], "fho": case["fho"], "d": case["d"], "dho": case["dho"], "w": w, "h": h, "pw": pw, "ph": ph, "arrays": bool(small), "equal": bool(equal), "shapes": shapes, "geom": geom, "cmp": False, "exc": "none"}
    if small:
        ev["pic"] = pic
        ev["rec"] = rec
    if case.get("cmp") and small and all(abs(v) < SMALL for c in coeffs for r in c["a"] for v in r):
        ev["cmp"] = True
        ev["co"] = coeffs
    if case.get("keep_coeffs"):
        ev["_coeffs"] = coeffs
    if not equal:
        ev["first_diff"] = next(([y, x] for y in range(min(len(pic), len(rec))) for x in range(min(len(pic[y]), len(rec[y]))) if pic[y][x] != rec[y][x]), [-1, -1])
    return ev


def _transform_job(case):
    return transform(case)


# ----------------------------------------------------------------------------- state level: whole pictures
COMPS = ("Y", "C1", "C2")
KEYS = {"Y": "y_transform", "C1": "c1_transform", "C2": "c2_transform"}


def transform_picture(case, mods=None):
    """One whole picture through the real state-level entry points; returns a "picture" trace event.
    mode "fwt": forward_wavelet_transform + inverse_wavelet_transform; mode "codec": picture_encode + picture_decode."""
    if mods is None:
        from vc2_conformance.pseudocode import picture_encoding as pe, picture_decoding as pd, slice_sizes as ss
    else:
        pe, pd, ss = mods
    ev = {"tid": case["tid"], "ev": "picture", "mode": case["mode"], "f": case["f"], "fho": case["fho"], "d": case["d"], "dho": case["dho"],
          "lw": case["lw"], "lh": case["lh"], "cw": case["cw"], "ch": case["ch"], "exc": "none", "comps": [], "_coeffs": {}}
    try:
        _transform_picture(case, pe, pd, ss, ev)
    except Exception as e:  # no picture at all: clause NoResult
        ev["exc"] = common.exc_signature(e)
        ev["comps"] = []
    return ev


def _state(case):
    from vc2_conformance.pseudocode.state import State

    return State(wavelet_index=case["f"], wavelet_index_ho=case["fho"], dwt_depth=case["d"], dwt_depth_ho=case["dho"],
                 luma_width=case["lw"], luma_height=case["lh"], color_diff_width=case["cw"], color_diff_height=case["ch"],
                 luma_depth=case["ydepth"], color_diff_depth=case["cdepth"])


def _transform_picture(case, pe, pd, ss, ev):
    pic = case["pic"]
    est = _state(case)
    work = copy.deepcopy(pic)
    if case["mode"] == "fwt":
        pe.forward_wavelet_transform(est, work)
    else:
        pe.picture_encode(est, work)
    # the decoder has its own state: same parameters, the coefficients as the only thing handed over
    dst = _state(case)
    for c in COMPS:
        dst[KEYS[c]] = copy.deepcopy(est[KEYS[c]])
    if case["mode"] == "fwt":
        dst["current_picture"] = {}
        pd.inverse_wavelet_transform(dst)
    else:
        dst["picture_number"] = 0
        pd.picture_decode(dst)
    levels = range(case["d"] + case["dho"] + 1)
    for c in COMPS:
        w, h = (case["lw"], case["lh"]) if c == "Y" else (case["cw"], case["ch"])
        co = est[KEYS[c]]
        shapes, coeffs = [], []
        for n in sorted(co):
            for b in sorted(co[n], key=BAND_ORDER.index):
                a = co[n][b]
                shapes.append({"n": n, "b": b, "w": len(a[0]) if len(a) else 0, "h": len(a)})
                coeffs.append({"n": n, "b": b, "a": [list(r) for r in a]})
        rec = [list(r) for r in dst["current_picture"][c]]
        equal = rec == pic[c]
        geom = [{"n": n, "sw": ss.subband_width(est, n, c), "sh": ss.subband_height(est, n, c)} for n in levels]
        small = all(abs(v) < SMALL for r in pic[c] for v in r) and all(abs(v) < SMALL for r in rec for v in r)
        k = {"c": c, "tid": case["tid"], "ev": "dwt", "f": case["f"], "fho": case["fho"], "d": case["d"], "dho": case["dho"], "w": w, "h": h,
             "depth": (case["ydepth"] if c == "Y" else case["cdepth"]) if case["mode"] == "codec" else 0,
             "arrays": bool(small), "equal": bool(equal), "shapes": shapes, "geom": geom, "cmp": False, "exc": "none"}
        if small:
            k["pic"] = pic[c]
            k["rec"] = rec
        if not equal:
            k["first_diff"] = next(([y, x] for y in range(min(len(pic[c]), len(rec))) for x in range(min(len(pic[c][y]), len(rec[y]))) if pic[c][y][x] != rec[y][x]), [-1, -1])
        ev["comps"].append(k)
        ev["_coeffs"][c] = coeffs


def _picture_job(case):
    return transform_picture(case)


def chroma_of(rnd, lw, lh):
    """colour-difference size for a luma size: the three sampling formats (also for odd luma sizes) or independent"""
    kind = rnd.choice(("444", "422", "420", "free", "free"))
    if kind == "444":
        return lw, lh
    if kind == "422":
        return max(1, lw // 2), lh
    if kind == "420":
        return max(1, lw // 2), max(1, lh // 2)
    return rnd.randint(1, 9), rnd.randint(1, 9)


def picture_grid(ctx, rnd):
    """state-level cases on the real code: all 49 filter pairs x depth pairs x luma sizes x colour-difference sizes"""
    cases = []
    dps = [p for p in depth_pairs(ctx.pick(3, 5)) if p != (0, 0)] + [(0, 0)]
    for f in range(7):
        for g in range(7):
            for (d, dho) in dps:
                for _ in range(ctx.pick(1, 6)):
                    lw, lh = rnd.choice([(rnd.randint(1, 12), rnd.randint(1, 9)), (rnd.choice((9, 11, 17)), rnd.choice((4, 5, 8))), (8, 8), (16, 4)])
                    cw, ch = chroma_of(rnd, lw, lh)
                    mode = rnd.choice(("fwt", "fwt", "codec"))
                    yd, cd = rnd.choice(((8, 8), (10, 10), (1, 3), (12, 8), (16, 16)))
                    cls = "range" if mode == "codec" else rnd.choice(("pm1", "small", "small", "near2p30", "huge"))
                    pic = {}
                    for c, (w, h, dep) in (("Y", (lw, lh, yd)), ("C1", (cw, ch, cd)), ("C2", (cw, ch, cd))):
                        pic[c] = [[rnd.randint(0, (1 << dep) - 1) for _ in range(w)] for _ in range(h)] if mode == "codec" else make_picture(rnd, w, h, cls)
                    cases.append({"mode": mode, "f": f, "fho": g, "d": d, "dho": dho, "lw": lw, "lh": lh, "cw": cw, "ch": ch, "ydepth": yd, "cdepth": cd, "cls": cls, "pic": pic, "origin": "grid"})
    return cases


def picture_representatives(ctx, box):
    """G direction of the state-level layer: TLC explores WaveletPicture over the box (invariants = the property for all
    three components) and dumps every configuration with the design's coefficients."""
    d = tlc.mkscratch("wpic")
    root, cfg, files = write_picture_model(d, **box)
    res = tlc.run(root, cfg, dump=True, workers=WORKERS, extra_files=files, coverage=False, env=XSS)
    ctx.add_tlc(res, "state level: three components with independent sizes (WaveletPicture, -dump)", {k: len(v) for k, v in box.items()})
    reps = []
    for st in tlaval.iter_dump(res.dump_path):
        if st["stage"] == "decoded":
            co = {}
            for c, lv in st["co"].items():
                for n, bands in lv.items():
                    for b, a in bands.items():
                        co[(str(c), int(n), str(b))] = to_lists(a)
            sz, dp = st["sz"], st["dp"]
            reps.append({"mode": str(st["mode"]), "f": st["f"], "fho": st["fho"], "d": st["d"], "dho": st["dho"], "lw": sz["lw"], "lh": sz["lh"], "cw": sz["cw"], "ch": sz["ch"],
                         "ydepth": dp["y"], "cdepth": dp["c"], "pic": {str(c): to_lists(a) for c, a in st["pic"].items()}, "spec_co": co, "cls": "tlc", "origin": "tlc"})
    return reps


def compare_picture_coeffs(rep, ev):
    n_bad = 0
    for c in COMPS:
        for k in ev["_coeffs"].get(c, []):
            if rep["spec_co"].get((c, k["n"], "DC" if k["n"] == 0 else k["b"])) != k["a"]:
                n_bad += 1
    return n_bad


PICTURE_KEYS = ("mode", "f", "fho", "d", "dho", "lw", "lh", "cw", "ch", "ydepth", "cdepth", "pic")


# ----------------------------------------------------------------------------- inputs
VALUE_CLASSES = ("zero", "pm1", "small", "near2p30", "huge")


def make_picture(rnd, w, h, cls):
    if cls == "zero":
        return [[0] * w for _ in range(h)]
    if cls == "pm1":
        return [[rnd.choice((-1, 1)) for _ in range(w)] for _ in range(h)]
    if cls == "small":
        return [[rnd.randint(-300, 300) for _ in range(w)] for _ in range(h)]
    if cls == "near2p30":
        return [[rnd.choice((-1, 1)) * (2 ** 30 - 1 - rnd.randrange(3)) for _ in range(w)] for _ in range(h)]
    return [[rnd.randint(-(2 ** 62), 2 ** 62) for _ in range(w)] for _ in range(h)]


def depth_pairs(total):
    return [(d, dho) for d in range(0, 5) for dho in range(0, 5) if d + dho <= total]


def grid_cases(ctx, rnd):
    sizes_all = [(w, h) for w in range(1, 10) for h in range(1, 10)] + [(16, 9), (17, 5), (33, 3), (3, 33)]
    cases = []
    pairs = [(f, g) for f in range(7) for g in range(7)]
    dps = depth_pairs(ctx.pick(4, 6))
    for (f, g) in pairs:
        for (d, dho) in dps:
            if ctx.quick:
                sizes = rnd.sample(sizes_all, 2) + [rnd.choice([(1, 1), (1, 5), (5, 1), (2, 2), (16, 9), (17, 5), (33, 3)])]
            else:
                sizes = rnd.sample(sizes_all, 10) + [(1, 1), (16, 9), (17, 5), (33, 3)]
            for (w, h) in sizes:
                if (w + h) * (1 << (d + dho)) > 4000:
                    continue
                for cls in (rnd.sample(VALUE_CLASSES, 2) if ctx.quick else VALUE_CLASSES):
                    small_cmp = w * h <= 12 and d + dho <= 2 and cls in ("pm1", "small") and rnd.random() < ctx.pick(0.15, 0.25)
                    cases.append({"f": f, "fho": g, "d": d, "dho": dho, "w": w, "h": h, "cls": cls, "comp": rnd.choice(("Y", "Y", "C1")), "pic": make_picture(rnd, w, h, cls), "cmp": small_cmp, "origin": "grid"})
    return cases


# ----------------------------------------------------------------------------- G direction
def to_lists(a):
    return [list(r) for r in a]


def tlc_representatives(ctx, box):
    d = tlc.mkscratch("wbox")
    root, cfg, files = write_model(d, view=True, **box)
    res = tlc.run(root, cfg, dump=True, workers=WORKERS, extra_files=files, coverage=False)
    ctx.add_tlc(res, "one picture per configuration (VIEW ConfigView, -dump)", {k: len(v) for k, v in box.items()})
    reps = []
    for st in tlaval.iter_dump(res.dump_path):
        if st["stage"] == "decoded":
            co = {}
            for n, bands in st["co"].items():
                for b, a in bands.items():
                    co[(int(n), str(b))] = to_lists(a)
            reps.append({"f": st["f"], "fho": st["fho"], "d": st["d"], "dho": st["dho"], "pic": to_lists(st["pic"]), "spec_co": co})
    return reps


def compare_coeffs(rep, ev):
    """equality of the code's coefficient arrays with the design's (spec -> code, logged only)"""
    n_bad = 0
    for c in ev["_coeffs"]:
        key = (c["n"], "DC" if c["n"] == 0 else c["b"])
        if rep["spec_co"].get(key) != c["a"]:
            n_bad += 1
    return n_bad


# ----------------------------------------------------------------------------- self-test of the binding
def selftest(sample_case):
    from vc2_conformance.pseudocode import picture_encoding as pe, picture_decoding as pd, slice_sizes as ss

    recs, want = [], []
    # (1) analysis stages not reversed: wrong for multi-stage filters with dependent stages
    orig = pe.oned_analysis
    try:
        def broken(A, filter_index):
            from vc2_data_tables import LIFTING_FILTERS

            for stage in LIFTING_FILTERS[filter_index].stages:  # not reversed
                pe.ANALYSIS_LIFTING_FUNCTION_TYPES[stage.lift_type](A, stage.L, stage.D, stage.taps, stage.S)

        pe.oned_analysis = broken
        recs.append(transform({"tid": 1, "f": 1, "fho": 1, "d": 1, "dho": 0, "w": 4, "h": 4, "pic": [[5, -3, 8, 1], [0, 7, -2, 4], [9, 9, -6, 2], [1, -8, 3, 3]]}, (pe, pd, ss)))
        want.append((1, "PerfectReconstruction"))
    finally:
        pe.oned_analysis = orig
    # (2) subband_height wrong at horizontal-only levels: shapes no longer those of the slice geometry
    orig = ss.subband_height
    try:
        def bad_height(state, level, comp):
            v = orig(state, level, comp)
            return v * 2 if 1 <= level <= state["dwt_depth_ho"] else v

        ss.subband_height = bad_height
        recs.append(transform({"tid": 2, "f": 3, "fho": 3, "d": 1, "dho": 1, "w": 4, "h": 2, "pic": [[1, 2, 3, 4], [5, 6, 7, 8]]}, (pe, pd, ss)))
        want.append((2, "ShapesMatchSliceGeometry"))
    finally:
        ss.subband_height = orig
    good = transform(dict(sample_case, tid=3))
    recs.append(good)
    if good["arrays"]:
        e = copy.deepcopy(good)
        e["tid"] = 4
        e["rec"][-1][-1] += 1  # corrupted recorded field
        recs.append(e)
        want.append((4, "PerfectReconstruction"))
    e = copy.deepcopy(good)
    e["tid"] = 5
    e["shapes"] = e["shapes"][:-1] if len(e["shapes"]) > 1 else [dict(e["shapes"][0], w=e["shapes"][0]["w"] + 1)]
    recs.append(e)
    want.append((5, "ShapesMatchSliceGeometry"))
    bad, _ = validate(recs)
    got = sorted((b["tid"], b["clause"]) for b in bad if b["alarm"])
    if got != sorted(want):
        raise RuntimeError("C11 binding self-test failed: expected %s, trace spec reported %s" % (sorted(want), got))
    return {"mutants": "oned_analysis with stages not reversed (monkeypatch); subband_height doubled at horizontal-only levels (monkeypatch)", "corrupted_fields": "one decoded sample +1; one recorded band shape dropped", "flagged": got, "untouched_record_accepted": True}


def picture_selftest(sample_case):
    """State level: (1) a forward_wavelet_transform that pads the luma component only, (2) an
    inverse_wavelet_transform that removes the padding of every component with the LUMA size must be flagged;
    (3) corrupted recorded fields of one component; the untouched record must be accepted."""
    from vc2_conformance.pseudocode import picture_encoding as pe, picture_decoding as pd, slice_sizes as ss

    base = {"mode": "fwt", "f": 1, "fho": 3, "d": 1, "dho": 1, "lw": 8, "lh": 4, "cw": 3, "ch": 3, "ydepth": 8, "cdepth": 8,
            "pic": {"Y": [[(3 * x + 5 * y) % 11 - 5 for x in range(8)] for y in range(4)], "C1": [[x - y for x in range(3)] for y in range(3)], "C2": [[x * y - 2 for x in range(3)] for y in range(3)]}}
    recs, want = [], []
    orig = pe.forward_wavelet_transform
    try:
        def luma_only(state, current_picture):
            pe.dwt_pad_addition(state, current_picture["Y"], "Y")
            state["y_transform"] = pe.dwt(state, current_picture["Y"])
            state["c1_transform"] = pe.dwt(state, current_picture["C1"])
            state["c2_transform"] = pe.dwt(state, current_picture["C2"])

        pe.forward_wavelet_transform = luma_only
        recs.append(transform_picture(dict(base, tid=1), (pe, pd, ss)))
        want.append(1)
    finally:
        pe.forward_wavelet_transform = orig
    orig = pd.inverse_wavelet_transform
    try:
        def luma_sized(state):
            for c in COMPS:
                state["current_picture"][c] = pd.idwt(state, state[KEYS[c]])
                pd.idwt_pad_removal(state, state["current_picture"][c], "Y")

        pd.inverse_wavelet_transform = luma_sized
        recs.append(transform_picture(dict(base, tid=2, lw=3, lh=3, cw=2, ch=2, pic={"Y": base["pic"]["C1"], "C1": [[1, -2], [3, 4]], "C2": [[0, 5], [-6, 7]]}), (pe, pd, ss)))
        want.append(2)
    finally:
        pd.inverse_wavelet_transform = orig
    good = transform_picture(dict(sample_case, tid=3))
    recs.append(good)
    e = copy.deepcopy(good)
    e["tid"] = 4
    k = e["comps"][2]
    k["shapes"] = k["shapes"][:-1] if len(k["shapes"]) > 1 else [dict(k["shapes"][0], w=k["shapes"][0]["w"] + 1)]
    recs.append(e)
    want.append(4)
    e = copy.deepcopy(good)
    e["tid"] = 5
    e["comps"][1]["equal"] = False
    if e["comps"][1]["arrays"]:
        e["comps"][1]["rec"][-1][-1] += 1
    recs.append(e)
    want.append(5)
    bad, _ = validate([{k: v for k, v in r.items() if not k.startswith("_")} for r in recs])
    got = sorted(b["tid"] for b in bad if b["alarm"])
    if got != want:
        raise RuntimeError("C11 state-level binding self-test failed: expected alarms on %s, trace spec reported %s" % (want, [(b["tid"], b["clause"], b.get("comp")) for b in bad]))
    return {"mutants": "forward_wavelet_transform padding the luma component only (monkeypatch); inverse_wavelet_transform removing padding with the luma size for every component (monkeypatch)",
            "corrupted_fields": "one band shape of C2 dropped; one decoded sample of C1 altered", "flagged": [(b["tid"], b["clause"], b.get("comp")) for b in bad if b["alarm"]], "untouched_record_accepted": True}


def _cpu():
    a = resource.getrusage(resource.RUSAGE_SELF)
    b = resource.getrusage(resource.RUSAGE_CHILDREN)
    return a.ru_utime + a.ru_stime + b.ru_utime + b.ru_stime


# ----------------------------------------------------------------------------- run
def run(ctx):
    rnd = random.Random(ctx.seed * 15485863 + 11)
    cpu0 = _cpu()
    diag = [(i, i) for i in range(7)]
    off = [(i, (i + 3) % 7) for i in range(7)]
    allp = [(i, j) for i in range(7) for j in range(7)]
    box = ctx.pick(
        dict(pairs=diag + off, depths=[(0, 0), (1, 0), (0, 1), (1, 1), (2, 0)], sizes=[(1, 1), (2, 1), (3, 2), (2, 3)], vals=[-2, 1]),
        dict(pairs=allp, depths=[(0, 0), (1, 0), (0, 1), (1, 1), (2, 0), (0, 2), (2, 1)], sizes=[(1, 1), (2, 1), (1, 2), (3, 2), (2, 3), (5, 1)], vals=[-2, 1]),
    )
    if not SKIP_MODEL:
        d = tlc.mkscratch("wbox")
        root, cfg, files = write_model(d, view=False, **box)
        res = tlc.run(root, cfg, workers=ctx.pick(WORKERS, 16), extra_files=files)
        ctx.add_tlc(res, "exhaustive pictures x configurations", {k: (v if k == "vals" else len(v)) for k, v in box.items()})
    gbox = ctx.pick(
        dict(pairs=allp, depths=[(1, 0), (0, 1), (1, 1), (2, 0), (0, 2)], sizes=[(3, 2), (2, 3), (5, 1)], vals=[-3, 2]),
        dict(pairs=allp, depths=[(0, 0), (1, 0), (0, 1), (1, 1), (2, 0), (0, 2), (2, 1), (1, 2)], sizes=[(1, 1), (3, 2), (2, 3), (5, 1), (5, 3)], vals=[-3, 2]),
    )
    reps = tlc_representatives(ctx, gbox)
    if not reps:
        raise RuntimeError("TLC produced no representative pictures")
    cases = []
    for rep in reps:
        cases.append({"f": rep["f"], "fho": rep["fho"], "d": rep["d"], "dho": rep["dho"], "w": len(rep["pic"][0]), "h": len(rep["pic"]), "pic": rep["pic"], "keep_coeffs": True, "cmp": False, "origin": "tlc", "cls": "tlc", "comp": "Y"})
    cases += grid_cases(ctx, rnd)
    for k, c in enumerate(cases):
        c["tid"] = k + 1
    evs = common.pmap(_transform_job, cases)
    dis = 0
    for rep, ev in zip(reps, evs[: len(reps)]):
        dis += compare_coeffs(rep, ev)
    # ---- state level: whole pictures (three components, independent sizes, one set of transform parameters)
    pbox = ctx.pick(
        dict(pairs=[(1, 3), (4, 2)], depths=[(1, 0), (0, 1), (1, 1), (2, 0)], luma=[(4, 4), (3, 2), (4, 3), (5, 2)], chroma=[(4, 4), (2, 2), (2, 1), (1, 1)], bits=[(3, 2)], patterns=[1]),
        dict(pairs=diag, depths=[(1, 0), (0, 1), (1, 1), (2, 0), (0, 2)], luma=[(4, 4), (3, 2), (5, 4), (4, 3), (9, 4)], chroma=[(4, 4), (2, 2), (2, 1), (1, 1), (4, 2)], bits=[(8, 10)], patterns=[1]),
    )
    preps = picture_representatives(ctx, pbox)
    if not preps:
        raise RuntimeError("TLC produced no state-level pictures")
    pcases = [dict(r) for r in preps] + picture_grid(ctx, rnd)
    for k, c in enumerate(pcases):
        c["tid"] = len(cases) + k + 1
    pevs = common.pmap(_picture_job, pcases)
    for rep, ev in zip(preps, pevs[: len(preps)]):
        dis += compare_picture_coeffs(rep, ev)
    records = [{k: v for k, v in ev.items() if not k.startswith("_")} for ev in evs + pevs]
    bad, tres = validate(records)
    ctx.add_tlc(tres, "trace validation (WaveletTrace)")
    padclass = tlc.printed(tres, "PADCLASS")
    padclass = json.loads(padclass[-1][0]) if padclass else {}
    tdis = {}
    for b in bad:
        if b["tid"] > len(cases):
            c = pcases[b["tid"] - len(cases) - 1]
            if b["alarm"]:
                ev = records[b["tid"] - 1]
                entry = "inverse_wavelet_transform(forward_wavelet_transform(picture))" if c["mode"] == "fwt" else "picture_decode(picture_encode(picture))"
                comp = next((k for k in ev["comps"] if k["c"] == b.get("comp")), None)
                ctx.violation(
                    "C11|%s|%s" % (b["clause"], entry if b["clause"] == "PerfectReconstruction" else (ev["exc"] if b["clause"] == "NoResult" else "forward_wavelet_transform shapes" if b["clause"] == "ShapesMatchSliceGeometry" else "picture event")),
                    "wavelet_index=%d wavelet_index_ho=%d dwt_depth=%d dwt_depth_ho=%d luma %dx%d colour difference %dx%d (%s, %s values), component %s: %s"
                    % (c["f"], c["fho"], c["d"], c["dho"], c["lw"], c["lh"], c["cw"], c["ch"], c["mode"], c["cls"], b.get("comp"),
                       ("decoded component differs first at [y, x] = %s" % (comp or {}).get("first_diff")) if b["clause"] == "PerfectReconstruction" else ("the transform raised %s" % ev["exc"]) if b["clause"] == "NoResult" else ("band shapes %s vs slice geometry %s" % ((comp or {}).get("shapes"), (comp or {}).get("geom")))),
                    {"picture": {k: c[k] for k in PICTURE_KEYS}},
                )
            else:
                tdis[b["clause"]] = tdis.get(b["clause"], 0) + 1
            continue
        c = cases[b["tid"] - 1]
        if b["alarm"]:
            ev = records[b["tid"] - 1]
            ctx.violation(
                "C11|%s|%s" % (b["clause"], "idwt(dwt(picture))" if b["clause"] == "PerfectReconstruction" else (ev["exc"] if b["clause"] == "NoResult" else "dwt shapes")),
                "wavelet_index=%d wavelet_index_ho=%d dwt_depth=%d dwt_depth_ho=%d component %s %dx%d (%s values): %s" % (c["f"], c["fho"], c["d"], c["dho"], c["comp"], c["w"], c["h"], c["cls"], ("decoded picture differs first at [y, x] = %s" % ev.get("first_diff")) if b["clause"] == "PerfectReconstruction" else ("the transform raised %s" % ev["exc"]) if b["clause"] == "NoResult" else ("band shapes %s vs slice geometry %s" % (ev["shapes"], ev["geom"]))),
                {k: c[k] for k in ("f", "fho", "d", "dho", "w", "h", "comp", "pic")},
            )
        else:
            tdis[b["clause"]] = tdis.get(b["clause"], 0) + 1
    st = selftest(cases[len(reps)]) if not ctx.violations else {"skipped": "violations were found by the main run"}
    pst = picture_selftest(pcases[len(preps)]) if not ctx.violations else {"skipped": "violations were found by the main run"}
    if min(padclass.get(k, 0) for k in ("both", "luma_only", "chroma_only", "neither")) < 10:
        raise RuntimeError("vacuous state-level run: padding classes %s" % padclass)
    nontrivial = set()
    for c in cases:
        if c["d"] + c["dho"] > 0 and c["cls"] not in ("zero",):
            nontrivial.add((c["f"], c["fho"], c["d"], c["dho"], c["w"], c["h"], c["cls"], repr(c["pic"][0][:3])))
    padded = sum(1 for ev, c in zip(evs, cases) if ev["pw"] != c["w"] or ev["ph"] != c["h"])
    if padded == 0 or not nontrivial:
        raise RuntimeError("vacuous run: no padded pictures / no transforms")
    ctx.coverage.update(
        {
            "traces_validated_against_impl": len(records),
            "evaluations": len(evs) + sum(len(ev["comps"]) for ev in pevs),
            "distinct_nontrivial": len(nontrivial),
            "rule": "one evaluation = one component padded, analysed, synthesised and unpadded by the real code and judged by TLC (a state-level picture = three evaluations in one trace line); non-trivial = distinct (filters, depths, size, value class, first samples) with at least one transform level and non-zero samples",
            "exhaustive": True,
            "exhaustive_box": {k: (v if k == "vals" else len(v)) for k, v in box.items()},
            "tlc_representatives": len(reps),
            "grid_cases": len(cases) - len(reps),
            "filter_pairs_covered": len(set((c["f"], c["fho"]) for c in cases)),
            "depth_pairs_covered": len(set((c["d"], c["dho"]) for c in cases)),
            "cases_needing_padding": padded,
            "cases_with_huge_values": sum(1 for ev in evs if not ev["arrays"]),
            "cases_with_coefficients_compared_in_tlc": sum(1 for ev in evs if ev["cmp"]),
            "spec_disagreements": dis + sum(tdis.values()),
            "logged_clauses": tdis,
            "binding_selftest": st,
            "state_level": {
                "pictures_validated": len(pcases),
                "tlc_configurations": len(preps),
                "grid_pictures": len(pcases) - len(preps),
                "box": {k: len(v) for k, v in pbox.items()},
                "modes": {m: sum(1 for c in pcases if c["mode"] == m) for m in ("fwt", "codec")},
                "padding_classes_by_the_design_geometry": padclass,
                "filter_pairs_covered": len(set((c["f"], c["fho"]) for c in pcases)),
                "binding_selftest": pst,
            },
            "cpu_s": round(_cpu() - cpu0, 1),
            "samples": [records[0], {k: v for k, v in records[len(reps) + 3].items()}, {k: cases[-1][k] for k in ("f", "fho", "d", "dho", "w", "h", "cls")}],
        }
    )
    ctx.assumptions += [
        "lifting filter tables are taken from the third-party package vc2_data_tables (generated into a TLA+ module at run time)",
        "samples up to 2^30 are compared by TLC; for larger magnitudes (up to 2^62) the driver reports only the equality of the two arrays",
        "filter_bit_shift is the horizontal filter's in both directions, as in the code and the standard",
    ]


def replay(case):
    if "picture" in case:
        ev = transform_picture(dict(case["picture"], tid=1))
        bad, _ = validate([{k: v for k, v in ev.items() if not k.startswith("_")}])
        return {"violations": [b for b in bad if b["alarm"]], "event": {k: v for k, v in ev.items() if k not in ("comps", "_coeffs")}}
    ev = transform(dict(case, tid=1))
    bad, _ = validate([ev])
    return {"violations": [b for b in bad if b["alarm"]], "event": {k: v for k, v in ev.items() if k not in ("pic",)}}
