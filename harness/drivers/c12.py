"""C12 -- quantisation reconstructs within one step and distinguishes indices.

Spec: spec/Quantisation.tla (+ QuantisationOps.tla) exhaustive with TLC for index <= 47 (32-bit limit of the
plain formulas); spec/apalache/MC_Quant.tla proves the bound / monotonicity / distinctness for unbounded
coefficients and every base B (Apalache).
Binding:
  G  TLC's dump of Quantisation.tla under VIEW ClassView: one (qindex, matrix entry, coefficient) per boundary
     class (position of 4|x| inside its quantisation bin x sign x small/large quantised value); the real
     forward_quant / inverse_quant are called on each (with the effective index) and compared with the spec's
     q and r (differences are `spec_disagreements`, never an alarm).
  T  tables recorded from the real quant_factor / quant_offset / forward_quant / inverse_quant and the constant
     MINIMUM_DISTINCT_QINDEX are judged by TLC with QuantTrace.tla: sign, 4|x^-x| < quant_factor(i), index 0
     exact, factors strictly increasing, inverse_quant(1, i) strictly increasing from index 7 (and from the
     constant) upward -- all evaluated on the code's own numbers (limb arithmetic above 2^30).
Python below only picks inputs, calls the functions and copies the numbers.
"""
import os
import random
import resource

from .. import common, tlc, tlaval, trace
from . import c13 as _h  # shared helpers of this builder: Apalache runner, cfg constant substitution

XSS = {"JAVA_TOOL_OPTIONS": "-Xss512m"}
WORKERS = 8
SKIP_MODEL = bool(os.environ.get("VERIF_SKIP_MODEL"))
PLAIN_MAX_INDEX = 115  # quant_factor(115) < 2^31 <= quant_factor(116)
PLAIN_MAX_X = 2 ** 28


def signed(n):
    return {"s": (n > 0) - (n < 0), "m": trace.limbs(abs(n))}


def _mods():
    from vc2_conformance.pseudocode import quantization as qz

    return qz


def _lq():
    # the package re-exports a function of the same name, so fetch the module itself
    import importlib

    return importlib.import_module("vc2_conformance.test_cases.decoder.lossless_quantization")


# ----------------------------------------------------------------------------- events
def factors_event(tid, n, qz=None, minimum=None):
    qz = qz or _mods()
    if minimum is None:
        lq = _lq()
        minimum = lq.MINIMUM_DISTINCT_QINDEX
    return {
        "tid": tid,
        "ev": "factors",
        "min": minimum,
        "qf": [trace.limbs(qz.quant_factor(i)) for i in range(n + 1)],
        "qo": [trace.limbs(qz.quant_offset(i)) for i in range(n + 1)],
        "iq1": [trace.limbs(qz.inverse_quant(1, i)) for i in range(n + 1)],
    }


def quant_event(tid, i, xs, qz=None):
    """forward_quant then inverse_quant of every x at index i; plain integers when everything fits."""
    qz = qz or _mods()
    f = qz.quant_factor(i)
    o = qz.quant_offset(i)
    qs = [qz.forward_quant(x, i) for x in xs]
    rs = [qz.inverse_quant(q, i) for q in qs]
    small = i <= PLAIN_MAX_INDEX and abs(f) < 2 ** 31 and all(abs(v) <= PLAIN_MAX_X for v in xs) and all(abs(v) <= PLAIN_MAX_X for v in rs) and all(abs(v) <= PLAIN_MAX_X for v in qs)
    if small:
        return {"tid": tid, "ev": "quant", "i": i, "f": f, "xs": list(xs), "qs": qs, "rs": rs}
    return {"tid": tid, "ev": "quantbig", "i": i, "f": trace.limbs(f) if f >= 0 else [0], "o": trace.limbs(o) if o >= 0 else [0], "xs": [signed(v) for v in xs], "qs": [signed(v) for v in qs], "rs": [signed(v) for v in rs]}


def matrix_events(tid0):
    import vc2_data_tables as tables

    lq = _lq()

    qz = _mods()
    out = []
    for key in sorted(tables.QUANTISATION_MATRICES):
        mat = tables.QUANTISATION_MATRICES[key]
        ms = sorted(set(v for sub in mat.values() for v in sub.values()))
        qi = lq.compute_qindex_with_distinct_quant_factors(mat)
        out.append({"tid": tid0 + len(out), "ev": "matrix", "key": list(int(k) for k in key), "min": lq.MINIMUM_DISTINCT_QINDEX, "qindex": qi, "ms": ms, "iq1": [trace.limbs(qz.inverse_quant(1, max(qi - m, 0))) for m in ms]})
    return out


def _quant_job(job):
    tid, i, xs = job
    return quant_event(tid, i, xs)


def inputs_for_index(rnd, i, dense, nbound, nrand, big_bits):
    """coefficients for index i: a dense range around 0, the neighbourhood of bin boundaries k*F/4 (F from the
    code's own quant_factor: input selection only), random values of growing size -- both signs."""
    qz = _mods()
    f = max(1, qz.quant_factor(i))
    xs = set(range(0, dense + 1))
    ks = list(range(1, 6)) + [rnd.randint(6, 1000) for _ in range(nbound)]
    for k in ks:
        c = (k * f) // 4
        xs.update(v for v in (c - 2, c - 1, c, c + 1, c + 2) if v >= 0)
    for _ in range(nrand):
        xs.add(rnd.getrandbits(rnd.randint(1, big_bits)))
    xs = sorted(xs)
    return xs + [-v for v in xs if v]


# ----------------------------------------------------------------------------- G direction
def tlc_representatives(ctx, consts):
    res = tlc.run("Quantisation", _h.box_cfg("QuantisationG.cfg", **consts), dump=True, workers=WORKERS)
    ctx.add_tlc(res, "boundary-class representatives (VIEW ClassView, -dump)", dict(consts))
    reps = []
    for st in tlaval.iter_dump(res.dump_path):
        if st["stage"] == "dequantised":
            reps.append({k: st[k] for k in ("qindex", "m", "x", "q", "r")})
    return reps


def replay_reps(reps):
    """Call the real functions on TLC's representatives (effective index = max(qindex - m, 0), as the slice
    decoder does) -> (events for the trace spec, number of spec disagreements)."""
    qz = _mods()
    by_index = {}
    dis = 0
    for rep in reps:
        i = max(rep["qindex"] - rep["m"], 0)
        q = qz.forward_quant(rep["x"], i)
        r = qz.inverse_quant(q, i)
        if q != rep["q"] or r != rep["r"]:
            dis += 1
        by_index.setdefault(i, []).append(rep["x"])
    return by_index, dis


def tlc_samples(ctx, consts):
    """G for coefficients of every size: QuantSamples.tla computes (limb arithmetic), per index x binade x slot, one
    quantisation interval and its first / mid-1 / mid / mid+1 / last point with the design's q and r."""
    res = tlc.run("QuantSamples", _h.box_cfg("QuantSamples.cfg", **consts), dump=True, workers=16, env=XSS, coverage=False)
    ctx.add_tlc(res, "interval samples in every binade (QuantSamples, limb arithmetic, -dump)", dict(consts))
    out = []
    for st in tlaval.iter_dump(res.dump_path):
        if st["stage"] == "picked":
            smp = st["smp"]
            out.append({"i": st["i"], "b": max(consts["LoBin"], st["i"] // 4) + st["e"], "q": _num(list(smp["q"])), "r": _num(list(smp["r"])), "xs": sorted(set(_num(list(x)) for x in smp["xs"]))})
    return out


def replay_samples(samples):
    """Call the real functions on TLC's interval points, both signs -> ({index: coefficients}, spec disagreements)"""
    qz = _mods()
    by_index = {}
    dis = 0
    for smp in samples:
        i = smp["i"]
        for x in smp["xs"]:
            for sg in (1, -1) if x else (1,):
                q = qz.forward_quant(sg * x, i)
                r = qz.inverse_quant(q, i)
                if q != sg * smp["q"] or r != sg * smp["r"]:
                    dis += 1
            by_index.setdefault(i, set()).add(x)
    return {i: sorted(v) for i, v in by_index.items()}, dis


# ----------------------------------------------------------------------------- self-test of the binding
def selftest():
    """Broken implementations (monkeypatched in-process, restored in finally) and a corrupted recorded field must
    be rejected by the trace spec with the right clause; an untouched record must be accepted."""
    qz = _mods()
    want, recs = [], []
    orig = qz.quant_offset
    try:
        # offset of a whole step instead of half a step: reconstruction leaves the bin
        qz.quant_offset = lambda index: qz.quant_factor(index) * 2
        recs.append(quant_event(1, 9, list(range(0, 60)), qz))
        want.append((1, "WithinOneStep"))
        recs.append(quant_event(2, 200, [3 * qz.quant_factor(200) // 4 + 5, -(7 * qz.quant_factor(200) // 4)], qz))
        want.append((2, "WithinOneStep"))
    finally:
        qz.quant_offset = orig
    orig = qz.quant_factor
    try:
        qz.quant_factor = lambda index: orig(index) if index != 6 else orig(5)  # a repeated factor
        recs.append(factors_event(3, 40, qz))
        want.append((3, "FactorsIncrease"))
    finally:
        qz.quant_factor = orig
    recs.append(factors_event(4, 40, qz, minimum=4))  # the test case would rely on indices 4..6 being distinct
    want.append((4, "DistinctFromMinimum"))
    good = quant_event(5, 3, [-9, -1, 0, 1, 2, 17], qz)
    recs.append(good)
    e = dict(good, tid=6, rs=[-v for v in good["rs"]])  # corrupted field: signs flipped
    recs.append(e)
    want.append((6, "SignKept"))
    bad, _ = trace.validate("QuantTrace", recs, env=XSS)
    got = sorted((b["tid"], b["clause"]) for b in bad if b["alarm"])
    if got != sorted(want):
        raise RuntimeError("C12 binding self-test failed: expected %s, trace spec reported %s" % (sorted(want), got))
    return {"mutants": "quant_offset = 2*quant_factor (plain and limb path); quant_factor(6) = quant_factor(5); MINIMUM_DISTINCT_QINDEX = 4", "corrupted_fields": "signs of the recorded reconstructions flipped", "flagged": got, "untouched_record_accepted": True}


def _cpu():
    a = resource.getrusage(resource.RUSAGE_SELF)
    b = resource.getrusage(resource.RUSAGE_CHILDREN)
    return a.ru_utime + a.ru_stime + b.ru_utime + b.ru_stime


# ----------------------------------------------------------------------------- run
def run(ctx):
    rnd = random.Random(ctx.seed * 104729 + 12)
    cpu0 = _cpu()
    ajobs = [{"args": dict(module="MC_Quant", inv="Inv", length=0, timeout=ctx.pick(120, 900)), "expect": "ok", "what": "for every natural base B >= 1, residue 0..3 and magnitude x: 4|Iq(Fq(x)) - x| < F; index 0 exact; 4B < Q1 < Q2 < Q3 < 8B; Iq(1,.) strictly increasing from index 7 (B >= 4 symbolic); reconstructed magnitude positive iff quantised magnitude positive"}]
    if not ctx.quick:
        ajobs.append({"args": dict(module="MC_Quant", inv="TooTight", length=0, timeout=900), "expect": "error", "what": "negative control: the bound with 8 instead of 4 must be refuted"})
    apa = _h.ApalacheJob(ctx, [] if SKIP_MODEL else ajobs)

    # (S) exhaustive model
    consts = dict(MaxQI=47, MaxM=0, MaxX=ctx.pick(300, 4096))
    if not SKIP_MODEL:
        res = tlc.run("Quantisation", _h.box_cfg("Quantisation.cfg", **consts), workers=ctx.pick(WORKERS, 16))
        ctx.add_tlc(res, "exhaustive (qindex, coefficient) box", dict(consts))
        res = tlc.run("BigNatTest", "mc/BigNatTest.cfg", workers=1, coverage=False, env=XSS)
        ctx.add_tlc(res, "self-test of BigNat.tla (limb arithmetic vs TLC integers, ring laws on multi-limb values)")
    # (G) TLC-chosen boundary cases on the real functions
    gconsts = dict(MaxQI=47, MaxM=2, MaxX=ctx.pick(300, 1200))
    reps = tlc_representatives(ctx, gconsts)
    if not reps:
        raise RuntimeError("TLC produced no representatives")
    by_index, dis = replay_reps(reps)
    # (G, all sizes) TLC-chosen interval points in every binade, every index
    sconsts = dict(MaxI=ctx.pick(255, 300), LoBin=8, Bins=ctx.pick(33, 40), Slots=ctx.pick(2, 6))
    samples = tlc_samples(ctx, sconsts)
    if len(samples) != (sconsts["MaxI"] + 1) * sconsts["Bins"] * sconsts["Slots"]:
        raise RuntimeError("QuantSamples produced %d samples" % len(samples))
    s_by_index, sdis = replay_samples(samples)

    # (T) recorded tables
    n_factors = ctx.pick(300, 1000)
    max_index = ctx.pick(255, 300)
    jobs = []
    tid = 1
    records = [factors_event(tid, n_factors)]
    origin = {1: ("factors", n_factors)}
    for i in sorted(by_index):
        tid += 1
        jobs.append((tid, i, by_index[i]))
        origin[tid] = ("tlc-class", i)
    for i in sorted(s_by_index):
        xs = s_by_index[i] + [-v for v in s_by_index[i] if v]
        plain = [v for v in xs if abs(v) <= PLAIN_MAX_X // 8] if i <= PLAIN_MAX_INDEX else []
        big = [v for v in xs if abs(v) > PLAIN_MAX_X // 8] if i <= PLAIN_MAX_INDEX else xs
        for part in (plain, big):
            for k in range(0, len(part), 2000):
                tid += 1
                jobs.append((tid, i, part[k : k + 2000]))
                origin[tid] = ("tlc-interval-sample", i)
    for i in range(0, max_index + 1):
        dense = ctx.pick(64, 4096) if i <= PLAIN_MAX_INDEX else 4  # above index 115 small coefficients all quantise to 0
        xs = inputs_for_index(rnd, i, dense, ctx.pick(6, 20), ctx.pick(12, 30), 62 if i <= PLAIN_MAX_INDEX else 90)
        plain = [v for v in xs if abs(v) <= PLAIN_MAX_X // 8] if i <= PLAIN_MAX_INDEX else []
        big = [v for v in xs if abs(v) > PLAIN_MAX_X // 8] if i <= PLAIN_MAX_INDEX else xs
        for part in (plain, big):
            for k in range(0, len(part), 2000):
                tid += 1
                jobs.append((tid, i, part[k : k + 2000]))
                origin[tid] = ("table", i)
    qrecs = common.pmap(_quant_job, jobs)
    records += qrecs
    mrecs = matrix_events(tid + 1)
    for m in mrecs:
        origin[m["tid"]] = ("matrix", m["key"])
    records += mrecs

    bad, tres = trace.validate("QuantTrace", records, env=XSS)
    ctx.add_tlc(tres, "trace validation (QuantTrace)")
    by_tid = {r["tid"]: r for r in records}
    tdis = {}
    for b in bad:
        rec = by_tid[b["tid"]]
        if b["alarm"]:
            case = {"ev": rec["ev"]}
            what = "%s: clause %s" % (origin[b["tid"]], b["clause"])
            if rec["ev"] in ("quant", "quantbig"):
                j = [jb for jb in jobs if jb[0] == b["tid"]][0]
                k = b["at"] - 1 if isinstance(b.get("at"), int) and b["at"] >= 1 else 0
                x = j[2][k]
                case.update(i=j[1], xs=[x])
                what = "index %d, coefficient %d: forward_quant -> %s, inverse_quant -> %s violates %s (quant_factor %s)" % (j[1], x, _num(rec["qs"][k]), _num(rec["rs"][k]), b["clause"], _num(rec["f"]))
            elif rec["ev"] == "factors":
                case.update(n=len(rec["qf"]) - 1)
                what = "quant_factor / inverse_quant(1, .) table: clause %s first fails at index %s" % (b["clause"], b.get("at"))
            ctx.violation("C12|%s|%s" % (b["clause"], "table" if rec["ev"] == "factors" else "quantization"), what, case)
        else:
            tdis[b["clause"]] = tdis.get(b["clause"], 0) + 1
    st = selftest() if not ctx.violations else {"skipped": "violations were found by the main run"}
    apar = apa.finish()

    nvals = sum(len(r["xs"]) for r in qrecs)
    nontriv = set()
    lossy = 0
    for j, r in zip(jobs, qrecs):
        for x, q, rr in zip(j[2], r["qs"], r["rs"]):
            if _num(q) != 0 and _num(rr) != x:
                nontriv.add((j[1], x))
    bigvals = sum(len(r["xs"]) for r in qrecs if r["ev"] == "quantbig")
    if not nontriv or bigvals == 0:
        raise RuntimeError("vacuous run: %d lossy reconstructions, %d limb-path values" % (len(nontriv), bigvals))
    ctx.coverage.update(
        {
            "traces_validated_against_impl": len(records),
            "evaluations": nvals + 3 * (n_factors + 1),
            "distinct_nontrivial": len(nontriv),
            "rule": "one evaluation = one (index, coefficient) pushed through the real forward_quant and inverse_quant (or one table entry of quant_factor / quant_offset / inverse_quant(1, .)), judged by TLC; non-trivial = distinct (index, coefficient) whose quantised value is non-zero and whose reconstruction differs from the coefficient (the bound is actually exercised)",
            "exhaustive": True,
            "exhaustive_box": consts,
            "g_box": gconsts,
            "tlc_class_representatives": len(reps),
            "tlc_interval_samples": {"box": sconsts, "intervals": len(samples), "coefficients": 2 * sum(len(v) for v in s_by_index.values()),
                                     "in_2^20..2^31": 2 * sum(1 for v in s_by_index.values() for x in v if (1 << 20) <= x < (1 << 31)),
                                     "points": "first, mid-1, mid, mid+1, last point of the interval, both signs",
                                     "spec_vs_code_differences": sdis},
            "indices_tabulated": max_index + 1,
            "factor_table_length": n_factors + 1,
            "values_plain_path": nvals - bigvals,
            "values_limb_path": bigvals,
            "quantisation_matrices": len(mrecs),
            "spec_disagreements": dis + sdis + sum(tdis.values()),
            "logged_clauses": tdis,
            "binding_selftest": st,
            "apalache": apar,
            "cpu_s": round(_cpu() - cpu0, 1),
            "samples": [
                {"index": jobs[0][1], "xs": jobs[0][2][:8], "qs": qrecs[0]["qs"][:8], "rs": qrecs[0]["rs"][:8]},
                {k: (v[:3] if isinstance(v, list) else v) for k, v in qrecs[-1].items()},
                {"factors_first_12": [_num(v) for v in records[0]["qf"][:12]], "iq1_first_14": [_num(v) for v in records[0]["iq1"][:14]], "min": records[0]["min"]},
                mrecs[5],
            ],
        }
    )
    ctx.assumptions += [
        "TLC integers are 32-bit: values above 2^25 and indices above 115 are judged with base-2^15 limb arithmetic written in TLA+ (spec/BigNat.tla); the plain design formulas are evaluated for index <= 47 only, beyond that recorded quotients are verified (q*d <= n < (q+1)*d)",
        "unboundedness (all integers, all indices) is proved for the specification by Apalache; for the code it is sampled (indices 0..255/300; per index a dense range near 0, bin boundaries, random magnitudes up to 2^90 and TLC-computed interval points -- ends and mid-point neighbourhood -- in every binade from 2^8 (or the first binade with a non-zero quantised value) over 33/40 binades)",
        "'strictly increases from 7 upward' is evaluated from min(7, MINIMUM_DISTINCT_QINDEX) so that lowering the constant below what holds is an alarm while raising it is not",
    ]


def _num(v):
    if isinstance(v, dict):
        return v["s"] * _num(v["m"])
    if isinstance(v, list):
        return sum(l << (15 * k) for k, l in enumerate(v))
    return v


def replay(case):
    if case["ev"] == "factors":
        recs = [factors_event(1, case["n"])]
    else:
        recs = [quant_event(1, case["i"], case["xs"])]
    bad, _ = trace.validate("QuantTrace", recs, env=XSS)
    return {"violations": [b for b in bad if b["alarm"]], "event": recs[0]}
