"""C26 -- the bitstream viewer never reports an internal error.

Spec: spec/ToolOutcomeTrace.tla ("view" events: terminal statuses 0 complete / 2 bad parse_info prefix /
3 end of file / 4 parse failure; 255 and an escaping exception are not outcomes).  Binding (T): the real
vc2_bitstream_viewer.main is run in-process on the mutant corpus and on random bytes with the default
display options plus a seeded sample of the other options; TLC validates each recorded event.
"""
import contextlib
import io
import os
import random
import shutil

from .. import common, trace, tlc
from .. import validator_common as vc

OPTION_SETS = [
    [],
    [],
    [],
    ["--no-status"],
    ["--verbose"],
    ["-v", "-v", "--num-trailing-bits", "7"],
    ["--show-internal-state"],
    ["--ignore-parse-info-prefix"],
    ["--hide-slice"],
    ["--show", "parse_info", "--show", "sequence_header"],
    ["--hide", "slice", "--hide", "padding"],
    ["--from-offset", "104", "--to-offset", "+300"],
    ["--offset", "200", "--context", "64"],
    ["--from-offset", "-160"],
    ["--offset", "97", "--after-context", "1000", "-i", "-v"],
]


def run_one(job):
    from vc2_conformance.scripts import vc2_bitstream_viewer as viewer

    name, kind, data = vc.make_mutant(job)
    opts = OPTION_SETS[job[1] % len(OPTION_SETS)]
    ev = {"ev": "view", "base": name, "kind": kind, "opts": " ".join(opts), "exit": -1, "oos": False, "sig": "", "len": len(data)}
    vc.install_viewer_guard()
    wd = tlc.mkscratch("view")
    try:
        path = os.path.join(wd, "in.vc2")
        with open(path, "wb") as f:
            f.write(data)
        so, se = io.StringIO(), io.StringIO()

        def call():
            with contextlib.redirect_stdout(so), contextlib.redirect_stderr(se):
                try:
                    return viewer.main([path] + opts)
                except SystemExit as e:
                    return e.code if isinstance(e.code, int) else -1
                except Exception as e:  # noqa
                    ev["sig"] = "escaped:" + common.exc_signature(e)
                    return -1

        status, code = vc.with_timeout(call, 8.0)
        if status != "ok":
            ev["oos"] = True
            return ev
        ev["exit"] = code
        if code == 255:
            err = [ln for ln in se.getvalue().splitlines() if "internal error" in ln]
            ev["sig"] = (err[-1].split("internal error in bitstream viewer:")[-1].strip()[:120] if err else "255")
    finally:
        shutil.rmtree(wd, ignore_errors=True)
    return ev


def run(ctx):
    vc.install_permissive_levels()
    jobs = vc.mutant_jobs(ctx, 250, 6000)
    outs = common.pmap(run_one, jobs)
    records = [dict(ev, tid=t) for t, ev in enumerate(outs)]
    probe = dict(records[0], tid=len(records), exit=255, oos=False)
    bad, res = trace.validate("ToolOutcomeTrace", records + [probe])
    ctx.add_tlc(res, "trace validation (ToolOutcomeTrace, view events)")
    if not any(b["tid"] == probe["tid"] and b["clause"] == "NeverInternalError" for b in bad):
        raise RuntimeError("binding self-test failed: exit status 255 accepted by the trace spec")
    counts = {}
    for ev in records:
        k = "oos" if ev["oos"] else str(ev["exit"])
        counts[k] = counts.get(k, 0) + 1
    for b in bad:
        if b["tid"] >= len(records) or not b["alarm"]:
            continue
        ev = records[b["tid"]]
        import re

        sig = re.sub(r"\d+", "N", ev["sig"])
        ctx.violation("C26|%s|%s" % (b["clause"], sig), "viewer exit %s (%s) with options [%s] on mutant %s of %s" % (ev["exit"], ev["sig"], ev["opts"], ev["kind"], ev["base"]), {"job": list(jobs[b["tid"]])})
    if len([k for k in counts if k in ("0", "3", "4", "2")]) < 3:
        raise RuntimeError("vacuous corpus: %s" % counts)
    ctx.coverage.update(
        {
            "traces_validated_against_impl": len(records),
            "evaluations": len(records),
            "distinct_nontrivial": len(set((ev["base"], ev["kind"], ev["opts"], ev["exit"], ev["len"]) for ev in records)),
            "rule": "one in-process run of the viewer command per seeded mutant (same corpus as C02) with an option set chosen by the seed (default options 3 in 15); distinct = different (base, mutator, options, exit status, length)",
            "exhaustive": False,
            "exit_statuses": counts,
            "option_sets": [" ".join(o) for o in OPTION_SETS],
            "binding_selftest": "an appended event with exit=255 is rejected with clause NeverInternalError",
            "spec_disagreements": sum(1 for b in bad if not b["alarm"]),
            "samples": [dict((k, records[i][k]) for k in ("base", "kind", "opts", "exit", "len")) for i in (0, len(records) // 2, len(records) - 1)],
        }
    )
    ctx.assumptions += ["resource guard (in-process wrappers of bitstream.vc2.sequence_header / slice_parameters) and an 8 s timeout raise BaseException subclasses, so the viewer's `except Exception` cannot mistake them for its own errors; such runs are counted as out of scope"]


def replay(case):
    vc.install_permissive_levels()
    ev = run_one(tuple(case["job"]))
    return {"event": ev, "violations": [ev] if ev["exit"] in (255, -1) and not ev["oos"] else []}
