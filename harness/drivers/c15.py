"""C15 -- every generated sequence header encodes exactly the requested video format.

Spec: spec/SeqHeaderOps.tla (11.4 decode, encoder design, level acceptance), spec/SeqHeaderFormats.tla (TLC
choice machine over the formats near each base video format x coding mode x level), spec/SeqHeaderTrace.tla.
Tables: generated at run time from vc2_data_tables (+ the level table of the tree under test) into a scratch
module VC2TablesF.tla and bound to the specs' CONSTANTS by the cfg.

G: every completed choice of the TLC machine (-dump; -simulate walks with up to 8 deviating groups) is turned
into a CodecFeatures; iter_sequence_headers() yields all alternative headers; each is serialised as
[sequence_header, end_of_sequence] and fed to the real validator (parse_stream).
T: one recorded event per configuration (requested parameters, and per header: the abstract encoding read from
the emitted dictionary, verdict, decoded parameters, coding mode, major_version); SeqHeaderTrace.tla judges it.
"""
import glob
import io
import os
import re

from .. import common, tlc, tlaval, trace

VP_KEYS = [
    "frame_width", "frame_height", "color_diff_format_index", "source_sampling", "top_field_first",
    "frame_rate_numer", "frame_rate_denom", "pixel_aspect_ratio_numer", "pixel_aspect_ratio_denom",
    "clean_width", "clean_height", "left_offset", "top_offset",
    "luma_offset", "luma_excursion", "color_diff_offset", "color_diff_excursion",
    "color_primaries_index", "color_matrix_index", "transfer_function_index",
]  # fmt: skip



# --------------------------------------------------------------------------- generated TLA+ tables
def _tla(v):
    if isinstance(v, bool):
        return "TRUE" if v else "FALSE"
    if isinstance(v, int):
        return str(int(v))
    if isinstance(v, str):
        return '"%s"' % v
    if isinstance(v, (list, tuple)):
        return "<<" + ", ".join(_tla(x) for x in v) + ">>"
    if isinstance(v, (set, frozenset)):
        return "{" + ", ".join(_tla(x) for x in sorted(v)) + "}"
    if isinstance(v, dict):
        return "[" + ", ".join("%s |-> %s" % (k, _tla(x)) for k, x in v.items()) + "]"
    raise TypeError(v)


def valueset_to_tla(vs):
    """ValueSet -> [any |-> .., rs |-> {<<lo, hi>>}] (booleans as 0/1)."""
    from vc2_conformance.constraint_table import AnyValue

    if isinstance(vs, AnyValue):
        return {"any": True, "rs": set()}
    rs = set()
    for x in vs:
        if isinstance(x, tuple):
            rs.add((int(x[0]), int(x[1])))
        else:
            rs.add((int(x), int(x)))
    return {"any": False, "rs": rs}


def level_columns(table):
    """constraint table (list of {key: ValueSet}) -> list of {key: value-set record}"""
    keys = sorted(set(k for c in table for k in c))
    out = []
    for c in table:
        from vc2_conformance.constraint_table import ValueSet

        out.append(dict((k, valueset_to_tla(c.get(k, ValueSet()))) for k in keys))
    return out


def gen_tables(directory, table=None, name="VC2TablesF"):
    """Write <name>.tla with T_* definitions extracted from vc2_data_tables (and `table`, default the real
    LEVEL_CONSTRAINTS of the tree under test).  Returns the path."""
    import vc2_data_tables as t

    if table is None:
        from vc2_conformance.level_constraints import LEVEL_CONSTRAINTS as table
    bases = []
    for b in sorted(t.BASE_VIDEO_FORMAT_PARAMETERS, key=int):
        p = t.BASE_VIDEO_FORMAT_PARAMETERS[b]
        assert int(b) == len(bases)
        bases.append(dict((k, (bool(v) if k == "top_field_first" else int(v))) for k, v in p._asdict().items()))

    def seq(d, first):
        ks = sorted(d, key=int)
        assert [int(k) for k in ks] == list(range(first, first + len(ks))), ks
        return [tuple(int(x) for x in d[k]) for k in ks]

    cols = level_columns(table)
    defs = [
        ("T_Generated", True),
        ("T_LevelKeys", set(k for c in cols for k in c)),
        ("T_BaseFormats", bases),
        ("T_FrameRates", seq(t.PRESET_FRAME_RATES, 1)),
        ("T_AspectRatios", seq(t.PRESET_PIXEL_ASPECT_RATIOS, 1)),
        ("T_SignalRanges", seq(t.PRESET_SIGNAL_RANGES, 1)),
        ("T_ColorSpecs", seq(t.PRESET_COLOR_SPECS, 0)),
        ("T_LevelColumns", cols),
    ]
    lines = ["---- MODULE %s ----" % name, "(* GENERATED at run time from vc2_data_tables %s -- do not edit *)" % getattr(t, "__version__", ""), "EXTENDS Integers, Sequences"]
    for n, v in defs:
        lines.append("%s == %s" % (n, _tla(v)))
    lines.append("====")
    path = os.path.join(directory, name + ".tla")
    with open(path, "w") as f:
        f.write("\n".join(lines) + "\n")
    return path


def read_cfg(name, **subst):
    with open(os.path.join(tlc.SPEC, "mc", name)) as f:
        text = f.read()
    for k, v in subst.items():
        text, n = re.subn(r"(?m)^(\s*%s\s*=\s*).*$" % re.escape(k), lambda m: m.group(1) + str(v), text)
        if n != 1:
            raise RuntimeError("cfg %s: constant %s not found" % (name, k))
    return text
