"""C15 -- every generated sequence header encodes exactly the requested video format.

Spec: spec/SeqHeaderOps.tla (11.4 decode, encoder design, level acceptance), spec/SeqHeaderFormats.tla (TLC
choice machine over the formats near each base video format x coding mode x level), spec/SeqHeaderTrace.tla.
Tables: generated at run time from vc2_data_tables (+ the level table of the tree under test) into a scratch
module VC2TablesF.tla and which replaces the placeholder spec/VC2TablesF.tla in the TLC working directory.

G: every completed choice of the TLC machine (-dump; -simulate walks with up to 8 deviating groups) is turned
into a CodecFeatures; iter_sequence_headers() yields all alternative headers; each is serialised as
[sequence_header, end_of_sequence] and fed to the real validator (parse_stream).
Each recorded header is serialised twice: in isolation (a deep copy) and IN ORDER -- the very objects the generator
yielded, one after the other in generation order, without copies (autofill writes major_version into the header's
parse-parameters object): bytes that differ from the isolated ones go through the validator again; the heap is
projected as `cell` (which headers share a parse-parameters object) and modelled by SeqHeaderOps!SerialiseInOrder.
T: one recorded event per configuration (requested parameters, and per header: the abstract encoding read from
the emitted dictionary, verdict, decoded parameters, coding mode, major_version); SeqHeaderTrace.tla judges it.
"""
import glob
import io
import os
import re

from .. import common, tlc, tlaval, trace

VP_KEYS = [
    "frame_width", "frame_height", "color_diff_format_index", "source_sampling", "top_field_first",
    "frame_rate_numer", "frame_rate_denom", "pixel_aspect_ratio_numer", "pixel_aspect_ratio_denom",
    "clean_width", "clean_height", "left_offset", "top_offset",
    "luma_offset", "luma_excursion", "color_diff_offset", "color_diff_excursion",
    "color_primaries_index", "color_matrix_index", "transfer_function_index",
]  # fmt: skip



# --------------------------------------------------------------------------- generated TLA+ tables
def _tla(v):
    if isinstance(v, bool):
        return "TRUE" if v else "FALSE"
    if isinstance(v, int):
        return str(int(v))
    if isinstance(v, str):
        return '"%s"' % v
    if isinstance(v, (list, tuple)):
        return "<<" + ", ".join(_tla(x) for x in v) + ">>"
    if isinstance(v, (set, frozenset)):
        return "{" + ", ".join(_tla(x) for x in sorted(v)) + "}"
    if isinstance(v, dict):
        return "[" + ", ".join("%s |-> %s" % (k, _tla(x)) for k, x in v.items()) + "]"
    raise TypeError(v)


def valueset_to_tla(vs):
    """ValueSet -> [any |-> .., rs |-> {<<lo, hi>>}] (booleans as 0/1)."""
    from vc2_conformance.constraint_table import AnyValue

    if isinstance(vs, AnyValue):
        return {"any": True, "rs": set()}
    rs = set()
    for x in vs:
        if isinstance(x, tuple):
            rs.add((int(x[0]), int(x[1])))
        else:
            rs.add((int(x), int(x)))
    return {"any": False, "rs": rs}


def level_columns(table):
    """constraint table (list of {key: ValueSet}) -> list of {key: value-set record}"""
    keys = sorted(set(k for c in table for k in c))
    out = []
    for c in table:
        from vc2_conformance.constraint_table import ValueSet

        out.append(dict((k, valueset_to_tla(c.get(k, ValueSet()))) for k in keys))
    return out


def gen_tables(directory, table=None, name="VC2TablesF"):
    """Write <name>.tla with T_* definitions extracted from vc2_data_tables (and `table`, default the real
    LEVEL_CONSTRAINTS of the tree under test).  Returns the path."""
    import vc2_data_tables as t

    if table is None:
        from vc2_conformance.level_constraints import LEVEL_CONSTRAINTS as table
    bases = []
    for b in sorted(t.BASE_VIDEO_FORMAT_PARAMETERS, key=int):
        p = t.BASE_VIDEO_FORMAT_PARAMETERS[b]
        assert int(b) == len(bases)
        bases.append(dict((k, (bool(v) if k == "top_field_first" else int(v))) for k, v in p._asdict().items()))

    def seq(d, first):
        ks = sorted(d, key=int)
        assert [int(k) for k in ks] == list(range(first, first + len(ks))), ks
        return [tuple(int(x) for x in d[k]) for k in ks]

    cols = level_columns(table)
    defs = [
        ("T_Generated", True),
        ("T_LevelKeys", set(k for c in cols for k in c)),
        ("T_BaseFormats", bases),
        ("T_FrameRates", seq(t.PRESET_FRAME_RATES, 1)),
        ("T_AspectRatios", seq(t.PRESET_PIXEL_ASPECT_RATIOS, 1)),
        ("T_SignalRanges", seq(t.PRESET_SIGNAL_RANGES, 1)),
        ("T_ColorSpecs", seq(t.PRESET_COLOR_SPECS, 0)),
        ("T_LevelColumns", cols),
    ]
    lines = ["---- MODULE %s ----" % name, "(* GENERATED at run time from vc2_data_tables %s -- do not edit *)" % getattr(t, "__version__", ""), "EXTENDS Integers, Sequences"]
    for n, v in defs:
        lines.append("%s == %s" % (n, _tla(v)))
    lines.append("====")
    path = os.path.join(directory, name + ".tla")
    with open(path, "w") as f:
        f.write("\n".join(lines) + "\n")
    return path


def read_cfg(name, **subst):
    with open(os.path.join(tlc.SPEC, "mc", name)) as f:
        text = f.read()
    for k, v in subst.items():
        text, n = re.subn(r"(?m)^(\s*%s\s*=\s*).*$" % re.escape(k), lambda m: m.group(1) + str(v), text)
        if n != 1:
            raise RuntimeError("cfg %s: constant %s not found" % (name, k))
    return text


# ------------------------------------------------------------------------- TLC output -> configurations
_STATE_SPLIT = re.compile(r"^State \d+:.*$", re.M)


def final_states(dump_path, done_stage):
    """Parse only the completed choices (stage = Done) of a -dump file; also count states per stage."""
    with open(dump_path) as f:
        text = f.read()
    per_stage = {}
    outs = []
    hdrs = list(_STATE_SPLIT.finditer(text))
    for j, h in enumerate(hdrs):
        block = text[h.end() : hdrs[j + 1].start() if j + 1 < len(hdrs) else len(text)]
        m = re.search(r"/\\ stage = (\d+)", block)
        st = int(m.group(1))
        per_stage[st] = per_stage.get(st, 0) + 1
        if st == done_stage:
            outs.append(tlaval.to_jsonable(tlaval.parse_state_block(block)["out"]))
    return outs, per_stage


def sim_finals(sim_dir, done_stage):
    """Last state of every -simulate behaviour file (this TLC writes `\\* <action>` comment lines between
    the STATE_n definitions and a ==== footer, which tlaval.iter_dump does not expect: strip them here)."""
    outs = []
    for p in sorted(glob.glob(os.path.join(sim_dir, "tr*"))):
        with open(p) as f:
            text = f.read()
        k = text.rfind("STATE_")
        if k < 0:
            continue
        block = text[text.index("\n", k) + 1 :]
        block = "\n".join(l for l in block.splitlines() if not l.startswith("\\*") and not l.startswith("===="))
        st = tlaval.parse_state_block(block)
        if st.get("stage") == done_stage:
            outs.append(tlaval.to_jsonable(st["out"]))
    return outs


# ------------------------------------------------------------------------------- concretise / project
def make_codec_features(cfg):
    from vc2_data_tables import Levels, Profiles, PictureCodingModes, WaveletFilters
    from vc2_conformance.codec_features import CodecFeatures
    from vc2_conformance.pseudocode.video_parameters import VideoParameters

    ft = cfg["ft"]
    vp = VideoParameters((k, cfg["vp"][k]) for k in VP_KEYS)
    ld = ft["profile"] == 0
    return CodecFeatures(
        name="verif",
        level=Levels(cfg["level"]),
        profile=Profiles(ft["profile"]),
        picture_coding_mode=PictureCodingModes(cfg["pcm"]),
        video_parameters=vp,
        wavelet_index=WaveletFilters(ft["wavelet_index"]),
        wavelet_index_ho=WaveletFilters(ft["wavelet_index"]),
        dwt_depth=ft["dwt_depth"],
        dwt_depth_ho=ft["dwt_depth_ho"],
        slices_x=ft["slices_x"],
        slices_y=ft["slices_y"],
        fragment_slice_count=0,
        lossless=not ld,
        picture_bytes=ft["picture_bytes"] if ld else None,
        quantization_matrix=None,
    )


_SIMPLE = [
    # abstract name, SourceParameters key, flag key, has index, value keys (order of SeqHeaderOps!Fields)
    ("fs", "frame_size", "custom_dimensions_flag", False, ["frame_width", "frame_height"]),
    ("cd", "color_diff_sampling_format", "custom_color_diff_format_flag", False, ["color_diff_format_index"]),
    ("sc", "scan_format", "custom_scan_format_flag", False, ["source_sampling"]),
    ("fr", "frame_rate", "custom_frame_rate_flag", True, ["frame_rate_numer", "frame_rate_denom"]),
    ("ar", "pixel_aspect_ratio", "custom_pixel_aspect_ratio_flag", True, ["pixel_aspect_ratio_numer", "pixel_aspect_ratio_denom"]),
    ("ca", "clean_area", "custom_clean_area_flag", False, ["clean_width", "clean_height", "left_offset", "top_offset"]),
    ("sr", "signal_range", "custom_signal_range_flag", True, ["luma_offset", "luma_excursion", "color_diff_offset", "color_diff_excursion"]),
]
_COLOR = [
    ("cp", "color_primaries", "custom_color_primaries_flag"),
    ("cm", "color_matrix", "custom_color_matrix_flag"),
    ("tf", "transfer_function", "custom_transfer_function_flag"),
]
ABSENT = {"f": -1, "i": -1, "v": []}


def project_header(sh):
    """SequenceHeader dictionary -> abstract encoding (which fields are present, with which values)."""
    sp = sh["video_parameters"]
    e = {}
    for name, key, flag, has_index, vals in _SIMPLE:
        d = sp[key]
        f = int(bool(d[flag]))
        o = {"f": f, "i": -1, "v": []}
        if f:
            if has_index:
                o["i"] = int(d["index"])
                if o["i"] == 0:
                    o["v"] = [int(d[k]) for k in vals]
            else:
                o["v"] = [int(d[k]) for k in vals]
        e[name] = o
    cs = sp["color_spec"]
    f = int(bool(cs["custom_color_spec_flag"]))
    e["cs"] = {"f": f, "i": int(cs["index"]) if f else -1, "v": []}
    for name, key, flag in _COLOR:
        if f and e["cs"]["i"] == 0:
            d = cs[key]
            ff = int(bool(d[flag]))
            e[name] = {"f": ff, "i": -1, "v": [int(d["index"])] if ff else []}
        else:
            e[name] = dict(ABSENT)
    return e


_OBS = {"installed": False, "rec": None}


def install_observer():
    """Observation without editing the code (DESIGN 3.3): the validator calls its sequence_header() through
    the module global vc2_conformance.decoder.stream.sequence_header; wrap it (add-only) to record whether
    the header was accepted (the function returned) and what it decoded."""
    if _OBS["installed"]:
        return
    import vc2_conformance.decoder.stream as stream

    orig = stream.sequence_header

    def observed_sequence_header(state):
        rec = _OBS["rec"]
        try:
            vp = orig(state)
        except Exception as ex:  # noqa -- recorded and re-raised unchanged
            if rec is not None and rec["calls"] == 0:
                rec.update(ok=False, exc=type(ex).__name__, key=str(getattr(ex, "key", "")), sig=common.exc_signature(ex), ver=int(state.get("major_version", -1)))
                rec["calls"] += 1
            raise
        if rec is not None and rec["calls"] == 0:
            rec.update(
                ok=True,
                dec=dict((k, (bool(vp[k]) if k == "top_field_first" else int(vp[k]))) for k in VP_KEYS),
                dpcm=int(state["picture_coding_mode"]),
                ver=int(state["major_version"]),
            )
            rec["calls"] += 1
        return vp

    stream.sequence_header = observed_sequence_header
    _OBS["installed"] = True


def serialise_header(sh, isolate):
    """[sequence_header, end_of_sequence] serialised with autofill -> bytes.  isolate: a deep copy of the header is
    serialised (autofill writes into the header it is given); otherwise the very object is (the in-order pass)."""
    import copy

    from vc2_data_tables import ParseCodes
    from vc2_conformance.bitstream import Stream, Sequence, DataUnit, ParseInfo, autofill_and_serialise_stream

    seq = Sequence(
        data_units=[
            DataUnit(parse_info=ParseInfo(parse_code=ParseCodes.sequence_header), sequence_header=copy.deepcopy(sh) if isolate else sh),
            DataUnit(parse_info=ParseInfo(parse_code=ParseCodes.end_of_sequence)),
        ]
    )
    f = io.BytesIO()
    autofill_and_serialise_stream(f, Stream(sequences=[seq]))
    return f.getvalue()


def validate_header(sh):
    """serialise [sequence_header, end_of_sequence] with autofill (isolated: a deep copy), run the real validator"""
    data = serialise_header(sh, True)
    r = validate_bytes(data)
    return r, data


def validate_bytes(data):
    """run the real validator (parse_stream) on a serialised [sequence_header, end_of_sequence] and
    observe its sequence_header step.  Accepted = the validator's sequence_header() returned; what the
    validator says about the rest of this artificial two-unit sequence (levels 64-66 demand a picture after
    every sequence header) is recorded as `after` but is not part of C15."""
    from vc2_conformance.pseudocode.state import State
    from vc2_conformance.decoder import init_io, parse_stream

    install_observer()
    f = io.BytesIO(data)
    st = State()
    init_io(st, f)
    r = {"ok": False, "exc": "NotReached", "key": "", "dec": {}, "dpcm": -1, "ver": -1, "after": "", "calls": 0}
    _OBS["rec"] = r
    try:
        parse_stream(st)
    except Exception as ex:  # noqa
        r["after"] = type(ex).__name__
        if r["calls"] == 0:  # rejected before the sequence header was reached
            r.update(exc=type(ex).__name__, sig=common.exc_signature(ex))
    finally:
        _OBS["rec"] = None
    if r["ok"]:
        r["exc"] = ""
    del r["calls"]
    return r


def thin(headers, tid):
    """quick tier: every header on the best-ranked base format and every header on ONE of the other base
    formats (rotating with the configuration number, so that all base formats are covered across the run)"""
    groups = []
    for i, sh in enumerate(headers):
        if groups and headers[groups[-1][0]]["base_video_format"] == sh["base_video_format"]:
            groups[-1].append(i)
        else:
            groups.append([i])
    keep = list(groups[0]) if groups else []
    if len(groups) > 1:
        keep += groups[1 + tid % (len(groups) - 1)]
    return keep


def exec_case(job):
    """One configuration -> one trace event (alternative headers with verdicts)."""
    tid, cfg, full = job
    from vc2_conformance.encoder.sequence_header import iter_sequence_headers

    ev = {"tid": tid, "ev": "cfg", "req": cfg["vp"], "pcm": cfg["pcm"], "level": cfg["level"], "ft": cfg["ft"], "full": bool(full), "hs": [], "gen_exc": "", "generated": 0}
    try:
        headers = list(iter_sequence_headers(make_codec_features(cfg)))
    except Exception as ex:  # noqa
        ev["gen_exc"] = common.exc_signature(ex)
        headers = []
    ev["generated"] = len(headers)
    kept = list(range(len(headers)) if full else thin(headers, tid))
    iso = []
    for i in kept:
        sh = headers[i]
        h = {"n": i, "b": int(sh["base_video_format"]), "e": project_header(sh)}
        r, data = validate_header(sh)
        h.update(r)
        iso.append(data)
        ev["hs"].append(h)
    # the in-order pass: the very objects the generator yielded, serialised one after the other in generation
    # order without copying them (as a user of iter_sequence_headers would); the heap is projected as `cell` =
    # position of the first recorded header whose parse-parameters object IS this header's.  Identical bytes are
    # not validated twice (the validator is a function of the bytes).
    cells = {}
    for pos, i in enumerate(kept):
        sh, h = headers[i], ev["hs"][pos]
        h["cell"] = cells.setdefault(id(sh.get("parse_parameters")), pos + 1)
        try:
            data = serialise_header(sh, False)
        except Exception as ex:  # noqa -- a yielded header that cannot be serialised as it is: not accepted
            h["same"], h["s"] = False, {"ok": False, "exc": "SerialiseError", "key": "", "dec": {}, "dpcm": -1, "ver": -1, "after": "", "sig": common.exc_signature(ex)}
            continue
        h["same"] = data == iso[pos]
        h["s"] = {"ok": True} if h["same"] else validate_bytes(data)
    return ev


# --------------------------------------------------------------------------------- trace validation
_BAD = re.compile(r'<<\s*"BAD",\s*"((?:[^"\\]|\\.)*)"\s*>>', re.S)


def validate_chunk(arg):
    """Like trace.validate but tolerant of TLC wrapping a long PrintT value over several lines."""
    import json

    module, records, cfg, extra = arg
    wd = tlc.mkscratch("trace")
    path = os.path.join(wd, "trace.ndjson")
    with open(path, "w") as f:
        for r in records:
            f.write(json.dumps(r, separators=(",", ":")))
            f.write("\n")
    res = tlc.run(module, cfg, workers=1, env={"TRACE_FILE": path}, timeout=3000, coverage=False, extra_files=extra, heap="3g")
    got = _BAD.findall(res.out)
    if not got:
        raise tlc.TLCError("trace spec %s printed no verdict line\n%s" % (module, res.out[-2000:]))
    bad = json.loads(tlaval.parse('"%s"' % got[-1]))
    if isinstance(bad, dict):
        bad = [bad[k] for k in sorted(bad, key=lambda x: int(x))]
    if res.distinct != len(records) + 1:
        raise tlc.TLCError("trace spec %s consumed %d of %d lines" % (module, res.distinct - 1, len(records)))
    return bad, res


def validate_parallel(module, records, cfg, extra, nchunks):
    """Split the log into chunks validated by concurrent TLC processes (each strictly sequential).
    `line` in the verdicts is made global again."""
    from concurrent.futures import ThreadPoolExecutor

    n = len(records)
    nchunks = max(1, min(nchunks, n // 50 or 1))
    size = (n + nchunks - 1) // nchunks
    chunks = [(i, records[i : i + size]) for i in range(0, n, size)]
    with ThreadPoolExecutor(len(chunks)) as ex:
        outs = list(ex.map(lambda c: validate_chunk((module, c[1], cfg, extra)), chunks))
    bad = []
    for (off, _), (b, _) in zip(chunks, outs):
        for x in b:
            x["line"] += off
            bad.append(x)
    return bad, [r for _, r in outs]


TRACE_CFG = "SPECIFICATION TraceSpec\nINVARIANT Report\nPOSTCONDITION AllConsumed\nCHECK_DEADLOCK FALSE\n"
DONE = 12


def first_diff(a, b):
    for k in VP_KEYS:
        if a.get(k) != b.get(k):
            return k
    return "?"


def judge(ctx, events, tables, nchunks, report=True):
    """TLC judges the recorded events; returns (alarms, disagreements by clause, tlc results)."""
    bad, ress = validate_parallel("SeqHeaderTrace", events, TRACE_CFG, [tables], nchunks)
    alarms = []
    dis = {}
    for b in bad:
        ev = events[b["line"] - 1]
        if not b["alarm"]:
            dis[b["clause"]] = dis.get(b["clause"], 0) + 1
            continue
        h = ev["hs"][b["h"] - 1]
        inorder = b["clause"].endswith("InOrder")
        if inorder:
            # the verdict on the bytes of the in-order pass (the header as yielded, serialised after its predecessors)
            h = dict(h["s"], b=h["b"], e=h["e"], n=h["n"])
            b = dict(b, clause=b["clause"][: -len("InOrder")])
        if b["clause"] in ("Rejected", "RejectedLevelVersion"):
            detail = "%s:%s" % (h["exc"], h["key"]) if h["key"] else h.get("sig", h["exc"])
            what = "level %d, base %d: validator rejected a generated sequence header with %s (%s); requested %s" % (ev["level"], h["b"], h["exc"], h["key"], ev["req"])
        elif b["clause"] == "WrongParameters":
            k = first_diff(ev["req"], h["dec"])
            detail = k
            what = "level %d, base %d: header decodes to %s=%r, requested %r; encoding %s" % (ev["level"], h["b"], k, h["dec"].get(k), ev["req"].get(k), h["e"])
        else:
            detail = "pcm"
            what = "decoded picture coding mode %r, requested %r" % (h["dpcm"], ev["pcm"])
        sig = "C15|%s|%s" % (b["clause"] + ("InOrder" if inorder else ""), detail)
        if inorder:
            what = "serialised as yielded, as header %d of its configuration after the recorded ones before it (no copies; parse-parameters cell %d, major_version %d): %s" % (h["n"], ev["hs"][b["h"] - 1]["cell"], h["ver"], what)
        if b["clause"] == "RejectedLevelVersion":
            sig += "|level%d" % ev["level"]
        alarms.append((sig, what, {"cfg": {"vp": ev["req"], "pcm": ev["pcm"], "level": ev["level"], "ft": ev["ft"]}, "header": b["h"]}))
    return alarms, dis, ress


# ------------------------------------------------------------------------------------------ self-tests
def selftest_binding(cfgs, tables, hazard):
    """(1) a broken encoder (in-process monkeypatch, restored) must raise the alarm through the same pipeline;
    (2) a corrupted recorded field must be rejected by the trace spec; (3) an encoder whose yielded headers share
    ONE parse-parameters object must be flagged by the in-order pass on configurations whose alternative headers
    need different versions (`hazard`), and the heap model must name the aliasing."""
    import vc2_conformance.encoder.sequence_header as enc

    victims = [c for c in cfgs if c["f"]["sc"] == 1 and c["level"] == 0][:6]
    if not victims:
        raise RuntimeError("binding self-test: no configuration with a changed scan format")
    orig = enc.iter_scan_format_options

    def broken(base_video_parameters, video_parameters, level_constraints_dict):
        yield enc.ScanFormat(custom_scan_format_flag=False)  # never codes the scan format

    enc.iter_scan_format_options = broken
    try:
        evs = [exec_case((i + 1, c, False)) for i, c in enumerate(victims)]
    finally:
        enc.iter_scan_format_options = orig
    bad, _ = validate_chunk(("SeqHeaderTrace", evs, TRACE_CFG, [tables]))
    hit1 = sum(1 for b in bad if b["alarm"] and b["clause"] == "WrongParameters")
    if hit1 == 0:
        raise RuntimeError("binding self-test failed: an encoder that never codes the scan format was not flagged")
    good = exec_case((1, victims[0], True))
    if not good["hs"] or not all(h["ok"] for h in good["hs"]):
        raise RuntimeError("binding self-test: reference configuration not accepted")
    import copy

    corrupt = copy.deepcopy(good)
    corrupt["hs"][0]["dec"]["clean_width"] += 1
    corrupt2 = copy.deepcopy(good)
    corrupt2["tid"] = 2
    corrupt2["hs"][-1]["e"]["fr"] = {"f": 1, "i": 2, "v": []}
    bad, _ = validate_chunk(("SeqHeaderTrace", [corrupt, corrupt2], TRACE_CFG, [tables]))
    c1 = [b for b in bad if b["line"] == 1 and b["h"] == 1 and b["clause"] == "WrongParameters" and b["alarm"]]
    c2 = [b for b in bad if b["line"] == 2 and b["clause"] in ("SpecDecode", "SpecOption") and not b["alarm"]]
    if not c1 or not c2:
        raise RuntimeError("trace binding self-test failed: corrupted fields accepted (%r)" % (bad,))
    orig_mpp = enc.make_parse_parameters
    one = []

    def aliased(codec_features):
        if not one:
            one.append(orig_mpp(codec_features))
        return one[0]

    enc.make_parse_parameters = aliased
    try:
        evs = []
        for i, c in enumerate(hazard[:3]):
            del one[:]
            evs.append(exec_case((i + 1, c, True)))
    finally:
        enc.make_parse_parameters = orig_mpp
    bad, _ = validate_chunk(("SeqHeaderTrace", evs, TRACE_CFG, [tables]))
    hit3 = sum(1 for b in bad if b["alarm"] and b["clause"] == "RejectedInOrder")
    named = sum(1 for b in bad if not b["alarm"] and b["clause"] == "SpecAliasedParseParameters")
    unexplained = sum(1 for b in bad if b["clause"] == "SpecInOrderVersion")
    if hit3 == 0 or named == 0 or unexplained:
        raise RuntimeError("binding self-test failed: headers sharing one parse-parameters object: %d flagged, %d named by the heap model, %d versions not predicted by it" % (hit3, named, unexplained))
    return {"mutant": "iter_scan_format_options never codes the scan format (in-process, restored)", "headers_flagging_it": hit1,
            "aliasing_mutant": "make_parse_parameters returns one shared object per configuration (in-process, restored): %d in-order headers flagged RejectedInOrder, %d named SpecAliasedParseParameters, every stale version predicted by SeqHeaderOps!SerialiseInOrder" % (hit3, named), "corrupted_fields": "decoded clean_width+1 -> WrongParameters (alarm); recorded frame-rate option changed -> %s (logged)" % c2[0]["clause"]}


# ------------------------------------------------------------------------------------------------ run
def _cpu():
    t = os.times()
    return t.user + t.system + t.children_user + t.children_system


def run(ctx):
    import random

    cpu0 = _cpu()
    phases = {}

    def phase(name):
        phases[name] = round(_cpu() - cpu0 - sum(phases.values()), 1)

    scratch = tlc.mkscratch("gen")
    tables = gen_tables(scratch)
    mp = ctx.pick(1, 2)
    cache = os.environ.get("VERIF_C15_MODEL_CACHE")  # development aid for mutation runs: reuse the TLC output
    cpath = os.path.join(cache, "c15_%s_%d.json" % (ctx.tier, ctx.seed)) if cache else None
    cached = None
    if cpath and os.path.exists(cpath):
        import json

        with open(cpath) as f:
            cached = json.load(f)
    if cached is None:
        res = tlc.run("SeqHeaderFormats", read_cfg("SeqHeaderFormats.cfg", MaxPerturb=mp), dump=True, coverage=False, extra_files=[tables], timeout=3000)
        cfgs, per_stage = final_states(res.dump_path, DONE)
    else:
        res = tlc.TLCResult()
        res.generated, res.distinct, res.depth, res.cmd = cached["generated"], cached["distinct"], cached["depth"], cached["cmd"] + " [cached model output]"
        cfgs, per_stage = cached["cfgs"], dict((int(k), v) for k, v in cached["per_stage"].items())
    phase("tlc_exhaustive")
    dims = ["Init", "ChooseBase", "ChooseSz", "ChooseCd", "ChooseSc", "ChooseFr", "ChooseAr", "ChooseCa", "ChooseSr", "ChooseCo", "ChoosePcm", "ChooseCfg"]
    res.coverage = dict((dims[s - 1], [n, n]) for s, n in sorted(per_stage.items()) if s >= 2)  # states produced per action (counted from the dump)
    ctx.add_tlc(res, "exhaustive format machine", {"MaxPerturb": mp, "RealLevels": True, "bases": 23})
    if len(cfgs) != per_stage.get(DONE):
        raise RuntimeError("dump parse lost configurations")
    # the design-level deviation (known finding) must be reachable in the model, otherwise the named deviation is dead
    dev = None if ctx.quick else tlc.run("SeqHeaderFormats", read_cfg("SeqHeaderFormats.cfg", MaxPerturb=0) + "INVARIANT NoLevelVersionDeviation\n", coverage=False, extra_files=[tables], allow_invariant_violation=True, timeout=600)
    if dev is not None:
        ctx.add_tlc(dev, "deviation reachability (MaxPerturb=0, invariant NoLevelVersionDeviation expected to fail on the real table)", {"MaxPerturb": 0})
    # likewise the aliasing deviation: the model must contain configurations whose headers, serialised in order out of
    # ONE shared parse-parameters cell, would not all carry their own minimal version
    haz = None if ctx.quick else tlc.run("SeqHeaderFormats", read_cfg("SeqHeaderFormats.cfg", MaxPerturb=0) + "INVARIANT NoAliasingHazard\n", coverage=False, extra_files=[tables], allow_invariant_violation=True, timeout=600)
    if haz is not None:
        ctx.add_tlc(haz, "aliasing hazard reachability (MaxPerturb=0, invariant NoAliasingHazard expected to fail)", {"MaxPerturb": 0})
        if haz.invariant_violated != "NoAliasingHazard":
            raise RuntimeError("vacuous: the model has no configuration whose headers need different versions (NoAliasingHazard holds)")
    rnd = random.Random(ctx.seed)
    singles = [c for c in cfgs if sum(1 for k, v in c["f"].items() if k not in ("base", "pcm") and v) <= 1]
    doubles = [c for c in cfgs if c not in singles] if mp > 1 else []
    if doubles:
        rnd.shuffle(doubles)
        doubles = doubles[:6000]
    nsim = ctx.pick(150, 3000)
    if cached is None:
        # random walks far outside the exhaustive box (up to 8 deviating groups); level 0 only (RealLevels = FALSE)
        sim = tlc.run("SeqHeaderFormats", read_cfg("SeqHeaderFormats.cfg", MaxPerturb=8, RealLevels="FALSE"), simulate=nsim, depth=DONE + 1, seed=ctx.seed, workers=1, coverage=False, extra_files=[tables], timeout=3000)
        walks = sim_finals(sim.sim_dir, DONE)
        if cpath:
            import json

            with open(cpath, "w") as f:
                json.dump({"generated": res.generated, "distinct": res.distinct, "depth": res.depth, "cmd": res.cmd, "cfgs": cfgs, "per_stage": per_stage, "walks": walks}, f)
    else:
        walks = cached["walks"]
    if len(walks) < nsim // 2:
        raise RuntimeError("simulation produced only %d complete configurations" % len(walks))
    phase("tlc_deviation_and_simulate")
    todo = singles + doubles + walks
    frac = ctx.pick(0.08, 0.5)
    jobs = [(i + 1, c, rnd.random() < frac) for i, c in enumerate(todo)]
    events = common.pmap(exec_case, jobs)
    phase("implementation")  # NB: CPU of pool workers is only accounted when the pool is joined
    alarms, dis, ress = judge(ctx, events, tables, ctx.pick(8, 14))
    phase("trace_validation")
    for r in ress:
        ctx.tlc_runs.append(dict(r.summary(), name="trace validation chunk (SeqHeaderTrace)"))
    ctx.coverage["states"] += sum(r.distinct for r in ress)
    ctx.coverage["transitions"] += sum(r.generated for r in ress)
    for sig, what, case in alarms:
        ctx.violation(sig, what, case)
    nh = sum(len(e["hs"]) for e in events)
    nok = sum(1 for e in events for h in e["hs"] if h["ok"])
    if nok == 0 or nh == 0:
        raise RuntimeError("vacuous: no header was generated and accepted")
    empty = sum(1 for e in events if not e["hs"])
    genexc = sorted(set(e["gen_exc"] for e in events if e["gen_exc"]))
    # configurations one of whose recorded alternative headers needs a HIGHER version than the first one generated:
    # only there can a version left behind by an earlier serialisation (aliased parse parameters) get a header
    # rejected (a version that is too high is only noticed at the end of the sequence, which is not part of C15)
    hazard = [c for c, e in zip(todo, events) if e["hs"] and e["hs"][0]["ok"] and any(h["ok"] and h["ver"] > e["hs"][0]["ver"] for h in e["hs"])]
    if not hazard:
        raise RuntimeError("vacuous: no configuration with an alternative header needing a higher major version than the first")
    try:
        st = selftest_binding(cfgs, tables, hazard)
    except RuntimeError as ex:
        # on a tree that already falsifies the property the in-process mutants sit on top of a defective encoder;
        # the fresh violations of this run are then the evidence that the pipeline flags a broken encoder
        if not any("|RejectedLevelVersion|" not in sig for sig, _, _ in alarms):
            raise
        st = {"not_completed": str(ex), "note": "this run reports violations (the binding flags this tree); the in-process mutants were applied on top of it"}
    phase("selftest")
    distinct = len(set(repr((e["req"], e["pcm"], e["level"], h["b"], h["e"])) for e in events for h in e["hs"] if h["e"] != events[0]["hs"][0]["e"] or True))
    nontrivial = len(set(repr((e["req"], e["pcm"], e["level"], h["b"], h["e"])) for e in events for h in e["hs"] if any(h["e"][g]["f"] == 1 for g in h["e"])))
    ctx.coverage.update(
        {
            "traces_validated_against_impl": len(events),
            "evaluations": nh,
            "distinct_nontrivial": nontrivial,
            "rule": "quick tier: of the headers of a configuration all those on the best-ranked base format and all those on one other base format (rotating) are validated (all of them for the seeded 'fully cross-checked' configurations; thorough: for half); one evaluation = one generated sequence header serialised (in isolation AND as yielded, in generation order after its predecessors, without a copy), validated by the real validator (identical bytes once) and judged by SeqHeaderTrace; configurations = completed choices of SeqHeaderFormats.tla (all with <= 1 deviating group%s, plus %d simulate walks with up to 8 deviating groups); distinct = (requested format, coding mode, level, base format, encoding); non-trivial = the encoding sets at least one custom flag" % (", a seeded sample of those with 2" if mp > 1 else "", len(walks)),
            "exhaustive": True,
            "exhaustive_note": "the TLC model is explored completely for MaxPerturb=%d; all its configurations with <= 1 deviating group are executed against the implementation%s" % (mp, "; of those with 2 a seeded sample of %d" % len(doubles) if mp > 1 else ""),
            "configurations": {"single": len(singles), "double": len(doubles), "walks": len(walks)},
            "headers_generated": sum(e["generated"] for e in events),
            "headers_validated": nh,
            "in_order_pass": {
                "headers_serialised_as_yielded_in_generation_order": nh,
                "bytes_differ_from_isolated": sum(1 for e in events for h in e["hs"] if not h["same"]),
                "configurations_with_a_later_header_needing_a_higher_version_than_the_first": len(hazard),
                "aliased_parse_parameter_cells": sum(1 for e in events for j, h in enumerate(e["hs"]) if h["cell"] != j + 1),
            },
            "cpu_seconds_by_phase": phases,
            "headers_accepted": nok,
            "distinct_headers": distinct,
            "configurations_without_header": empty,
            "encoder_exceptions": genexc,
            "levels_exercised": sorted(set(e["level"] for e in events if e["hs"])),
            "bases_used_by_headers": sorted(set(h["b"] for e in events for h in e["hs"])),
            "fully_cross_checked_configurations": sum(1 for j in jobs if j[2]),
            "spec_disagreements": sum(dis.values()),
            "spec_disagreements_by_clause": dis,
            "model_deviation_reachable": (dev.invariant_violated == "NoLevelVersionDeviation") if dev is not None else "not run in the quick tier",
            "model_aliasing_hazard_reachable": (haz.invariant_violated == "NoAliasingHazard") if haz is not None else "not run in the quick tier (measured instead: in_order_pass.configurations_with_a_later_header_needing_a_higher_version_than_the_first)",
            "binding_selftest": st,
            "samples": [
                {"requested": events[i]["req"], "pcm": events[i]["pcm"], "level": events[i]["level"], "headers": len(events[i]["hs"]), "first_header": events[i]["hs"][0] if events[i]["hs"] else None}
                for i in (0, len(events) // 3, len(events) - 1)
            ],
        }
    )
    ctx.assumptions += [
        "formats are regular (SeqHeaderOps!Regular: dimensions divisible by the subsampling / field factors, clean area inside the frame)",
        "the header is validated as the two-unit sequence [sequence_header, end_of_sequence] serialised with autofill (major_version AUTO)",
        "in-order pass: the recorded headers of a configuration (quick tier: a subset, see rule) are serialised as yielded one after the other in generation order; when the bytes equal those of the isolated serialisation the validator is not run again",
        "for a real level the non-video codec features are the smallest values its table column allows (SeqHeaderFormats!Feat)",
        "TLC -coverage is not used (it does not terminate on the generated tables module); per-action counts are the number of dumped states per stage",
    ]


def replay(case):
    scratch = tlc.mkscratch("gen")
    tables = gen_tables(scratch)
    ev = exec_case((1, case["cfg"], True))
    bad, _ = validate_chunk(("SeqHeaderTrace", [ev], TRACE_CFG, [tables]))
    return {"violations": [b for b in bad if b["alarm"]], "disagreements": [b for b in bad if not b["alarm"]], "headers": [{"b": h["b"], "ok": h["ok"], "exc": h["exc"], "key": h["key"], "e": h["e"]} for h in ev["hs"]]}
