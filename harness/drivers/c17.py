"""C17 -- constraint-table queries follow set semantics.

Specs: spec/ValueSets.tla (value-set histories on two objects), spec/ConstraintTable.tla (tables built
column by column and queried one value at a time like the validator does), spec/ConstraintCsv.tla (rows
of abstract cells read into a table), pure operators in ValueSetsOps.tla / ConstraintTableOps.tla.

Binding G: TLC explores each model exhaustively (VIEW = abstract transition, -dump = one shortest
history per transition + the spec's expected observation `obs`); every history is replayed on the real
ValueSet / AnyValue / filter_constraint_table / is_allowed_combination / allowed_values_for /
decoder.assertions.assert_level_constraint / read_constraints_from_csv and the observation compared.
Binding T: random large value sets, tables + assignment sequences and CSV grids are run through the real
code, recorded, and judged line by line by TLC (spec/ConstraintTrace.tla).

Python only concretises (abstract op -> call, abstract cell -> CSV text), projects (membership over a
probe universe, exception class, index of kept columns) and compares.
"""
import csv
import glob
import io
import os
import random
import re
import zlib

from .. import common, tlc, tlaval

WIDE_VS = None  # derived from the spec's obs (ma/mb are subsets of Wide); probes = -2..N+1
REGS = ("A", "B")

# --------------------------------------------------------------------------------------- helpers
_RE_COV = re.compile(r"^<([A-Za-z_][A-Za-z0-9_]*) line \d+, col \d+ to line \d+, col \d+ of module ([A-Za-z0-9_]+)(?: \([\d ]+\))?>: (\d+):(\d+)", re.M)


def fix_coverage(res):
    """tlc.py's coverage regex does not match this TLC's action lines ('... of module M (l c l c)>: a:b')."""
    cov = {}
    for m in _RE_COV.finditer(res.out):
        a, b = int(m.group(3)), int(m.group(4))
        # TLC repeats the report every minute and at the end: keep the latest (largest) figures
        if m.group(1) in cov:
            a = max(a, cov[m.group(1)][0])
            b = max(b, cov[m.group(1)][1])
        cov[m.group(1)] = [a, b]
    res.coverage = cov
    return res


def guard(ctx, cond, msg):
    """Vacuity / self-test guard: a machinery failure (exit 2) -- unless the run already found violations, in
    which case the broken code under test may be what prevents the demonstration; then it is only recorded."""
    if cond:
        return
    if ctx.violations:
        ctx.coverage.setdefault("guards_not_demonstrable", []).append(msg)
        return
    raise RuntimeError(msg)


def require_actions(res, names):
    for n in names:
        if res.coverage.get(n, [0, 0])[0] == 0:
            raise RuntimeError("vacuity: action %s of %s was never taken (coverage %r)" % (n, res.cmd, res.coverage))


def cfg_text(name, **repl):
    with open(os.path.join(tlc.SPEC, "mc", name)) as f:
        t = f.read()
    for k, v in repl.items():
        t, n = re.subn(r"(?m)^(\s*%s\s*(?:=|<-)\s*).*$" % re.escape(k), lambda m: m.group(1) + str(v), t)
        if n != 1:
            raise RuntimeError("constant %s not found in %s" % (k, name))
    return t


_STATE_HDR = re.compile(r"^State \d+:.*$|^STATE_\d+ ==.*$", re.M)


def dump_blocks(path):
    with open(path) as f:
        text = f.read()
    hdrs = list(_STATE_HDR.finditer(text))
    out = []
    for j, h in enumerate(hdrs):
        end = hdrs[j + 1].start() if j + 1 < len(hdrs) else len(text)
        out.append(text[h.end() : end])
    return out


def J(x):
    return tlaval.to_jsonable(x)


def parse_vars(block, names):
    """Like tlaval.parse_state_block but only the named variables are parsed (the dumped states also carry the
    heap, the pre-state and the ghost denotations, which the driver does not read)."""
    st = {}
    ms = list(tlaval._VAR.finditer(block))
    for j, m in enumerate(ms):
        if m.group(1) in names:
            end = ms[j + 1].start() if j + 1 < len(ms) else len(block)
            st[m.group(1)] = tlaval.parse(block[m.end() : end])
    if len(st) != len(names):
        raise RuntimeError("dumped state lacks variables %r: %r" % (sorted(set(names) - set(st)), block[:200]))
    return st


# ------------------------------------------------------------------------ G: ValueSets histories
def _item_arg(it):
    return it[1] if it[0] == "v" else (it[1], it[2])


def vs_concretise(hist):
    """Replay a history of abstract operations on real objects named by two variables; returns (A, B).
    The variables hold references exactly as in the spec: add_* mutate the named object in place, union / any /
    new rebind the variable to whatever the library returns."""
    from vc2_conformance.constraint_table import ValueSet, AnyValue

    regs = {"A": None, "B": None}
    for o in hist:
        r = o["reg"]
        op = o["op"]
        if regs[r] is None and op in ("add_value", "add_range") and (len(hist) + o.get("v", o.get("lo", 0))) % 2 == 0:
            # first operation on the initial (empty) object: sometimes through the constructor
            regs[r] = ValueSet(o["v"]) if op == "add_value" else ValueSet((o["lo"], o["hi"]))
            continue
        if regs[r] is None:
            regs[r] = ValueSet()
        if op == "add_value":
            regs[r].add_value(o["v"])
        elif op == "add_range":
            regs[r].add_range(o["lo"], o["hi"])
        elif op == "union":
            for x in (o["l"], o["r"]):
                if regs[x] is None:
                    regs[x] = ValueSet()
            regs[r] = regs[o["l"]] + regs[o["r"]]
        elif op == "any":
            regs[r] = AnyValue()
        elif op == "new":
            regs[r] = ValueSet(*[_item_arg(it) for it in o["items"]])
        else:
            raise RuntimeError("unknown abstract operation %r" % (o,))
    for r in REGS:
        if regs[r] is None:
            regs[r] = ValueSet()
    return regs["A"], regs["B"]


def vs_observe(a, b, lo, hi):
    from vc2_conformance.constraint_table import AnyValue

    probes = range(lo, hi + 1)
    ob = {
        "ma": sorted(u for u in probes if u in a),
        "mb": sorted(u for u in probes if u in b),
        "dab": bool(a.is_disjoint(b)),
        "dba": bool(b.is_disjoint(a)),
        "anya": isinstance(a, AnyValue),
        "anyb": isinstance(b, AnyValue),
        # object identity: the very same object, or distinct objects sharing a mutable part
        "same": a is b,
        "shared_parts": a is not b and any(getattr(a, f, None) is not None and getattr(a, f, None) is getattr(b, f, None) for f in ("_values", "_ranges")),
    }
    for nm, x in (("a", a), ("b", b)):
        vals = getattr(x, "_values", None)
        rngs = getattr(x, "_ranges", None)
        ob["v" + nm] = sorted(vals) if vals is not None and not isinstance(x, AnyValue) else []
        ob["r" + nm] = sorted(list(g) for g in rngs) if rngs is not None and not isinstance(x, AnyValue) else []
        if isinstance(x, AnyValue):
            ob["it" + nm] = None
        else:
            ob["it" + nm] = sorted(x.iter_values())
    return ob


def vs_exec(case):
    """case = {hist, obs, n}: returns dict(violations=[(sig, what)], disagreements=int)."""
    hist, obs, n = case["hist"], case["obs"], case["n"]
    viol = []
    dis = 0
    last = hist[-1]["op"] if hist else "init"
    try:
        a, b = vs_concretise(hist)
        got = vs_observe(a, b, -2, n + 1)
    except Exception as e:  # noqa
        return {"violations": [("C17|valueset-exception|%s|%s" % (last, common.exc_signature(e)), "history %s raised %r" % (hist, e))], "disagreements": 0}
    want_ma, want_mb = sorted(obs["ma"]), sorted(obs["mb"])
    if got["ma"] != want_ma or got["mb"] != want_mb:
        viol.append(
            (
                "C17|valueset-contains|" + last,
                "after %s the sets contain A=%s B=%s within -2..%d, the union of the listed values and ranges is A=%s B=%s" % (hist, got["ma"], got["mb"], n + 1, want_ma, want_mb),
            )
        )
    if got["dab"] != obs["dj"] or got["dba"] != obs["dj"]:
        viol.append(
            (
                "C17|valueset-disjoint|" + last,
                "after %s: A.is_disjoint(B)=%s, B.is_disjoint(A)=%s but A=%s B=%s (disjoint: %s)" % (hist, got["dab"], got["dba"], want_ma, want_mb, obs["dj"]),
            )
        )
    # spec-only predictions (R1: never an alarm)
    if got["anya"] != obs["anya"] or got["anyb"] != obs["anyb"]:
        dis += 1
    if got["same"] != obs["same"] or got["shared_parts"]:
        # the spec says every union / wildcard / constructor result is a fresh object; sharing as such is not
        # the property (it becomes an alarm when a later addition shows up in the wrong set)
        dis += 1
    if got["va"] != sorted(obs["va"]) or got["vb"] != sorted(obs["vb"]) or got["ra"] != sorted(list(g) for g in obs["ra"]) or got["rb"] != sorted(list(g) for g in obs["rb"]):
        dis += 1
    inner = [u for u in range(0, n)]
    for nm, m in (("a", want_ma), ("b", want_mb)):
        if got["it" + nm] is not None and got["it" + nm] != [u for u in m if u in inner]:
            dis += 1
    return {"violations": viol, "disagreements": dis}


def vs_block(arg):
    block, n = arg
    st = parse_vars(block, ("hist", "obs"))
    if not st["hist"]:
        return None
    case = {"hist": J(st["hist"]), "obs": J(st["obs"]), "n": n}
    r = vs_exec(case)
    r["case"] = case if r["violations"] else None
    r["len"] = len(case["hist"])
    r["sample"] = case
    r["last"] = case["hist"][-1]["op"]
    return r


# ------------------------------------------------------------------ G: ConstraintTable histories
def cell_concretise(den, salt):
    from vc2_conformance.constraint_table import ValueSet, AnyValue

    if den["any"]:
        return AnyValue()
    s = sorted(den["s"])
    if len(s) >= 2 and s[-1] - s[0] == len(s) - 1 and salt % 2 == 0:
        return ValueSet((s[0], s[-1]))
    if salt % 3 == 0:
        s = s[::-1]
    return ValueSet(*s)


def tab_concretise(cols):
    table = []
    for ci, col in enumerate(cols):
        d = {}
        if col:  # the empty function is parsed as ()
            for ki, k in enumerate(sorted(col)):
                d[k] = cell_concretise(col[k], ci + 2 * ki + len(cols))
        table.append(d)
    return table


def tab_exec(case):
    from vc2_conformance import constraint_table as ct
    from vc2_conformance.decoder import assertions
    from vc2_conformance.decoder.exceptions import ValueNotAllowedInLevel
    from vc2_conformance.pseudocode.state import State

    hist, obs = case["hist"], case["obs"]
    cols = [o["c"] for o in hist if o["op"] == "col"]
    checks = [o for o in hist if o["op"] == "check"]
    viol = []
    dis = 0
    if not checks:
        return {"violations": [], "disagreements": 0, "checked": False}
    if hist[-1]["op"] == "touch":
        return tab_touch_exec(hist, obs, cols, checks)
    saved = assertions.LEVEL_CONSTRAINTS
    try:
        table = tab_concretise(cols)
        assertions.LEVEL_CONSTRAINTS = table
        state = State()
        accs = []
        for o in checks[:-1]:
            try:
                assertions.assert_level_constraint(state, o["k"], o["v"])
                accs.append(True)
            except ValueNotAllowedInLevel:
                accs.append(False)
        pre = dict(state.get("_level_constrained_values", {}))
        k, v = checks[-1]["k"], checks[-1]["v"]
        ext = dict(pre)
        ext[k] = v
        allowed = ct.allowed_values_for(table, k, dict(pre))
        inav = v in allowed
        comb = ct.is_allowed_combination(table, dict(ext))
        kept = ct.filter_constraint_table(table, dict(ext))
        filt = sorted(i + 1 for i, c in enumerate(table) if any(c is x for x in kept))
        try:
            assertions.assert_level_constraint(state, k, v)
            acc = True
        except ValueNotAllowedInLevel:
            acc = False
        post = dict(state.get("_level_constrained_values", {}))
        isany = isinstance(allowed, ct.AnyValue)
        allowed_in = sorted(u for u in range(-1, 4) if u in allowed)
    except Exception as e:  # noqa
        return {"violations": [("C17|table-exception|%s" % common.exc_signature(e), "history %s raised %r" % (hist, e))], "disagreements": 0, "checked": True}
    finally:
        assertions.LEVEL_CONSTRAINTS = saved
    judged = obs["nocatch"] and k not in pre
    desc = "table %s, chosen %s, key %s value %s" % ([dict((kk, str(vv)) for kk, vv in c.items()) for c in table], pre, k, v)
    if judged:
        if inav != comb:
            viol.append(("C17|table-equivalence", "%s: value in allowed_values_for = %s but is_allowed_combination of the extended values = %s" % (desc, inav, comb)))
        if comb != obs["comb"]:
            viol.append(("C17|table-allowed-combination", "%s: is_allowed_combination = %s, some column contains the combination: %s" % (desc, comb, obs["comb"])))
        if obs["fresh"] and acc != obs["acc"]:
            viol.append(("C17|table-incremental", "%s: one-at-a-time check accepted = %s, every prefix allowed = %s" % (desc, acc, obs["acc"])))
        if acc and post != ext:
            viol.append(("C17|table-incremental-state", "%s: accepted value not recorded: %s" % (desc, post)))
    else:
        if inav != obs["acc"] or comb != obs["comb"] or acc != obs["acc"]:
            dis += 1
    if allowed_in != sorted(obs["allowed"]) or isany != obs["any"] or filt != sorted(obs["filt"]):
        dis += 1
    return {"violations": viol, "disagreements": dis, "checked": True, "judged": bool(judged)}


def tab_touch_exec(hist, obs, cols, checks):
    """Last step = the caller adds a value to the set handed out by the last allowed_values_for query: the spec
    says the addition shows in that set and every cell of the table still holds what it listed."""
    from vc2_conformance import constraint_table as ct
    from vc2_conformance.decoder import assertions
    from vc2_conformance.decoder.exceptions import ValueNotAllowedInLevel
    from vc2_conformance.pseudocode.state import State

    t = hist[-1]
    saved = assertions.LEVEL_CONSTRAINTS
    try:
        table = tab_concretise(cols)
        assertions.LEVEL_CONSTRAINTS = table
        state = State()
        for o in checks[:-1]:
            try:
                assertions.assert_level_constraint(state, o["k"], o["v"])
            except ValueNotAllowedInLevel:
                pass
        chosen = dict(state.get("_level_constrained_values", {}))
        handed = ct.allowed_values_for(table, t["k"], dict(chosen))
        handed.add_value(t["w"])
        got_tab = project_table(table, -1, 3)
        got_ret = sorted(u for u in range(-1, 4) if u in handed)
        got_any = isinstance(handed, ct.AnyValue)
        same_obj = any(handed is c for col in table for c in col.values())
    except Exception as e:  # noqa
        return {"violations": [("C17|table-exception|%s" % common.exc_signature(e), "history %s raised %r" % (hist, e))], "disagreements": 0, "checked": True}
    finally:
        assertions.LEVEL_CONSTRAINTS = saved
    viol = []
    dis = 0
    if chosen != (t["chosen"] or {}):
        dis += 1
    want_tab = [dict((k, {"any": c["any"], "m": sorted(c["m"])}) for k, c in (col or {}).items()) for col in obs["tab"]]
    desc = "table %s, chosen %s: allowed_values_for(key %s) handed out a set, the caller added %s to it" % ([dict((kk, str(vv)) for kk, vv in c.items()) for c in tab_concretise(cols)], chosen, t["k"], t["w"])
    if got_tab != want_tab:
        viol.append(("C17|valueset-contains|table-cell-after-result-add", "%s; the table's cells now contain %s, they list %s" % (desc, got_tab, want_tab)))
    if got_ret != sorted(obs["ret"]):
        viol.append(("C17|valueset-contains|allowed-values-result-add", "%s; the set now contains %s within -1..3, allowed values plus the added one are %s" % (desc, got_ret, sorted(obs["ret"]))))
    if got_any != obs["retany"] or same_obj:
        dis += 1
    return {"violations": viol, "disagreements": dis, "checked": True, "judged": False, "touch": True}


def tab_block(block):
    st = parse_vars(block, ("hist", "obs"))
    if not st["hist"]:
        return None
    case = {"hist": J(st["hist"]), "obs": J(st["obs"])}
    r = tab_exec(case)
    r["case"] = case if r["violations"] else None
    r["sample"] = case
    r["len"] = len(case["hist"])
    r["last"] = case["hist"][-1]["op"]
    r["acc"] = case["obs"].get("acc")
    return r


# ------------------------------------------------------------------------ G: ConstraintCsv rows
DITTO = ['"', "“", "”", "'", "`", ' " ']
ANY = ["any", "ANY", "Any", " any "]
TRUE = ["TRUE", "true", "True"]
FALSE = ["FALSE", "false", "False"]


def render_cell(c, salt):
    t = c["t"]
    if t == "empty":
        return ""
    if t == "any":
        return ANY[salt % len(ANY)]
    if t == "ditto":
        return DITTO[salt % len(DITTO)]
    parts = []
    for j, it in enumerate(c["items"]):
        kind, lo, hi = it[0], it[1], it[2]
        if kind == "v":
            parts.append(str(lo))
        elif kind == "b":
            parts.append((TRUE if lo else FALSE)[(salt + j) % 3])
        else:
            parts.append("%d-%d" % (lo, hi))
    return (", " if salt % 2 else ",").join(parts)


def render_rows(rows):
    """abstract rows -> CSV text (written with the standard csv module, which is not under test)"""
    buf = io.StringIO()
    w = csv.writer(buf, lineterminator="\n")
    for ri, r in enumerate(rows):
        salt = zlib.crc32(repr((ri, J(r))).encode()) & 0xFFFF
        if r["kind"] == "touch":
            continue
        if r["kind"] == "data":
            w.writerow([r["key"]] + [render_cell(c, salt + 7 * i) for i, c in enumerate(r["cells"])])
        elif r["kind"] == "comment":
            n = r["n"]
            if n == 0:
                buf.write("# a comment\n")
            else:
                w.writerow(["# a comment"] + [("#x" if (salt + i) % 2 else "") for i in range(n)])
        else:
            n = r["n"]
            if n == 0:
                buf.write("\n")
            else:
                w.writerow([""] + [(" " if (salt + i) % 2 else "") for i in range(n)])
    return buf.getvalue()


_TMPDIR = None


def tmp_csv(text):
    global _TMPDIR
    if _TMPDIR is None or _TMPDIR[0] != os.getpid():
        _TMPDIR = (os.getpid(), tlc.mkscratch("csv"))
    p = os.path.join(_TMPDIR[1], "t%d.csv" % os.getpid())
    with open(p, "w", encoding="utf-8") as f:
        f.write(text)
    return p


def project_table(table, lo, hi):
    from vc2_conformance.constraint_table import AnyValue

    out = []
    for col in table:
        out.append(dict((k, {"any": isinstance(vs, AnyValue), "m": sorted(u for u in range(lo, hi + 1) if u in vs)}) for k, vs in col.items()))
    return out


def csv_exec(case):
    from vc2_conformance.constraint_table import read_constraints_from_csv

    rows, obs = case["hist"], case["obs"]
    text = render_rows(rows)
    touch = rows[-1] if rows and rows[-1]["kind"] == "touch" else None
    try:
        table = read_constraints_from_csv(tmp_csv(text))
        if touch is not None:
            # the caller adds a value to one cell of the table it was handed
            table[touch["i"] - 1][touch["key"]].add_value(touch["w"])
        got = project_table(table, -1, 4)
    except Exception as e:  # noqa
        return {"violations": [("C17|csv-exception|%s" % common.exc_signature(e), "CSV %r raised %r" % (text, e))], "disagreements": 0}
    want = [dict((k, {"any": c["any"], "m": sorted(c["m"])}) for k, c in (col or {}).items()) for col in obs]
    if got != want:
        if touch is not None:
            return {"violations": [("C17|csv-cells|touch", "CSV %r was read, then %d was added to the cell of key %s in column %d: the table now holds %s, the file plus that addition denote %s" % (text, touch["w"], touch["key"], touch["i"], got, want))], "disagreements": 0}
        return {"violations": [("C17|csv-cells|" + (rows[-1]["kind"] if rows else "none"), "CSV %r read as %s, written cells denote %s" % (text, got, want))], "disagreements": 0}
    cells = [c for col in table for c in col.values()]
    shared = sum(1 for i, c in enumerate(cells) for d in cells[:i] if c is d and not type(c).__name__ == "AnyValue")
    return {"violations": [], "disagreements": 1 if shared else 0}


def csv_block(block):
    st = parse_vars(block, ("hist", "obs", "nread"))
    if st["nread"] == 0:
        return None
    case = {"hist": J(st["hist"]), "obs": J(st["obs"])}
    r = csv_exec(case)
    r["case"] = case if r["violations"] else None
    r["sample"] = case
    r["len"] = st["nread"]
    r["last"] = case["hist"][-1]["kind"]
    return r


# ----------------------------------------------------------------------------------- T direction
def rand_items(rnd, top, nmax):
    items = []
    for _ in range(rnd.randrange(nmax + 1)):
        if rnd.random() < 0.45:
            x = rnd.randrange(top)
            items.append(["v", x, x])
        else:
            lo = rnd.randrange(top)
            hi = min(top - 1, lo + rnd.choice([0, 0, 1, 2, 3, 5, 9]))
            items.append(["r", lo, hi])
    return items


def build_vs(rnd, items):
    """real ValueSet from an item list through a random mixture of constructor, add_* and +"""
    from vc2_conformance.constraint_table import ValueSet

    def arg(it):
        return it[1] if it[0] == "v" else (it[1], it[2])

    cut = rnd.randrange(len(items) + 1)
    vs = ValueSet(*[arg(it) for it in items[:cut]])
    rest = items[cut:]
    while rest:
        if rnd.random() < 0.3:
            k = rnd.randrange(1, len(rest) + 1)
            vs = vs + ValueSet(*[arg(it) for it in rest[:k]])
            rest = rest[k:]
        else:
            it = rest.pop(0)
            if it[0] == "v":
                vs.add_value(it[1])
            else:
                vs.add_range(it[1], it[2])
    return vs


def rec_vs(arg):
    from vc2_conformance.constraint_table import AnyValue

    tid, seed = arg
    rnd = random.Random(seed)
    top = rnd.choice([8, 16, 40])
    a_items = rand_items(rnd, top, 8)
    b_items = rand_items(rnd, top, 6)
    bany = rnd.random() < 0.08
    probes = list(range(-2, top + 2))
    a = build_vs(rnd, a_items)
    b = AnyValue() if bany else build_vs(rnd, b_items)
    u = a + b
    return {
        "tid": tid,
        "ev": "vs",
        "a": a_items,
        "b": b_items,
        "bany": bany,
        "probes": probes,
        "ina": [p for p in probes if p in a],
        "inb": [p for p in probes if p in b],
        "inu": [p for p in probes if p in u],
        "dab": bool(a.is_disjoint(b)),
        "dba": bool(b.is_disjoint(a)),
        "dua": bool(u.is_disjoint(a)),
        "itera": sorted(a.iter_values()),
    }


def rec_seq(arg):
    from vc2_conformance import constraint_table as ct
    from vc2_conformance.decoder import assertions
    from vc2_conformance.decoder.exceptions import ValueNotAllowedInLevel
    from vc2_conformance.pseudocode.state import State

    tid, seed = arg
    rnd = random.Random(seed)
    keys = ["k%d" % i for i in range(1, rnd.choice([2, 3, 4]) + 1)]
    ncols = rnd.randrange(1, 6)
    tab = []
    for _ in range(ncols):
        col = []
        if rnd.random() > 0.04:
            for k in keys:
                if rnd.random() < 0.85:
                    isany = rnd.random() < 0.12
                    col.append([k, isany, [] if isany else rand_items(rnd, 6, 3)])
        tab.append(col)
    # assignment sequence: values drawn from the written cells of one column (or at random)
    order = rnd.sample(keys, rnd.randrange(1, len(keys) + 1))
    if rnd.random() < 0.05:
        order.append(order[0])
    target = rnd.choice(tab)
    seq = []
    for k in order:
        cands = [it for c in target if c[0] == k for it in c[2]]
        if cands and rnd.random() < 0.8:
            it = rnd.choice(cands)
            v = rnd.randrange(it[1], it[2] + 1)
        else:
            v = rnd.randrange(0, 7)
        seq.append([k, v])
    table = []
    for col in tab:
        d = {}
        for k, isany, items in col:
            d[k] = ct.AnyValue() if isany else build_vs(rnd, items)
        table.append(d)
    saved = assertions.LEVEL_CONSTRAINTS
    acc, comb, inav = [], [], []
    try:
        assertions.LEVEL_CONSTRAINTS = table
        state = State()
        chosen = {}
        for k, v in seq:
            inav.append(v in ct.allowed_values_for(table, k, dict(chosen)))
            chosen[k] = v
            comb.append(bool(ct.is_allowed_combination(table, dict(chosen))))
            try:
                assertions.assert_level_constraint(state, k, v)
                acc.append(True)
            except ValueNotAllowedInLevel:
                acc.append(False)
                break
    finally:
        assertions.LEVEL_CONSTRAINTS = saved
    return {"tid": tid, "ev": "seq", "tab": tab, "seq": seq, "acc": acc, "comb": comb, "inav": inav}


def rand_cell(rnd, top):
    x = rnd.random()
    if x < 0.1:
        return ["empty", []]
    if x < 0.2:
        return ["any", []]
    if x < 0.35:
        return ["ditto", []]
    items = []
    for _ in range(rnd.choice([1, 1, 2, 3])):
        y = rnd.random()
        if y < 0.15:
            b = rnd.randrange(2)
            items.append(["b", b, b])
        elif y < 0.6:
            v = rnd.randrange(top)
            items.append(["v", v, v])
        else:
            lo = rnd.randrange(top)
            items.append(["r", lo, min(top - 1, lo + rnd.choice([0, 1, 3, 8]))])
    return ["items", items]


def rec_csv(arg):
    from vc2_conformance.constraint_table import read_constraints_from_csv

    tid, seed = arg
    rnd = random.Random(seed)
    top = 30
    rows = []
    recs = []
    for _ in range(rnd.randrange(1, 7)):
        x = rnd.random()
        if x < 0.12:
            r = {"kind": "comment", "n": rnd.randrange(0, 5)}
            rows.append(["comment", "", []])
        elif x < 0.22:
            r = {"kind": "blank", "n": rnd.randrange(0, 5)}
            rows.append(["blank", "", []])
        else:
            key = "k%d" % rnd.randrange(1, 5)
            cells = [rand_cell(rnd, top) for _ in range(rnd.randrange(0, 6))]
            r = {"kind": "data", "key": key, "cells": [{"t": c[0], "items": c[1]} for c in cells]}
            rows.append(["data", key, cells])
        recs.append(r)
    text = render_rows(recs)
    probes = list(range(-1, top + 2))
    exc = "none"
    table, table2, touch = [], [], []
    try:
        real = read_constraints_from_csv(tmp_csv(text))
        for col in project_table(real, -1, top + 1):
            table.append([[k, c["any"], c["m"]] for k, c in sorted(col.items())])
        # the caller adds values to up to two cells of the table it was handed; the whole table is projected again
        cells = [(ci, k) for ci, col in enumerate(real) for k in sorted(col)]
        for _ in range(min(len(cells), rnd.choice([1, 2]))):
            ci, k = rnd.choice(cells)
            v = rnd.randrange(top)
            real[ci][k].add_value(v)
            touch.append([ci + 1, k, v])
        for col in project_table(real, -1, top + 1):
            table2.append([[k, c["any"], c["m"]] for k, c in sorted(col.items())])
    except Exception as e:  # noqa
        exc = common.exc_signature(e)
        table, table2, touch = [], [], []
    return {"tid": tid, "ev": "csv", "rows": rows, "probes": probes, "table": table, "touch": touch, "table2": table2, "exc": exc, "text": text}


def rec_obj(arg):
    """Value sets as objects: a few variables name real objects, some of which are the cells of a table; a
    random sequence of in-place additions and of operations that return sets (union, wildcard, constructor,
    allowed_values_for) is applied and the contents of EVERY variable's object are recorded after every step."""
    from vc2_conformance import constraint_table as ct

    tid, seed = arg
    rnd = random.Random(seed)
    top = rnd.choice([6, 12, 24])
    probes = list(range(-1, top + 1))
    keys = ["k1", "k2"]
    ncell = rnd.choice([0, 2, 3, 4])
    nreg = ncell + rnd.choice([2, 3])
    regs = [None] + [ct.ValueSet() for _ in range(nreg)]  # 1-based like the spec
    # the table's cells are the objects of the first ncell variables (held by reference)
    tab, table = [], []
    x = 1
    while x <= ncell:
        col, d = [], {}
        for k in keys:
            if x <= ncell and (not col or rnd.random() < 0.6):
                col.append([k, x])
                d[k] = regs[x]
                x += 1
        tab.append(col)
        table.append(d)
    free = list(range(ncell + 1, nreg + 1))
    steps, mem = [], []
    for _ in range(rnd.randrange(4, 11)):
        y = rnd.random()
        if y < 0.25:
            st = ["add_value", rnd.randrange(1, nreg + 1), rnd.randrange(top), 0]
            regs[st[1]].add_value(st[2])
        elif y < 0.45:
            lo = rnd.randrange(top)
            st = ["add_range", rnd.randrange(1, nreg + 1), lo, min(top - 1, lo + rnd.choice([0, 1, 2, 5]))]
            regs[st[1]].add_range(st[2], st[3])
        elif y < 0.7 or not tab:
            st = ["union", rnd.choice(free), rnd.randrange(1, nreg + 1), rnd.randrange(1, nreg + 1)]
            regs[st[1]] = regs[st[2]] + regs[st[3]]
        elif y < 0.74:
            st = ["any", rnd.choice(free), 0, 0]
            regs[st[1]] = ct.AnyValue()
        elif y < 0.8:
            st = ["new", rnd.choice(free), 0, 0]
            regs[st[1]] = ct.ValueSet()
        else:
            key = rnd.choice(keys)
            chosen = []
            for k in keys:
                if k != key and rnd.random() < 0.6:
                    cands = [v for c in table if k in c and not isinstance(c[k], ct.AnyValue) for v in c[k].iter_values()]
                    chosen.append([k, rnd.choice(cands) if cands and rnd.random() < 0.85 else rnd.randrange(top)])
            st = ["avf", rnd.choice(free), key, chosen]
            regs[st[1]] = ct.allowed_values_for(table, key, dict((k, v) for k, v in chosen))
        steps.append(st)
        mem.append([[isinstance(o, ct.AnyValue), [p for p in probes if p in o]] for o in regs[1:]])
    return {"tid": tid, "ev": "obj", "nreg": nreg, "probes": probes, "tab": tab, "steps": steps, "mem": mem}


RECORDERS = {"vs": rec_vs, "seq": rec_seq, "csv": rec_csv, "obj": rec_obj}


def rec_any(job):
    kind, tid, seed = job
    return RECORDERS[kind]((tid, seed))


def trace_direction(ctx):
    from .. import trace

    counts = ctx.pick({"vs": 700, "seq": 900, "csv": 400, "obj": 600}, {"vs": 8000, "seq": 10000, "csv": 4000, "obj": 8000})
    jobs = []
    tid = 0
    for kind in ("vs", "seq", "csv", "obj"):
        for _ in range(counts[kind]):
            tid += 1
            jobs.append((kind, tid, ctx.seed * 1000003 + tid))
    records = common.pmap(rec_any, jobs)
    sendable = [dict((k, v) for k, v in r.items() if k != "text") for r in records]
    bad, res = trace.validate("ConstraintTrace", sendable)
    ctx.add_tlc(res, "trace validation (ConstraintTrace)")
    dis = 0
    for b in bad:
        rec = records[b["line"] - 1]
        if b["alarm"]:
            ctx.violation("C17|trace|%s|%s" % (rec["ev"], b["clause"]), "recorded %s event rejected by clause %s: %s" % (rec["ev"], b["clause"], str(rec)[:400]), {"kind": "trace", "job": list(jobs[b["line"] - 1])})
        else:
            dis += 1
    # vacuity: the judged antecedents must have held
    nseq_judged = sum(1 for r in records if r["ev"] == "seq" and all(len(c) > 0 for c in r["tab"]) and len(set(k for k, _ in r["seq"])) == len(r["seq"]))
    nacc = sum(1 for r in records if r["ev"] == "seq" and r["acc"] and all(r["acc"]) and len(r["acc"]) >= 2)
    nrej = sum(1 for r in records if r["ev"] == "seq" and r["acc"] and not r["acc"][-1])
    ndis = sum(1 for r in records if r["ev"] == "vs" and r["dab"])
    nover = sum(1 for r in records if r["ev"] == "vs" and not r["dab"])
    guard(ctx, min(nseq_judged, nacc, nrej, ndis, nover) > 0, "vacuity in recorded traces: judged=%d accepted=%d rejected=%d disjoint=%d overlapping=%d" % (nseq_judged, nacc, nrej, ndis, nover))
    # binding self-test: corrupt one recorded field per event kind -> exactly that line is rejected
    try:
        probe = []
        for kind in ("vs", "seq", "csv", "csv", "obj"):
            r = dict(next(x for x in sendable if x["ev"] == kind and x.get("exc", "none") == "none" and (kind != "seq" or (x["acc"] and all(len(c) > 0 for c in x["tab"]) and len(set(k for k, _ in x["seq"])) == len(x["seq"]))) and (kind != "csv" or x["touch"]) and (kind != "obj" or any(not m[0] for m in x["mem"][-1]))))
            probe.append(r)
        probe[0] = dict(probe[0], dab=not probe[0]["dab"])
        probe[1] = dict(probe[1], acc=[not probe[1]["acc"][0]] + probe[1]["acc"][1:])
        probe[2] = dict(probe[2], table=probe[2]["table"] + [[["k9", False, [0]]]])
        # an addition that leaked into / is missing from a cell after the caller's additions
        probe[3] = dict(probe[3], table2=probe[3]["table"] if probe[3]["table2"] != probe[3]["table"] else [[[k, a, m + [probe[3]["probes"][-1]]] for k, a, m in col] for col in probe[3]["table2"]])
        # a value showing up in (or vanishing from) an object the last step was not applied to
        last = [list(m) for m in probe[4]["mem"][-1]]
        j = next(i for i, m in enumerate(last) if not m[0])
        pr = probe[4]["probes"]
        last[j] = [False, [q for q in pr if q not in last[j][1]][:1] + last[j][1] if len(last[j][1]) < len(pr) else last[j][1][1:]]
        probe[4] = dict(probe[4], mem=probe[4]["mem"][:-1] + [last])
        pbad, _ = trace.validate("ConstraintTrace", probe)
        got = sorted((b["line"], b["clause"].split("(")[0], b["alarm"]) for b in pbad)
        want = [(1, "Disjoint", True), (2, "Incremental", True), (3, "CsvCells", True), (4, "CsvCellsAfterAdd", True), (5, "ContainsExactlyUnion", True)]
        okst = all(w in got for w in want)
    except StopIteration:
        got, okst = "no suitable recorded event", False
    guard(ctx, okst, "trace binding self-test failed: corrupted fields judged as %r" % (got,))
    stats = {"judged_sequences": nseq_judged, "fully_accepted_sequences": nacc, "rejected_sequences": nrej, "disjoint_pairs": ndis, "overlapping_pairs": nover}
    nobj_steps = sum(len(r["steps"]) for r in records if r["ev"] == "obj")
    nobj_ret = sum(1 for r in records if r["ev"] == "obj" for i, st in enumerate(r["steps"]) if st[0] in ("union", "avf") and any(t[0] in ("add_value", "add_range") for t in r["steps"][i + 1 :]))
    ncsv_touch = sum(len(r["touch"]) for r in records if r["ev"] == "csv")
    guard(ctx, min(nobj_ret, ncsv_touch) > 0, "vacuity in recorded object traces: returned-set-then-addition=%d csv additions=%d" % (nobj_ret, ncsv_touch))
    stats.update({"object_steps": nobj_steps, "returned_sets_followed_by_additions": nobj_ret, "csv_cell_additions": ncsv_touch})
    return len(records), dis, stats, [sendable[0], sendable[counts["vs"]], sendable[counts["vs"] + counts["seq"]], sendable[counts["vs"] + counts["seq"] + counts["csv"]]]


# ------------------------------------------------------------------------------------------ run
def tlc_many(specs):
    """Run several single-worker TLC models concurrently (each is sequential; the box has 16 cores).
    specs: list of dict(module, cfg, kwargs).  Returns the results in order; the first failure is re-raised."""
    import concurrent.futures

    tlc.scratch_root()
    with concurrent.futures.ThreadPoolExecutor(max_workers=max(1, len(specs))) as ex:
        futs = [ex.submit(tlc.run, sp["module"], sp["cfg"], **sp.get("kwargs", {})) for sp in specs]
        return [f.result() for f in futs]


SAMPLE_EVERY = 5  # every 5th replayed case travels back to the parent in full (self-tests, evidence samples)


def chunk_worker(arg):
    """One byte range of a TLC dump: split into states, replay each; results are slimmed before they are
    pickled back (the full case is kept for violations and for every SAMPLE_EVERY-th state)."""
    path, a, b, fname, extra, base = arg
    with open(path, "rb") as f:
        f.seek(a)
        text = f.read(b - a).decode("ascii")
    fn = globals()[fname]
    out = []
    for j, blk in enumerate(_STATE_HDR.split(text)[1:]):
        r = fn(blk if extra is None else (blk, extra))
        if r is None:
            continue
        if (base + j) % SAMPLE_EVERY:
            r["sample"] = None
        out.append(r)
    return out


def g_finish(ctx, res, consts, name, blockfn, extra, actions):
    fix_coverage(res)
    require_actions(res, actions)
    ctx.add_tlc(res, name, consts)
    with open(res.dump_path, "rb") as f:
        data = f.read()
    offs = [m.start() for m in re.finditer(rb"^State \d+:.*$|^STATE_\d+ ==.*$", data, re.M)] + [len(data)]
    per = max(50, min(1500, (len(offs) - 1) // 128 + 1))
    jobs = [(res.dump_path, offs[i], offs[min(i + per, len(offs) - 1)], blockfn.__name__, extra, i) for i in range(0, len(offs) - 1, per)]
    out = [r for rs in common.pmap(chunk_worker, jobs, chunksize=1) for r in rs]
    return res, out


def pick_sample(out, k):
    full = [r["sample"] for r in out if r.get("sample")]
    return full[len(full) // k] if full else None


def collect(ctx, kind, out):
    dis = 0
    for r in out:
        dis += r["disagreements"]
        for sig, what in r["violations"]:
            ctx.violation(sig, what, {"kind": kind, "case": r["case"]})
    return dis


def selftest_binding(vs_cases):
    """A deliberately broken is_disjoint (end points of self's ranges only) must be flagged by the replay."""
    from vc2_conformance import constraint_table as ct

    orig = ct.ValueSet.is_disjoint

    def broken(self, other):
        if isinstance(other, ct.AnyValue):
            return orig(self, other)
        for v in self._values:
            if v in other:
                return False
        for v in other._values:
            if v in self:
                return False
        for s, e in self._ranges:
            if s in other or e in other:
                return False
        return True

    ct.ValueSet.is_disjoint = broken
    try:
        hit = 0
        for c in vs_cases:
            if any(s.startswith("C17|valueset-disjoint") for s, _ in vs_exec(c)["violations"]):
                hit += 1
    finally:
        ct.ValueSet.is_disjoint = orig
    return hit


def selftest_sharing(vs_cases):
    """A union that hands out its LEFT operand when the right one is empty (no new object) must be flagged by the
    replay through a later addition showing up in the wrong set."""
    from vc2_conformance import constraint_table as ct

    orig = ct.ValueSet.__add__

    def sharing(self, other):
        if not isinstance(other, ct.AnyValue) and not other._values and not other._ranges:
            return self
        return orig(self, other)

    ct.ValueSet.__add__ = sharing
    try:
        hit = 0
        for c in vs_cases:
            if any(s.startswith("C17|valueset-contains") for s, _ in vs_exec(c)["violations"]):
                hit += 1
    finally:
        ct.ValueSet.__add__ = orig
    return hit


SHARE_IMPLS = ("reuse_right", "reuse_left", "reuse_superset")


def run(ctx):
    n = ctx.pick(5, 6)
    vs_consts = {"N": n, "MaxLen": 3, "UnionImpl": '"fresh"', "Ctor": "FALSE"}
    # second box: smaller universe, longer histories -- both operands of a union are built by operations, the
    # union result (or an operand) is then added to: the object-identity dimension needs depth, not width
    vd_consts = ctx.pick({"N": 3, "MaxLen": 4, "UnionImpl": '"fresh"', "Ctor": "FALSE"}, {"N": 3, "MaxLen": 4, "UnionImpl": '"fresh"', "Ctor": "TRUE"})
    tb_consts = ctx.pick({"Keys": '{"k1", "k2"}', "MaxCols": 2, "MaxLen": 4}, {"Keys": '{"k1", "k2"}', "MaxCols": 2, "MaxLen": 5})
    cs1 = ctx.pick({"Items": "ItemsMid"}, {"Items": "ItemsRich"})
    cs2 = ctx.pick({"MaxCols": 2, "MaxLen": 2}, {"MaxCols": 3, "MaxLen": 2})
    D = {"dump": True, "workers": 1}
    specs = [
        {"module": "ValueSets", "cfg": cfg_text("ValueSets.cfg", **vs_consts), "kwargs": D},
        {"module": "ConstraintTable", "cfg": cfg_text("ConstraintTable.cfg", **tb_consts), "kwargs": D},
        {"module": "ConstraintCsv", "cfg": cfg_text("ConstraintCsvCells.cfg", **cs1), "kwargs": D},
        {"module": "ConstraintCsv", "cfg": cfg_text("ConstraintCsvRows.cfg", **cs2), "kwargs": D},
        {"module": "ValueSets", "cfg": cfg_text("ValueSets.cfg", **vd_consts), "kwargs": D},
    ]
    # negative models: a union that hands out one of its operands must violate the property in the spec itself
    for impl in SHARE_IMPLS:
        specs.append({"module": "ValueSets", "cfg": cfg_text("ValueSetsShare.cfg", UnionImpl='"%s"' % impl), "kwargs": {"workers": 1, "allow_invariant_violation": True}})
    nbase = len(specs)
    c2 = {"N": 4, "MaxLen": 4, "UnionImpl": '"fresh"', "Ctor": "FALSE"}
    c3 = {"Keys": '{"k1", "k2", "k3"}', "MaxCols": 1, "MaxLen": 4, "CellVals": "{0, 1}"}
    sim_n = 9
    if not ctx.quick:
        specs += [
            {"module": "ValueSets", "cfg": cfg_text("ValueSets.cfg", **c2), "kwargs": D},
            {"module": "ConstraintTable", "cfg": cfg_text("ConstraintTable.cfg", **c3), "kwargs": D},
            {"module": "ValueSets", "cfg": cfg_text("ValueSets.cfg", N=sim_n, MaxLen=10, Ctor="TRUE"), "kwargs": {"simulate": 3000, "depth": 11, "seed": ctx.seed, "workers": 1}},
        ]
    R = tlc_many(specs)
    VS_ACT = ["AddValue", "AddRange", "Union", "MakeAny"]
    res_vs, out_vs = g_finish(ctx, R[0], vs_consts, "ValueSets exhaustive", vs_block, n, VS_ACT)
    res_tb, out_tb = g_finish(ctx, R[1], tb_consts, "ConstraintTable exhaustive", tab_block, None, ["AddColumn", "Check", "Touch"])
    res_c1, out_c1 = g_finish(ctx, R[2], cs1, "ConstraintCsv exhaustive (cells)", csv_block, None, ["Read", "Touch"])
    res_c2, out_c2 = g_finish(ctx, R[3], cs2, "ConstraintCsv exhaustive (rows)", csv_block, None, ["Read", "Touch"])
    kinds = set(r["last"] for r in out_c1 + out_c2)
    guard(ctx, kinds == {"data", "comment", "blank", "touch"}, "vacuity: CSV row kinds replayed: %r" % (kinds,))
    _, extra_vs = g_finish(ctx, R[4], vd_consts, "ValueSets exhaustive (object identity: longer histories)", vs_block, vd_consts["N"], VS_ACT + (["New"] if vd_consts["Ctor"] == "TRUE" else []))
    spec_selftest = {}
    for impl, r in zip(SHARE_IMPLS, R[5 : 5 + len(SHARE_IMPLS)]):
        if r.invariant_violated != "ContainsExactlyUnion":
            raise RuntimeError("spec self-test: ValueSets with UnionImpl=%s (a union handing out an operand) does not violate ContainsExactlyUnion (%r)" % (impl, r.invariant_violated))
        spec_selftest[impl] = "ContainsExactlyUnion violated after %d states" % r.generated
    if not ctx.quick:
        _, o2 = g_finish(ctx, R[nbase], c2, "ValueSets exhaustive (deeper)", vs_block, 4, VS_ACT)
        extra_vs += o2
        _, o3 = g_finish(ctx, R[nbase + 1], c3, "ConstraintTable exhaustive (3 keys)", tab_block, None, ["AddColumn", "Check", "Touch"])
        out_tb += o3
        # random walks of the same spec over a larger universe; every step of every walk is compared
        walks = [(p, sim_n) for p in sorted(glob.glob(os.path.join(R[nbase + 2].sim_dir, "tr*")))]
        if not walks:
            raise RuntimeError("TLC -simulate wrote no walks")
        extra_vs += [r for rs in common.pmap(vs_walk, walks) for r in rs]

    dis = collect(ctx, "vs", out_vs + extra_vs) + collect(ctx, "tab", out_tb) + collect(ctx, "csv", out_c1 + out_c2)
    ntr, tdis, tstats, tsamples = trace_direction(ctx)

    hit = selftest_binding([r["sample"] for r in out_vs if r["sample"]])
    guard(ctx, hit > 0, "binding self-test failed: an is_disjoint that ignores the other set's ranges was not detected")
    hit_share = selftest_sharing([r["sample"] for r in out_vs if r["sample"] and r["last"] in ("add_value", "add_range") and any(o["op"] == "union" for o in r["sample"]["hist"])])
    guard(ctx, hit_share > 0, "binding self-test failed: a union returning its left operand itself was not detected by later additions")
    njudged = sum(1 for r in out_tb if r.get("judged"))
    guard(ctx, njudged > 0 and any(r["acc"] for r in out_tb if r.get("judged")) and not all(r["acc"] for r in out_tb if r.get("judged")), "vacuity: the table theorems were never exercised with both outcomes")
    allg = out_vs + extra_vs + out_tb + out_c1 + out_c2
    ctx.coverage.update(
        {
            "traces_validated_against_impl": len(allg) + ntr,
            "replayed_transitions": {"valuesets": len(out_vs) + len(extra_vs), "tables": len(out_tb), "csv": len(out_c1) + len(out_c2)},
            "table_checks_judged_by_theorems": njudged,
            "recorded_events": ntr,
            "recorded_stats": tstats,
            "trace_spec_disagreements": tdis,
            "evaluations": len(allg) + ntr,
            "distinct_nontrivial": sum(1 for r in allg if r["len"] >= 2),
            "rule": "one shortest history per abstract transition (pre-state, operation) of ValueSets / ConstraintTable / ConstraintCsv, replayed on the real code and compared with the spec's observation of the last step (value sets are objects: the contents of BOTH variables' objects are compared after every transition, the origin of each object -- constructor / union of which operands / wildcard -- is part of the abstract state, Touch transitions add to a set handed out by allowed_values_for / to a cell read from CSV and compare every cell of the table); non-trivial = history of >= 2 operations (CSV: >= 2 rows read by the behaviour)",
            "exhaustive": True,
            "bounds": {"valuesets": vs_consts, "valuesets_object_identity": vd_consts, "tables": tb_consts, "csv_cells": cs1, "csv_rows": cs2, "note": "ranges have lo <= hi; inverted ranges, negative numbers in CSV and non-integer values are out of scope"},
            "spec_disagreements": dis,
            "binding_selftest": {"mutant": "ValueSet.is_disjoint that does not test the end points of the other set's ranges (in-process monkeypatch)", "histories_flagging_it": hit, "trace": "flipping a recorded is_disjoint result / acceptance flag / adding a column to a recorded table / dropping a caller's addition from a recorded CSV table / moving a value into another object's recorded contents is rejected by clauses Disjoint / Incremental / CsvCells / CsvCellsAfterAdd / ContainsExactlyUnion(every object)", "sharing_mutant": "ValueSet.__add__ returning its left operand itself when the right one is empty (in-process monkeypatch)", "histories_flagging_sharing_mutant": hit_share, "spec_level": spec_selftest},
            "samples": [pick_sample(out_vs, 2), pick_sample(extra_vs, 2), pick_sample(out_tb, 2), pick_sample([r for r in out_tb if r.get("touch")], 2), pick_sample(out_c1, 3), pick_sample([r for r in out_c1 if r["last"] == "touch"], 3)] + tsamples,
        }
    )
    ctx.assumptions += [
        "values and range bounds are small non-negative integers (TRUE/FALSE are the integers 1/0 as in Python); ranges satisfy lo <= hi",
        "membership is projected over a probe universe slightly wider than the values used (-2..N+1)",
        "CSV spelling variants (case of any/TRUE/FALSE, ditto character, blanks after commas) are chosen by the driver, the cell grammar by the spec",
        "assert_level_constraint is exercised with decoder.assertions.LEVEL_CONSTRAINTS replaced in-process by the table under test",
        "a set returned by +, AnyValue(), ValueSet(...), allowed_values_for (without any_value=) or held in a table read from CSV is an object of its own: additions to it change no other set (filter_constraint_table returns the table's own columns by design and is not covered by this)",
    ]


def vs_walk(arg):
    path, n = arg
    with open(path) as f:
        text = "\n".join(ln for ln in f.read().splitlines() if not ln.startswith("\\*") and not ln.startswith("====") and not ln.startswith("----"))  # TLC writes "\* <Action ...>" lines between states
    hdrs = list(_STATE_HDR.finditer(text))
    sts = [tlaval.parse_state_block(text[h.end() : (hdrs[j + 1].start() if j + 1 < len(hdrs) else len(text))]) for j, h in enumerate(hdrs)]
    sts = [st for st in sts if st]
    out = []
    if not sts:
        return out
    hist = J(sts[-1]["hist"])
    for i, st in enumerate(sts):
        if i == 0:
            continue
        case = {"hist": hist[:i], "obs": J(st["obs"]), "n": n}
        r = vs_exec(case)
        r["case"] = case if r["violations"] else None
        r["len"] = i
        r["sample"] = case
        out.append(r)
    return out


def replay(case):
    kind = case["kind"]
    if kind == "vs":
        return vs_exec(case["case"])
    if kind == "tab":
        return tab_exec(case["case"])
    if kind == "csv":
        return csv_exec(case["case"])
    if kind == "trace":
        from .. import trace

        rec = rec_any(tuple(case["job"]))
        bad, _ = trace.validate("ConstraintTrace", [dict((k, v) for k, v in rec.items() if k != "text")])
        return {"violations": [b for b in bad if b["alarm"]], "event": rec}
    raise RuntimeError("unknown case kind %r" % kind)
