"""C14 -- lossy encoding fills slices to the byte budget with the smallest qindex.

Spec: spec/RateControlOps.tla (signed exp-Golomb lengths, forward quantisation, Fits, Chosen, slice size
formulas), spec/RateControl.tla (quantize_to_fit as a state machine; TLC checks on a box of small instances that the
accepted index is the Chosen one and that the search terminates; the LD/HQ size identities and the 8-bit bound are
constant-level theorems checked over a box of picture_bytes / slice counts), spec/RateControlTrace.tla.
Binding: G -- every instance accepted in RateControl.tla is replayed on the real quantize_to_fit;
T -- for lossy configurations enumerated by TLC (CodecConfig.tla) the real encoder is run and, per slice, the
unquantised coefficients + matrix values (transform_and_slice_picture, observation wrapper), the chosen qindex and
length fields (encoder output description) and the slice's size in the serialised stream (bytes consumed by the
validator's hq_slice / ld_slice, observation wrapper) are recorded; TLC evaluates the C14 clauses on every line.
LD boundary pictures -- spec/RateControlLD.tla: TLC enumerates low-delay pictures whose mean slice size lies around
every power of two (equal and unequal slices, i.e. 2^j / 2^j+1 byte slices mixed, where the width of the
slice_y_length field changes) with per-slice contents constructed in TLA+ to fill the slice's own budget
8*bytes - 7 - intlog2(8*bytes - 7) to the last bit / one bit less / one bit more; every picture is coded by the real
make_transform_data_ld_lossy and judged per slice by RateControlTrace.tla; real pictures of LD configurations are
also run with picture_bytes values of that enumeration (boundary twins, end to end incl. measured slice sizes).
Alarm (R1): C14.Fits, C14.NotBelowMinimum, C14.Smallest, C14.LengthFields8Bit, C14.LDSliceSizeExact,
C14.HQTotalWithinScaler, C14.CodedWhenEverySliceHasAByte (the encoder refuses a low-delay picture although every
slice has a byte, so that a smallest fitting index exists).  S.* clauses (scaler choice, per-slice budget split, LD length field) are logged only.
"""
import json
import random
from io import BytesIO

from .. import common, tlc, trace
from . import codec_common as cc

BIG = 1 << 28
MAXQ = 111


def rate_cfg(ctx):
    if ctx.quick:
        return (
            "SPECIFICATION Spec\nCONSTANTS\n  Vals <- TinyVals\n  MVals = {0, 2}\n  Targets = {0, 8, 13, 24}\n  Aligns = {1, 8}\n  QMins = {0, 3}\n"
            "  MaxN = 6\n  MaxPB = 1200\nINVARIANT Terminates\nINVARIANT AcceptedIsChosen\nINVARIANT ZeroAlwaysFits\nCHECK_DEADLOCK FALSE\n",
            {"Vals": [-5, 0, 9], "MVals": [0, 2], "Targets": [0, 8, 13, 24], "Aligns": [1, 8], "QMins": [0, 3], "MaxN": 6, "MaxPB": 1200},
        )
    with open(tlc.SPEC + "/mc/RateControl.cfg") as f:
        return f.read(), {"Vals": [-5, 0, 1, 9], "MVals": [0, 2], "Targets": [0, 3, 8, 13, 24], "Aligns": [1, 8], "QMins": [0, 3], "MaxN": 6, "MaxPB": 1600}


# ------------------------------------------------------------------------------ G: replay of RateControl instances
def fit_event(arg):
    tid, inst, spec_q = arg
    from vc2_conformance.encoder.pictures import quantize_to_fit, ComponentCoeffs

    sets = [ComponentCoeffs(list(s["cs"]), list(s["ms"])) for s in inst["sets"]]
    q, out = quantize_to_fit(inst["target"], sets, inst["align"], inst["qmin"])
    return {"tid": tid, "ev": "fit", "sets": inst["sets"], "target": inst["target"], "align": inst["align"], "qmin": inst["qmin"], "q": int(q), "out": [list(o) for o in out], "spec_q": spec_q}


# ------------------------------------------------------------------------------ LD boundary pictures (RateControlLD)
def ld_cfg(ctx):
    consts = ctx.pick(
        {"Grids": "GridsQuick", "Pows": [1, 2, 4, 8, 16, 32], "QMins": [0, 3], "Ups": [0, 6], "Fills": ["exact", "spare", "over"]},
        {"Grids": "GridsThorough", "Pows": [1, 2, 4, 8, 16, 32, 64], "QMins": [0, 3, 20], "Ups": [0, 2, 6], "Fills": ["exact", "spare", "over"]},
    )
    st = lambda xs: "{" + ", ".join(json.dumps(x) for x in xs) + "}"
    text = "SPECIFICATION Spec\nCONSTANTS\n  Grids <- %s\n  Pows = %s\n  QMins = %s\n  Ups = %s\n  Fills = %s\nINVARIANT Constructed\nINVARIANT Sizes\nCHECK_DEADLOCK FALSE\n" % (
        consts["Grids"], st(consts["Pows"]), st(consts["QMins"]), st(consts["Ups"]), st(consts["Fills"]))
    return text, consts


def ld_event(arg):
    """One picture of RateControlLD.tla coded by the real make_transform_data_ld_lossy (concretise: the spec's
    per-slice coefficient / matrix sequences -> SliceCoeffs; project: qindex, slice_y_length, quantised blocks)."""
    tid, inst = arg
    from vc2_conformance.encoder.pictures import make_transform_data_ld_lossy, ComponentCoeffs, SliceCoeffs
    from vc2_conformance.encoder.exceptions import InsufficientLDPictureBytesError

    i = inst["inst"]
    sx, sy = i["sx"], i["sy"]
    sl = [s["c"] for s in inst["slices"]]
    coeffs = [[SliceCoeffs(ComponentCoeffs(list(sl[y * sx + x]["y"]), list(sl[y * sx + x]["my"])), ComponentCoeffs(list(sl[y * sx + x]["c1"]), list(sl[y * sx + x]["mc1"])), ComponentCoeffs(list(sl[y * sx + x]["c2"]), list(sl[y * sx + x]["mc2"]))) for x in range(sx)] for y in range(sy)]
    base = {"tid": tid, "ev": "picture", "profile": "ld", "pb": inst["pb"], "qmin": i["qmin"], "minscaler": 1, "scaler": 0, "ser": False, "total": 0, "pic": 0, "nsl": sx * sy}
    try:
        td = make_transform_data_ld_lossy(inst["pb"], coeffs, i["qmin"])
    except InsufficientLDPictureBytesError:
        return dict(base, refused=True, slices=[], spec_q=[s["q"] for s in inst["slices"]], got_out=[])
    out = []
    got = []
    for k, d in enumerate(td["ld_slices"]):
        c = sl[k]
        out.append({"y": list(c["y"]), "my": list(c["my"]), "c1": list(c["c1"]), "mc1": list(c["mc1"]), "c2": list(c["c2"]), "mc2": list(c["mc2"]), "q": int(d["qindex"]), "bytes": 0, "oos": bool(int(d["qindex"]) > MAXQ), "ly": int(d["slice_y_length"])})
        got.append([list(d["y_transform"]), list(d["c_transform"])])
    return dict(base, refused=False, slices=out, spec_q=[s["q"] for s in inst["slices"]], got_out=got)


# ------------------------------------------------------------------------------ T: recorded pictures
_SIZES = []
_COEFFS = []
_INSTALLED = [False]


def install():
    if _INSTALLED[0]:
        return
    from vc2_conformance.decoder import transform_data_syntax as tds
    from vc2_conformance.decoder.io import tell
    from vc2_conformance.encoder import pictures as encp

    def pos(state):
        b, bit = tell(state)
        return b * 8 + (7 - bit)

    def wrap(orig):
        def f(state, sx, sy):
            p0 = pos(state)
            r = orig(state, sx, sy)
            d = pos(state) - p0
            _SIZES.append(d // 8 if d % 8 == 0 else -1)
            return r

        f.__wrapped__ = orig
        return f

    tds.hq_slice = wrap(tds.hq_slice)
    tds.ld_slice = wrap(tds.ld_slice)
    orig_t = encp.transform_and_slice_picture

    def transform_and_slice_picture(codec_features, picture):
        r = orig_t(codec_features, picture)
        _COEFFS.append([[(list(s.Y.coeff_values), list(s.Y.quant_matrix_values), list(s.C1.coeff_values), list(s.C1.quant_matrix_values), list(s.C2.coeff_values), list(s.C2.quant_matrix_values)) for s in row] for row in r])
        return r

    transform_and_slice_picture.__wrapped__ = orig_t
    encp.transform_and_slice_picture = transform_and_slice_picture
    _INSTALLED[0] = True


def record_pictures(job):
    """One real encode + serialise + validate; returns {"records": [one per picture], "status": str}."""
    from vc2_conformance.encoder.sequence import make_sequence
    from vc2_conformance.bitstream import Stream, autofill_and_serialise_stream
    from vc2_conformance.pseudocode.state import State
    from vc2_conformance.decoder import init_io, parse_stream

    install()
    cfg, outcome = job["cfg"], job["outcome"]
    features = cc.make_features(cfg, outcome)
    pictures = cc.make_pictures(cfg, outcome, job["seed"])[: job.get("max_pictures", 4)]
    if cfg["pcm"] == 1 and len(pictures) % 2:
        pictures = pictures[:-1] or cc.make_pictures(cfg, outcome, job["seed"])[:2]
    kwargs = {}
    if cfg["minq"]:
        kwargs["minimum_qindex"] = cfg["minq"]
    if cfg["minscaler"] != 1:
        kwargs["minimum_slice_size_scaler"] = cfg["minscaler"]
    del _COEFFS[:]
    del _SIZES[:]
    try:
        seq = make_sequence(features, pictures, **kwargs)
    except Exception as e:  # noqa: not a C14 verdict (C03 judges whether the encoder produces a stream) ...
        from vc2_conformance.encoder.exceptions import InsufficientLDPictureBytesError

        if cfg["mode"] == "ld_lossy" and isinstance(e, InsufficientLDPictureBytesError):
            # ... except the refusal of a low-delay budget, which the trace spec judges (legitimate below one byte per slice)
            rec = {"tid": job["tid"], "ev": "picture", "profile": "ld", "pb": outcome["picture_bytes"], "qmin": cfg["minq"], "minscaler": cfg["minscaler"], "scaler": 0, "ser": False, "slices": [], "total": 0, "pic": 0, "refused": True, "nsl": cfg["sx"] * cfg["sy"]}
            return {"records": [rec], "status": "ld-refused:" + common.exc_signature(e)}
        return {"records": [], "status": "encode-failed:" + common.exc_signature(e)}
    coeffs = list(_COEFFS)
    # the encoder's output description: slices per picture, in order
    per_pic = []
    scalers = []
    for du in seq["data_units"]:
        if "picture_parse" in du:
            wt = du["picture_parse"]["wavelet_transform"]
            td = wt["transform_data"]
            per_pic.append([dict(x) for x in (td.get("hq_slices") or td.get("ld_slices") or [])])
            scalers.append(wt["transform_parameters"]["slice_parameters"].get("slice_size_scaler", 0))
        elif "fragment_parse" in du:
            fp = du["fragment_parse"]
            if "transform_parameters" in fp:
                per_pic.append([])
                scalers.append(fp["transform_parameters"]["slice_parameters"].get("slice_size_scaler", 0))
            elif "fragment_data" in fp:
                fd = fp["fragment_data"]
                per_pic[-1].extend(dict(x) for x in (fd.get("hq_slices") or fd.get("ld_slices") or []))
    n = cfg["sx"] * cfg["sy"]
    if len(coeffs) != len(pictures) or len(per_pic) != len(pictures) or any(len(p) != n for p in per_pic):
        return {"records": [], "status": "observation-mismatch coeffs=%d pics=%d" % (len(coeffs), len(per_pic))}
    status = "ok"
    sizes = [0] * (n * len(pictures))
    ser = True
    try:
        f = BytesIO()
        autofill_and_serialise_stream(f, Stream(sequences=[seq]))
        st = State()
        init_io(st, BytesIO(f.getvalue()))
        parse_stream(st)
        if len(_SIZES) != n * len(pictures):
            raise RuntimeError("validator parsed %d slices, expected %d" % (len(_SIZES), n * len(pictures)))
        sizes = list(_SIZES)
    except Exception as e:  # noqa: sizes cannot be measured; the description is still judged
        ser = False
        status = "no-stream:" + common.exc_signature(e)
    hq = cfg["mode"] != "ld_lossy"
    records = []
    for i in range(len(pictures)):
        flat = [s for row in coeffs[i] for s in row]
        sl = []
        for k in range(n):
            y, my, c1, mc1, c2, mc2 = flat[k]
            d = per_pic[i][k]
            q = int(d["qindex"])
            big = max([abs(v) for v in y + c1 + c2] or [0])
            s = {"y": y, "my": my, "c1": c1, "mc1": mc1, "c2": c2, "mc2": mc2, "q": q, "bytes": sizes[i * n + k], "oos": bool(q > MAXQ or big >= BIG), "ly": int(d["slice_y_length"])}
            if s["oos"]:
                s["y"], s["c1"], s["c2"] = [0] * len(y), [0] * len(c1), [0] * len(c2)
            if hq:
                s["lc1"], s["lc2"] = int(d["slice_c1_length"]), int(d["slice_c2_length"])
            sl.append(s)
        records.append(
            {
                "tid": job["tid"], "ev": "picture", "profile": "hq" if hq else "ld", "pb": outcome["picture_bytes"], "qmin": cfg["minq"], "minscaler": cfg["minscaler"],
                "scaler": int(scalers[i]) if hq else 0, "ser": ser, "slices": sl, "total": sum(sizes[i * n : (i + 1) * n]), "pic": i, "refused": False, "nsl": n,
            }
        )
    return {"records": records, "status": status}


def lossy(c):
    return c["cfg"]["mode"] != "hq_lossless"


def judge(records):
    bad, res = trace.validate("RateControlTrace", records, max_lines=10 ** 9)  # one run: the spec prints its APPLIED totals at the end
    ap = cc.printed_json(res, "APPLIED")
    return bad, (ap[-1] if ap else {}), res


def selftest(ctx, cfgs):
    from vc2_conformance.encoder import pictures as encp

    orig = encp.quantize_to_fit

    def broken(target_size, coeff_sets, align_bits=1, minimum_qindex=0):
        return orig(target_size, coeff_sets, align_bits, minimum_qindex + 1)  # search starts one above the minimum

    pick = [c for c in cfgs if c["cfg"]["pb"] in ("q0", "scaler") and c["cfg"]["content"] != "random"][:6]
    if not pick:
        raise RuntimeError("self-test: no configuration")
    encp.quantize_to_fit = broken
    try:
        recs = []
        for i, c in enumerate(pick):
            recs += record_pictures({"tid": i + 1, "cfg": c["cfg"], "outcome": c["outcome"], "seed": 7 + i, "max_pictures": 2})["records"]
    finally:
        encp.quantize_to_fit = orig
    bad, _, _ = judge(recs)
    hit = sorted(set(b["clause"] for b in bad if b["alarm"]))
    if "C14.Smallest" not in hit:
        raise RuntimeError("binding self-test failed: a search starting above the minimum was not flagged (%s)" % hit)
    good = []
    for i, c in enumerate(pick):
        good += record_pictures({"tid": i + 1, "cfg": c["cfg"], "outcome": c["outcome"], "seed": 7 + i, "max_pictures": 2})["records"]
    bad0, _, _ = judge(good)
    dirty = set(b["line"] for b in bad0 if b["alarm"])
    probe = [json.loads(json.dumps(r)) for r in good]
    tgt = next((i for i, r in enumerate(probe) if r["ser"] and (i + 1) not in dirty), None)
    note = "skipped: every baseline picture already violates C14"
    if tgt is not None:
        probe[tgt]["slices"][0]["bytes"] += 1
        probe[tgt]["total"] += 1 + 2 * probe[tgt]["scaler"]
        bad1, _, _ = judge(probe)
        if not any(b["alarm"] and b["line"] == tgt + 1 for b in bad1):
            raise RuntimeError("binding self-test failed: corrupted slice size accepted")
        note = "slice bytes/total +1 rejected with %s" % [b["clause"] for b in bad1 if b["line"] == tgt + 1]
    return {"mutant": "quantize_to_fit starting at minimum_qindex+1 (in-process monkeypatch)", "clauses_flagging_it": hit, "corrupted_field": note}


def selftest_ld(ldi):
    """A slice_y_length field taken one bit wider than 13.5.3.1 says (every budget one bit too small) must be flagged
    on the constructed exact-fill pictures by C14.Smallest; a field one bit narrower by C14.Fits."""
    from vc2_conformance.encoder import pictures as encp

    orig = encp.intlog2
    out = {}
    for name, delta, clause, fill in (("wider", 1, "C14.Smallest", "exact"), ("narrower", -1, "C14.Fits", "over")):
        pick = [x for x in ldi if x["inst"]["fill"] == fill and x["inst"]["b"] >= 2]
        pick = pick[:: max(1, len(pick) // 40)][:40]
        encp.intlog2 = lambda n, d=delta: max(0, orig(n) + d)
        try:
            recs = [ld_event((i + 1, x)) for i, x in enumerate(pick)]
        finally:
            encp.intlog2 = orig
        for r in recs:
            del r["spec_q"], r["got_out"]
        bad, _, _ = judge(recs)
        hit = sorted(set(b["clause"] for b in bad if b["alarm"]))
        if clause not in hit:
            raise RuntimeError("binding self-test failed: slice_y_length field one bit %s was not flagged by %s on %d constructed pictures (%s)" % (name, clause, len(pick), hit))
        out["ld_length_field_one_bit_" + name] = {"pictures": len(pick), "flagged_pictures": len(set(b["line"] for b in bad if b["alarm"])), "clauses": hit}
    return out


def run(ctx):
    # ---- S + G: the search as a state machine
    import os

    import concurrent.futures

    text, consts = rate_cfg(ctx)
    ld_text, ld_consts = ld_cfg(ctx)
    tlc.scratch_root()
    ld_pool = concurrent.futures.ThreadPoolExecutor(max_workers=1)
    ld_future = ld_pool.submit(tlc.run, "RateControlLD", ld_text, coverage=True, timeout=3000, workers=8)
    fcache = (os.environ.get("VERIF_CODEC_CACHE") or "") + ".fits.json"  # mutation-sanity knob only
    if os.environ.get("VERIF_CODEC_CACHE") and os.path.exists(fcache):
        with open(fcache) as f:
            fits = json.load(f)
        ctx.coverage["debug_fit_cache_used"] = fcache
    else:
        res = tlc.run("RateControl", text, coverage=True, timeout=3000)
        ctx.add_tlc(res, "RateControl exhaustive (search machine + size theorems)", consts)
        fits = cc.printed_json(res, "FIT")
        if os.environ.get("VERIF_CODEC_CACHE"):
            with open(fcache, "w") as f:
                json.dump(fits, f)
    uniq = {}
    for f in fits:
        uniq[json.dumps(f["inst"], sort_keys=True)] = f
    fit_jobs = [(i + 1, f["inst"], f["q"]) for i, f in enumerate(uniq[k] for k in sorted(uniq))]
    if not fit_jobs:
        raise RuntimeError("RateControl printed no accepted instance")
    fit_records = common.pmap(fit_event, fit_jobs)
    replayed = len(fit_records)
    spec_q_dis = sum(1 for r in fit_records if r["q"] != r["spec_q"])
    # two-step rule (R1): where the real index equals the index TLC accepted, the property holds by the model-checked
    # invariant AcceptedIsChosen; every differing call, plus a seeded sample of the agreeing ones, is judged directly.
    rnd = random.Random(ctx.seed)
    keep = ctx.pick(1500, 20000)
    agreeing = [r for r in fit_records if r["q"] == r["spec_q"]]
    if len(agreeing) > keep:
        agreeing = rnd.sample(agreeing, keep)
    fit_records = [r for r in fit_records if r["q"] != r["spec_q"]] + agreeing
    for r in fit_records:
        del r["spec_q"]
    # ---- LD boundary pictures: contents constructed by TLC to fill each slice's own budget, coded by the real
    # make_transform_data_ld_lossy
    res_ld = ld_future.result()
    ld_pool.shutdown()
    for a in ("CodeSlice", "Done"):
        if res_ld.coverage.get(a, [0, 0])[0] == 0:
            raise RuntimeError("RateControlLD: action %s never taken" % a)
    ctx.add_tlc(res_ld, "RateControlLD exhaustive (low-delay pictures around power-of-two slice sizes, constructed exact fills)", ld_consts)
    ldi = cc.printed_json(res_ld, "LDI")
    if not ldi or sum(len(x["slices"]) + 2 for x in ldi) != res_ld.distinct:
        raise RuntimeError("RateControlLD printed %d pictures which account for %d of its %d states" % (len(ldi), sum(len(x["slices"]) + 2 for x in ldi), res_ld.distinct))
    ldi.sort(key=lambda x: json.dumps(x["inst"], sort_keys=True))
    ld_records = common.pmap(ld_event, [(50000 + i, x) for i, x in enumerate(ldi)])
    ld_stats = {"pictures": len(ldi), "slices": 0, "unequal_pictures": 0, "pictures_mixing_pow2_and_pow2_plus_1_byte_slices": 0, "exact_fill_slices": 0, "exact_fill_slices_above_minimum": 0, "exact_fill_small_slices_at_width_change": 0, "refused": 0, "index_differs_from_spec": 0}
    for x, r in zip(ldi, ld_records):
        sbs = sorted(set(sl["sb"] for sl in x["slices"]))
        ld_stats["slices"] += len(x["slices"])
        ld_stats["unequal_pictures"] += len(sbs) > 1
        mixed = len(sbs) == 2 and sbs[0] & (sbs[0] - 1) == 0
        ld_stats["pictures_mixing_pow2_and_pow2_plus_1_byte_slices"] += mixed
        ld_stats["refused"] += r["refused"]
        if x["inst"]["fill"] == "exact":
            for sl in x["slices"]:
                if sl["c"]["built"]:
                    ld_stats["exact_fill_slices"] += 1
                    ld_stats["exact_fill_slices_above_minimum"] += sl["q"] > x["inst"]["qmin"]
                    ld_stats["exact_fill_small_slices_at_width_change"] += bool(mixed and sl["sb"] == sbs[0])
        ld_stats["index_differs_from_spec"] += r["refused"] or [sl["q"] for sl in r["slices"]] != r["spec_q"]
        del r["spec_q"], r["got_out"]
    if min(ld_stats["exact_fill_slices_above_minimum"], ld_stats["exact_fill_small_slices_at_width_change"]) == 0:
        raise RuntimeError("vacuous: RateControlLD produced no exact-fill slice above the minimum / at a length-field width change: %s" % ld_stats)
    # ---- T: real pictures of lossy configurations
    cfgs, info = cc.configurations(ctx, only=lossy)
    all_lossy = list(cfgs)
    limit = ctx.pick(500, 1500)
    if len(cfgs) > limit:
        step = len(cfgs) / float(limit)
        cfgs = [cfgs[int(i * step)] for i in range(limit)]
    # boundary twins: the 8-bit bound of the HQ length fields is only at risk when one component takes (nearly) the
    # whole slice, i.e. large budget class x flat content x no scaler override -- a three-way interaction the pairwise
    # design does not guarantee.  Every HQ configuration with a large budget class gets a twin with those two
    # dimensions overridden (the budget itself is still the one computed by CodecOps!PictureBytes).
    twins = []
    for c in all_lossy:
        if c["cfg"]["mode"] == "hq_lossy" and c["cfg"]["pb"] in ("scaler", "edge255", "edge256") and not (c["cfg"]["content"] == "zeros" and c["cfg"]["minscaler"] == 1):
            twins.append({"cfg": dict(c["cfg"], content="zeros", minscaler=1, minq=0), "outcome": c["outcome"]})
    tw_limit = ctx.pick(150, 1000)
    if len(twins) > tw_limit:
        step = len(twins) / float(tw_limit)
        twins = [twins[int(i * step)] for i in range(tw_limit)]
    # low-delay boundary twins: real pictures, end to end (sizes measured on the stream), with picture_bytes taken from
    # the RateControlLD enumeration for the configuration's slice grid
    pbs = {}
    for x in ldi:
        pbs.setdefault((x["inst"]["sx"], x["inst"]["sy"]), set()).add(x["pb"])
    ld_twins = []
    rnd_t = random.Random(ctx.seed + 14)
    cands = [c for c in all_lossy if c["cfg"]["mode"] == "ld_lossy" and (c["cfg"]["sx"], c["cfg"]["sy"]) in pbs]
    rnd_t.shuffle(cands)
    for c in cands[: ctx.pick(120, 600)]:
        pb = rnd_t.choice(sorted(pbs[(c["cfg"]["sx"], c["cfg"]["sy"])]))
        ld_twins.append({"cfg": dict(c["cfg"], pb="ld-boundary"), "outcome": dict(c["outcome"], picture_bytes=pb)})
    if not ld_twins:
        raise RuntimeError("no low-delay configuration shares a slice grid with RateControlLD")
    cfgs = cfgs + twins + ld_twins
    jobs = [{"tid": 100000 + i, "cfg": c["cfg"], "outcome": c["outcome"], "seed": ctx.seed * 1000003 + i, "max_pictures": ctx.pick(2, 4)} for i, c in enumerate(cfgs)]
    results = common.pmap(record_pictures, jobs)
    pic_records = []
    owner = []
    status = {}
    for j, r in enumerate(results):
        status[r["status"].split(":")[0]] = status.get(r["status"].split(":")[0], 0) + 1
        for rec in r["records"]:
            pic_records.append(rec)
            owner.append(j)
    records = fit_records + ld_records + pic_records
    bad, applied, tres = judge(records)
    ctx.add_tlc(tres, "trace validation (RateControlTrace) of %d quantize_to_fit calls, %d constructed low-delay pictures and %d coded pictures" % (len(fit_records), len(ld_records), len(pic_records)))
    if not applied.get("fit") or not applied.get("hq") or not applied.get("ld"):
        raise RuntimeError("vacuous: %s" % applied)
    dis = {}
    for b in bad:
        rec = records[b["line"] - 1]
        if not b["alarm"]:
            dis[b["clause"]] = dis.get(b["clause"], 0) + 1
            continue
        if rec["ev"] == "fit":
            ctx.violation("C14|%s|quantize_to_fit" % b["clause"].split(".", 1)[1], "%s: quantize_to_fit(%s, %s, align=%s, qmin=%s) -> %s" % (b["clause"], rec["target"], rec["sets"], rec["align"], rec["qmin"], rec["q"]), {"fit": {k: rec[k] for k in ("sets", "target", "align", "qmin")}})
        elif b["line"] - 1 < len(fit_records) + len(ld_records):
            x = ldi[b["line"] - 1 - len(fit_records)]
            ctx.violation(
                "C14|%s|ld" % b["clause"].split(".", 1)[1],
                "%s on the constructed low-delay picture %s (picture_bytes=%s, slice bytes %s, budgets %s bits): make_transform_data_ld_lossy %s, the smallest fitting indices are %s" % (b["clause"], json.dumps(x["inst"], sort_keys=True), x["pb"], [sl["sb"] for sl in x["slices"]], [sl["budget"] for sl in x["slices"]], "raised InsufficientLDPictureBytesError" if rec["refused"] else "chose q=%s" % [sl["q"] for sl in rec["slices"]], [sl["q"] for sl in x["slices"]]),
                {"ldi": x},
            )
        else:
            j = owner[b["line"] - 1 - len(fit_records) - len(ld_records)]
            ctx.violation(
                "C14|%s|%s" % (b["clause"].split(".", 1)[1], rec["profile"]),
                "%s on picture %d of cfg %s: picture_bytes=%s scaler=%s total=%s q=%s sizes=%s" % (b["clause"], rec["pic"], json.dumps(jobs[j]["cfg"], sort_keys=True), rec["pb"], rec["scaler"], rec["total"], [s["q"] for s in rec["slices"]], [s["bytes"] for s in rec["slices"]]),
                {"job": jobs[j]},
            )
    st = selftest(ctx, cfgs)
    st.update(selftest_ld(ldi))
    oos = sum(1 for r in pic_records for s in r["slices"] if s["oos"])
    qhist = {}
    for r in ld_records + pic_records:
        for s in r["slices"]:
            b = "q=qmin" if s["q"] == r["qmin"] else "q>qmin"
            qhist[b] = qhist.get(b, 0) + 1
    scalers = sorted(set(r["scaler"] for r in pic_records))
    if qhist.get("q>qmin", 0) == 0:
        raise RuntimeError("vacuous: no slice needed an index above the minimum")
    smp = pic_records[len(pic_records) // 2]
    ctx.coverage.update(
        {
            "traces_validated_against_impl": len(pic_records) + len(ld_records) + replayed,
            "evaluations": int(applied.get("slices", 0)) + replayed,
            "distinct_nontrivial": qhist.get("q>qmin", 0),
            "rule": "evaluations = slices of real coded pictures + TLC-generated quantize_to_fit instances judged by the C14 clauses; non-trivial = slice whose chosen qindex is above the minimum (minimality has something to refute)",
            "exhaustive": True,
            "exhaustive_note": "RateControl.tla box explored completely and every accepted instance replayed; real pictures come from a subset of the TLC pairwise design of lossy configurations (limit %d)" % limit,
            "clause_families_applied": applied,
            "quantize_to_fit_instances_replayed": replayed,
            "quantize_to_fit_instances_judged_by_trace_spec": len(fit_records),
            "quantize_to_fit_spec_q_differs": spec_q_dis,
            "lossy_configurations": len(cfgs),
            "boundary_twins": len(twins),
            "ld_boundary_twins": len(ld_twins),
            "ld_boundary_pictures": ld_stats,
            "coded_pictures": len(pic_records),
            "run_status": status,
            "slices_by_choice": qhist,
            "slice_size_scalers_seen": scalers,
            "out_of_scope": oos,
            "out_of_scope_note": "slices with |coefficient| >= 2^28 or qindex > 111 are not evaluated for Fits/Smallest (32-bit TLC integers)",
            "spec_disagreements": sum(dis.values()) + spec_q_dis,
            "spec_disagreement_clauses": dis,
            "binding_selftest": st,
            "configuration_space": info,
            "samples": [
                {k: fit_records[len(fit_records) // 2][k] for k in ("sets", "target", "align", "qmin", "q")},
                {"profile": smp["profile"], "pb": smp["pb"], "qmin": smp["qmin"], "scaler": smp["scaler"], "total": smp["total"], "slices": [{"q": s["q"], "bytes": s["bytes"], "ly": s["ly"], "ncoeffs": len(s["y"]) + len(s["c1"]) + len(s["c2"])} for s in smp["slices"]]},
            ],
        }
    )
    ctx.assumptions += [
        "low-delay boundary pictures (RateControlLD.tla) are fed to make_transform_data_ld_lossy as coefficient arrays (no picture, no wavelet transform, not serialised); their slice sizes are not measured -- the real-picture twins with the same picture_bytes values are",
        "pictures at most 16x8 luma samples; lossy configurations from CodecConfig.tla (both profiles, 1..12 slices, picture_bytes classes min/min+1/small/q0/scaler, minimum_qindex 0/3/20, minimum_slice_size_scaler 1..3)",
        "slice sizes are measured as the bytes the validator's hq_slice/ld_slice consume from the serialised stream",
    ]


def replay(case):
    if "ldi" in case:
        rec = ld_event((1, case["ldi"]))
        del rec["spec_q"], rec["got_out"]
        bad, _, _ = judge([rec])
        return {"violations": [b for b in bad if b["alarm"]], "record": {k: v for k, v in rec.items() if k != "slices"}, "q": [s["q"] for s in rec["slices"]]}
    if "fit" in case:
        rec = fit_event((1, case["fit"], -1))
        del rec["spec_q"]
        bad, _, _ = judge([rec])
        return {"violations": [b for b in bad if b["alarm"]], "record": rec}
    r = record_pictures(case["job"])
    if not r["records"]:
        return {"violations": [], "status": r["status"]}
    bad, _, _ = judge(r["records"])
    return {"violations": [b for b in bad if b["alarm"]], "status": r["status"], "pictures": [{k: v for k, v in rec.items() if k != "slices"} for rec in r["records"]]}
