"""C19 -- sequence completion (symbol_re.make_matching_sequence) is sound, complete and shortest.

Spec: spec/SeqCompletionOps.tla (declarative ValidCompletion / DeclShortest; operational product-automaton
breadth-first search Shortest; DeviationGreedyTake = the search that inserts only when the next required symbol
cannot be taken) + spec/SeqCompletion.tla (one behaviour = one call; the code's two moves as actions; TLC checks
MachineSound, MachineMinimal, DeclAgrees, GreedyNeverBetter).

Binding G (spec -> code): TLC enumerates every case of the exhaustive box (required list x pattern list x
limit) and computes what the call must return; every case is executed on the real function.
Binding T (code -> spec): every recorded call -- the enumerated ones, random larger ones (more / bigger patterns,
symbol priorities) and the real combinations (generic pattern, level pattern, test-case pattern, picture lists,
the encoder's priorities) -- is judged line by line by spec/SeqCompletionTrace.tla: the result is the required
symbols plus insertions, every pattern matches it, it is as short as the spec's shortest; "impossible" only if
the spec finds nothing.  All verdicts come from TLC.

Attribution: a NotShortest / ImpossibleButCompletionExists case gets the signature of defect D6 only if the
DeviationGreedyTake search predicts the recorded outcome of that very case.
"""
import os
import random
import shutil
import signal

from .. import common, tlc, tlaval
from . import c18, c18_trace

SIG_D6 = "C19|DeviationGreedyTake@symbol_re.py:make_matching_sequence"
WILD = "."

CASES_CFG = """SPECIFICATION Spec
CONSTANTS
  ReqSyms = {"a", "b"}
  MaxReq1 = %(MaxReq1)d
  MaxReq2 = %(MaxReq2)d
  PatSyms = {"a", "b"}
  MaxOps1 %(MaxOps1)s
  MaxOps2 %(MaxOps2)s
  Limits = %(Limits)s
  MaxW = 0
  DeclBound = 0
INVARIANT GreedyNeverBetter
CHECK_DEADLOCK FALSE
"""

BOXES = {
    "quick": [{"MaxReq1": 2, "MaxReq2": 1, "MaxOps1": 2, "MaxOps2": 1, "Limits": [1, 3]}],
    "thorough": [{"MaxReq1": 3, "MaxReq2": 2, "MaxOps1": 2, "MaxOps2": 1, "Limits": [1, 2, 3]}],
}


def cases_cfg(b):
    def opt(v):
        return "<- None" if v is None else "= %d" % v

    return CASES_CFG % {"MaxReq1": b["MaxReq1"], "MaxReq2": b["MaxReq2"], "MaxOps1": opt(b["MaxOps1"]), "MaxOps2": opt(b["MaxOps2"]), "Limits": "{" + ", ".join(str(x) for x in b["Limits"]) + "}"}


class _Timeout(BaseException):
    pass


def _alarm(signum, frame):
    raise _Timeout()


def call(req, texts, limit, priority=None, guard_s=20):
    """run the real function; -> event fields (res, w) or res = "crash"/"timeout" """
    from vc2_conformance.symbol_re import make_matching_sequence, ImpossibleSequenceError

    kw = {}
    if limit is not None:
        kw["depth_limit"] = limit
    if priority:
        kw["symbol_priority"] = list(priority)
    old = signal.signal(signal.SIGALRM, _alarm)
    signal.alarm(guard_s)
    try:
        try:
            out = make_matching_sequence(list(req), *texts, **kw)
        finally:
            signal.alarm(0)
            signal.signal(signal.SIGALRM, old)
    except ImpossibleSequenceError:
        return {"res": "impossible", "w": []}
    except _Timeout:
        return {"res": "timeout", "w": []}
    except Exception as e:  # noqa
        return {"res": "crash", "w": [], "what": common.exc_signature(e)}
    if not isinstance(out, (list, tuple)) or not all(isinstance(x, str) for x in out):
        return {"res": "crash", "w": [], "what": "result is not a list of symbols: %r" % (out,)}
    return {"res": "seq", "w": list(out)}


def exec_enum(job):
    tid, req, pats, texts, limit, short, greedy = job
    r = call(req, texts, limit)
    ev = {"tid": tid, "req": req, "pats": pats, "limit": limit, "short": short, "greedy": greedy, "texts": texts}
    ev.update(r)
    return ev


def load_cases(dump_path):
    out = []
    for st in c18.parse_dump(dump_path, ("cs", "out")):
        if st["out"]["short"] == -2:
            continue
        cs = tlaval.to_jsonable(st["cs"])
        o = tlaval.to_jsonable(st["out"])
        texts = [" ".join(t) for t in o["txt"]]
        out.append((list(cs["req"]), [p for p in cs["pats"]], texts, cs["limit"], o["short"], o["greedy"]))
    return out


# ---------------------------------------------------------------------------- random and real cases
def rand_case(arg):
    tid, seed = arg
    rnd = random.Random(seed)
    npat = rnd.choice([1, 1, 2, 2, 3])
    pats = []
    texts = []
    for _ in range(npat):
        a = c18_trace.rand_ast(rnd, rnd.randrange(1, 6))
        a = _abc(a)
        pats.append(a)
        texts.append(c18_trace.spell(rnd, a))
    req = [rnd.choice(["a", "b", "c"]) for _ in range(rnd.choice([0, 1, 1, 2, 2, 3, 4]))]
    limit = rnd.choice([1, 2, 3, 3])
    prio = rnd.choice([None, None, ["c", "a"], ["b"], ["q", "a", "b"]])
    ev = {"tid": tid, "req": req, "pats": pats, "limit": limit, "texts": texts, "priority": prio}
    ev.update(call(req, texts, limit, prio))
    return ev


def _abc(a):
    """restrict the random patterns to three symbols so that completions exist often"""
    if a[0] == "sym":
        return ["sym", {"d": "a"}.get(a[1], a[1])]
    return [a[0]] + [_abc(x) if isinstance(x, list) else x for x in a[1:]]


GENERIC = "sequence_header .* end_of_sequence"
ENCODER_PRIORITY = ["padding_data", "sequence_header"]


def real_jobs(ctx):
    """generic pattern AND each level pattern AND (nothing | each test-case pattern) x picture lists"""
    pats = c18.real_patterns()
    levels = [(t, wh) for t, wh in pats if wh.startswith("level")]
    others = [None] + [t for t, wh in pats if not wh.startswith("level") and t != GENERIC]
    kinds = {
        "hq": ["high_quality_picture"],
        "ld": ["low_delay_picture"],
        "hq_frag": ["high_quality_picture_fragment"] * 3,
        "ld_frag": ["low_delay_picture_fragment"] * 2,
    }
    jobs = []
    tid = 0
    for lt, _ in levels:
        for ot in others:
            for kname, unit in sorted(kinds.items()):
                for n in range(0, ctx.pick(3, 5)):
                    tid += 1
                    texts = [GENERIC, lt] + ([ot] if ot else [])
                    jobs.append((tid, unit * n, texts))
    return jobs


def real_case(job):
    tid, req, texts = job
    pats = [c18.parse_pattern(t) for t in texts]
    ev = {"tid": tid, "req": req, "pats": pats, "limit": 3, "texts": texts, "priority": ENCODER_PRIORITY}
    ev.update(call(req, texts, None, ENCODER_PRIORITY))  # default depth_limit, as the encoder calls it
    return ev


# ---------------------------------------------------------------------------- judging (T)
TRACE_KEYS = ("tid", "req", "pats", "limit", "res", "w", "short", "greedy")


def judge(ctx, events, stats, chunk=12000):
    """all verdicts come from SeqCompletionTrace.tla"""
    from .. import trace

    crashed = [e for e in events if e["res"] == "crash"]
    for e in crashed:
        ctx.violation("C19|" + e["what"][:120], "make_matching_sequence(%r, %s, depth_limit=%s) -> %s" % (e["req"], e["texts"], e["limit"], e["what"]), _case(e))
    stats["timeouts"] += sum(1 for e in events if e["res"] == "timeout")
    ok = [e for e in events if e["res"] in ("seq", "impossible")]
    parts = [ok[i : i + chunk] for i in range(0, len(ok), chunk)]
    if len(parts) >= 3:
        import multiprocessing

        with multiprocessing.get_context("fork").Pool(min(4, len(parts))) as pool:
            results = pool.map(_validate_part, parts, 1)
    else:
        results = [_validate_part(p) for p in parts]
    for part, (bad, summ) in zip(parts, results):
        ctx.tlc_runs.append(dict(summ, name="trace validation (SeqCompletionTrace: enumerated, random and real calls)"))
        ctx.coverage["states"] = ctx.coverage.get("states", 0) + summ["distinct_states"]
        ctx.coverage["transitions"] = ctx.coverage.get("transitions", 0) + summ["states_generated"]
        for b in bad:
            if not b["alarm"]:
                stats["out_of_domain"] += 1
                continue
            e = part[b["line"] - 1]
            sig = SIG_D6 if b["dev"] else "C19|" + b["clause"]
            what = "make_matching_sequence(%r, %s, depth_limit=%s%s) -> %s; clause %s (spec: %s)%s" % (
                e["req"],
                ", ".join(repr(t) for t in e["texts"]),
                e["limit"],
                ", symbol_priority=%r" % e["priority"] if e.get("priority") else "",
                e["w"] if e["res"] == "seq" else "ImpossibleSequenceError",
                b["clause"],
                b["k"],
                ", as DeviationGreedyTake predicts" if b["dev"] else "",
            )
            ctx.violation(sig, what, _case(e))
            stats["alarms"] += 1
    stats["judged"] += len(ok)
    stats["returned"] += sum(1 for e in ok if e["res"] == "seq")
    stats["nontrivial"] += len(set(repr((e["req"], e["pats"], e["limit"], e.get("priority"))) for e in ok if e["res"] == "seq" and len(e["w"]) > len(e["req"])))
    stats["impossible"] += sum(1 for e in ok if e["res"] == "impossible")
    return ok


_MAIN_PID = os.getpid()


def _validate_part(part):
    from .. import trace

    recs = [{k: e[k] for k in TRACE_KEYS if k in e} for e in part]
    try:
        bad, res = trace.validate("SeqCompletionTrace", recs)
        return bad, res.summary()
    finally:
        if os.getpid() != _MAIN_PID:  # pool worker: its scratch directory is not removed by atexit
            shutil.rmtree(tlc.scratch_root(), ignore_errors=True)


def _case(e):
    label = e.get("part")
    return {"part": label, "req": e["req"], "pats": e["pats"], "texts": e["texts"], "limit": e["limit"], "priority": e.get("priority"), "default_limit": label == "real"}


# ---------------------------------------------------------------------------- self-test
def selftest_binding(ctx, sample_events):
    """(1) a broken implementation installed in-process is flagged through the same path; (2) corrupted
    recorded fields are rejected by the trace spec."""
    from .. import trace
    from vc2_conformance import symbol_re

    orig = symbol_re.make_matching_sequence

    def repeats_last_symbol(initial_sequence, *patterns, **kw):
        out = orig(initial_sequence, *patterns, **kw)
        if len(out) > len(initial_sequence):
            return out + [out[-1]]
        return out

    symbol_re.make_matching_sequence = repeats_last_symbol
    try:
        evs = []
        for e in sample_events:
            ev = {k: e[k] for k in ("tid", "req", "pats", "limit", "texts") if k in e}
            ev.update(call(e["req"], e["texts"], e["limit"]))
            evs.append(ev)
    finally:
        symbol_re.make_matching_sequence = orig
    bad, _ = trace.validate("SeqCompletionTrace", [{k: e[k] for k in TRACE_KEYS if k in e} for e in evs if e["res"] in ("seq", "impossible")])
    hit = sum(1 for b in bad if b["alarm"] and not b["dev"])
    if hit == 0:
        raise RuntimeError("binding self-test failed: a completion with a duplicated symbol was not flagged")
    # corrupted fields
    base = [e for e in sample_events if e["res"] == "seq" and len(e["w"]) > len(e["req"])]
    if not base:
        raise RuntimeError("binding self-test could not run: no non-trivial completion in the sample")
    e = base[0]
    rec = {k: e[k] for k in TRACE_KEYS if k in e and k not in ("short", "greedy")}
    probes = [dict(rec, tid=1, w=rec["w"] + [rec["w"][-1]]), dict(rec, tid=2, res="impossible", w=[]), dict(rec, tid=3)]
    pbad, _ = trace.validate("SeqCompletionTrace", probes)
    got = sorted((b["tid"], b["clause"]) for b in pbad if b["alarm"])
    if [t for t, _ in got] != [1, 2]:
        raise RuntimeError("trace binding self-test failed: %r" % (got,))
    return {"in-process mutant (result with an extra symbol) flagged on cases": hit, "corrupted records": got}


# ---------------------------------------------------------------------------- run
def run(ctx):
    stats = {"judged": 0, "returned": 0, "impossible": 0, "nontrivial": 0, "alarms": 0, "timeouts": 0, "out_of_domain": 0}
    thm = c18.run_tlc("SeqCompletion", "mc/SeqCompletion.cfg" if ctx.quick else "mc/SeqCompletion_thorough.cfg")
    ctx.add_tlc(thm, "search machine + theorems (MachineSound, MachineMinimal, DeclAgrees, GreedyNeverBetter, StateIsFoldOfW)")
    enum_events = []
    seen = set()
    dev_cases = 0
    tid = 0
    for b in BOXES[ctx.tier]:
        res = c18.run_tlc("SeqCompletion", cases_cfg(b), dump=True)
        ctx.add_tlc(res, "case enumeration (Solve)", b)
        jobs = []
        for req, pats, texts, limit, short, greedy in load_cases(res.dump_path):
            key = repr((req, pats, limit))
            if key in seen:
                continue
            seen.add(key)
            tid += 1
            dev_cases += short != greedy
            jobs.append((tid, req, pats, texts, limit, short, greedy))
        enum_events += common.pmap(exec_enum, jobs)
    if not enum_events:
        raise RuntimeError("TLC enumerated no case")
    if dev_cases == 0:
        raise RuntimeError("vacuous attribution model: DeviationGreedyTake never differs from Shortest in the box")
    n_rand = ctx.pick(1500, 20000)
    rand_events = common.pmap(rand_case, [(i + 1, ctx.seed * 104729 + i) for i in range(n_rand)])
    rj = real_jobs(ctx)
    real_events = common.pmap(real_case, rj)
    for label, evs in (("enum", enum_events), ("random", rand_events), ("real", real_events)):
        for e in evs:
            e["part"] = label
    judged = judge(ctx, enum_events + rand_events + real_events, stats, chunk=ctx.pick(40000, 12000))
    if stats["returned"] == 0 or stats["nontrivial"] == 0 or stats["impossible"] == 0:
        raise RuntimeError("vacuous run: %r" % stats)
    sample = [e for e in judged if e["res"] == "seq" and len(e["w"]) > len(e["req"])][:: max(1, len(judged) // 400)][:200]
    st = selftest_binding(ctx, sample)
    ctx.coverage.update(
        {
            "traces_validated_against_impl": stats["judged"],
            "evaluations": stats["judged"],
            "distinct_nontrivial": stats["nontrivial"],
            "rule": "one evaluation = one real call of make_matching_sequence judged by SeqCompletionTrace.tla; distinct non-trivial = distinct (required list, pattern ASTs, limit, priorities) for which the call returned a sequence with at least one inserted symbol",
            "exhaustive": True,
            "enumerated_cases": len(enum_events),
            "cases_where_greedy_deviation_differs": dev_cases,
            "random_cases": len(rand_events),
            "real_cases": len(real_events),
            "returned": stats["returned"],
            "impossible": stats["impossible"],
            "out_of_scope": {"calls stopped by the time guard (20 s)": stats["timeouts"], "calls with a pattern outside the property's domain ('$' before something mandatory)": stats["out_of_domain"]},
            "spec_disagreements": 0,
            "violating_cases": stats["alarms"],
            "binding_selftest": st,
            "samples": [_sample(e) for e in (sample[:2] + [e for e in rand_events if e["res"] == "seq"][:1] + [e for e in real_events if e["res"] == "seq"][-2:])],
        }
    )
    ctx.assumptions += [
        "a wildcard in the result ('.') stands for any symbol and is judged as a symbol that only wildcards match",
        "enumerated patterns are spelled with minimal parentheses (C18 covers the spellings); symbols a, b",
        "'permitted number of consecutive insertions' = depth_limit, counted per gap (before the first, between, and after the last required symbol)",
    ]


def _sample(e):
    return {"req": e["req"], "patterns": e["texts"], "limit": e["limit"], "priority": e.get("priority"), "result": e["w"] if e["res"] == "seq" else e["res"]}


def replay(case):
    from .. import trace

    lim = None if case.get("default_limit") else case["limit"]
    ev = {"tid": 1, "req": case["req"], "pats": case["pats"], "limit": case["limit"]}
    ev.update(call(case["req"], case["texts"], lim, case.get("priority")))
    if ev["res"] in ("crash", "timeout"):
        return {"violations": [ev] if ev["res"] == "crash" else [], "event": ev}
    bad, _ = trace.validate("SeqCompletionTrace", [{k: ev[k] for k in TRACE_KEYS if k in ev}])
    return {"violations": [b for b in bad if b["alarm"]], "event": ev}
