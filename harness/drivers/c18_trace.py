"""C18, direction T: call logs of real Matcher objects on random larger patterns, judged by SymbolRegexTrace.tla."""
import random

from .. import common

SYMS = ["a", "b", "c", "d"]
ALPHABET = SYMS + ["z"]
SIG_D3 = "C18|DeviationBidirEpsilon@symbol_re.py:NFA.from_ast"


def rand_ast(rnd, ops, tail=True):
    """random AST with `ops` operators; '$' only generated in tail position (most of the time)"""
    if ops == 0:
        r = rnd.random()
        if r < 0.12:
            return ["any"]
        if r < 0.18 and (tail or rnd.random() < 0.05):
            return ["end"]
        if r < 0.21:
            return ["eps"]
        return ["sym", rnd.choice(SYMS)]
    k = rnd.random()
    if k < 0.4:
        return [rnd.choice(["star", "opt", "plus"]), rand_ast(rnd, ops - 1, tail)]
    left = rnd.randrange(ops)
    if k < 0.75:
        return ["cat", rand_ast(rnd, left, False), rand_ast(rnd, ops - 1 - left, tail)]
    return ["alt", rand_ast(rnd, left, tail), rand_ast(rnd, ops - 1 - left, tail)]


def spell(rnd, a, lvl=0):
    """AST -> pattern text (concretisation): minimal parentheses plus random redundant ones and blanks"""
    t = a[0]
    sp = lambda: rnd.choice(["", " ", " ", "  ", "\n", "\t"])  # noqa
    if t == "sym":
        s = a[1]
    elif t == "any":
        s = "."
    elif t == "end":
        s = "$"
    elif t == "eps":
        s = "(" + sp() + ")"
    elif t == "cat":
        s = spell(rnd, a[1], 1) + " " + sp() + spell(rnd, a[2], 1)
        if lvl >= 2:
            s = "(" + s + ")"
    elif t == "alt":
        s = spell(rnd, a[1], 0) + sp() + "|" + sp() + spell(rnd, a[2], 0)
        if lvl >= 1:
            s = "(" + s + ")"
    else:
        s = spell(rnd, a[1], 2) + sp() + {"star": "*", "opt": "?", "plus": "+"}[t]
        if lvl >= 2:
            s = "(" + s + ")"
    if rnd.random() < 0.1:
        s = "(" + sp() + s + sp() + ")"
    return s


def record_case(arg):
    tid, seed, ops, nsteps = arg
    from vc2_conformance.symbol_re import Matcher

    rnd = random.Random(seed)
    a = rand_ast(rnd, ops)
    text = spell(rnd, a)
    ev = [{"tid": tid, "ev": "begin", "ast": a, "alphabet": ALPHABET, "text": text}]
    try:
        m = Matcher(text)
    except Exception as e:  # noqa
        ev.append({"tid": tid, "ev": "crash", "what": common.exc_signature(e)})
        return ev

    def query():
        vns = sorted("$" if s == "" else s for s in m.valid_next_symbols())
        ev.append({"tid": tid, "ev": "query", "complete": bool(m.is_complete()), "vns": vns})
        return vns

    for _ in range(nsteps):
        vns = query()
        offered = [x for x in vns if x not in ("$", ".")]
        if offered and rnd.random() < 0.65:
            x = rnd.choice(offered)
        else:
            x = rnd.choice(ALPHABET)
        ev.append({"tid": tid, "ev": "match", "x": x, "res": bool(m.match_symbol(x))})
    query()
    return ev


def jobs_for(ctx):
    n = ctx.pick(500, 6000)
    out = []
    for tid in range(1, n + 1):
        ops = 3 + tid % 6
        out.append((tid, ctx.seed * 7919 + tid, ops, 10 + tid % 5))
    return out


def trace_direction(ctx):
    from .. import trace

    jobs = jobs_for(ctx)
    evs = common.pmap(record_case, jobs)
    clean = []
    start = {}
    for j, ev in zip(jobs, evs):
        start[j[0]] = len(clean)
        for r in ev:
            if r["ev"] == "crash":
                ctx.violation("C18|Matcher|" + r["what"], "Matcher(%r) raised" % ev[0]["text"], {"trace": list(j)})
            else:
                clean.append(r)
    bad, res = trace.validate("SymbolRegexTrace", clean)
    ctx.add_tlc(res, "trace validation (SymbolRegexTrace)")
    alarms = 0
    out_of_domain = 0
    for b in bad:
        if not b["alarm"]:
            out_of_domain += 1
            continue
        alarms += 1
        rec = clean[b["line"] - 1]
        j = jobs[b["tid"] - 1]
        text = clean[start[b["tid"]]]["text"]
        sig = SIG_D3 if b["dev"] else "C18|trace|" + b["clause"]
        ctx.violation(sig, "%r: recorded %s (clause %s%s)" % (text, {k: v for k, v in rec.items() if k not in ("tid",)}, b["clause"], ", as DeviationBidirEpsilon predicts" if b["dev"] else ""), {"trace": list(j), "line": b["line"] - start[b["tid"]]})
    # binding self-test: flip one recorded answer -> exactly that line must be rejected
    probe = None
    for ev in evs:
        if any(b["tid"] == ev[0]["tid"] for b in bad):
            continue
        ms = [i for i, r in enumerate(ev) if r["ev"] == "match"]
        if ms:
            probe = [dict(r) for r in ev]
            i = ms[len(ms) // 2]
            probe[i]["res"] = not probe[i]["res"]
            pbad, _ = trace.validate("SymbolRegexTrace", probe)
            if not any(b["alarm"] and b["line"] == i + 1 for b in pbad):
                raise RuntimeError("trace binding self-test failed: flipped match_symbol result accepted")
            break
    if probe is None:
        raise RuntimeError("trace binding self-test could not run (no clean trace)")
    nontriv = sum(1 for r in clean if r["ev"] == "match" and r["res"])
    if nontriv == 0:
        raise RuntimeError("vacuous traces: no symbol was ever accepted")
    return {
        "traces": len(jobs),
        "events": len(clean),
        "accepted_symbols": nontriv,
        "alarms": alarms,
        "out_of_domain_patterns": out_of_domain,
        "selftest": "flipping one recorded match_symbol result is rejected at that line",
        "samples": [{"trace_pattern": evs[0][0]["text"], "events": evs[0][1:6]}],
        "bounds": "patterns of 3..8 operators over {a,b,c,d,.,$,()}, 10..14 match_symbol calls over {a,b,c,d,z}",
    }


def replay(case):
    from .. import trace

    ev = record_case(tuple(case["trace"]))
    if any(r["ev"] == "crash" for r in ev):
        return {"violations": [r for r in ev if r["ev"] == "crash"], "events": ev}
    bad, _ = trace.validate("SymbolRegexTrace", ev)
    return {"violations": [b for b in bad if b["alarm"]], "pattern": ev[0]["text"], "events": ev[1 : case.get("line", 3) + 1][-4:]}
