"""C05 -- decoder test cases are conformant and decode to their intended pictures.

Spec   : spec/TestCasesOps.tla (the catalogue transcribed from the generator docstrings), spec/TestCases.tla (the life
         of a test case; TLC enumerates abstract configuration x family x sub-case), spec/TestCasesTrace.tla.
Binding: G -- every abstract configuration TLC enumerates (profile, lossless, fragments, fields) is instantiated
         (secondary parameters by seed: wavelets, depths, colour format, bit depths, picture size), the REAL registered
         generators are run, and the test cases produced are compared with the (family, sub-case) expectations of
         TLC's dump.  T -- every produced test case is serialised, validated + decoded by the real decoder, compared
         with the decode of the plain encodings of the sources, and recorded as one event; TLC (TestCasesTrace)
         judges each event against the catalogue relation.
"""
import os
import random
import re
import sys
import traceback
from io import BytesIO

from .. import common, tlc, tlaval, trace

SLOW = ("signal_range", "real_pictures")
# families built on mid-grey sources (cheap): run on many extra slice geometries / byte budgets
LIGHT = ("slice_padding_data", "slice_prefix_bytes", "padding_data", "slice_size_scaler", "absent_next_parse_offset", "dangling_bounded_block_data")


def _tests_path():
    p = os.path.join(common.REPO, "tests")
    if p not in sys.path:
        sys.path.append(p)


def base_features():
    from vc2_conformance.codec_features import read_codec_features_csv

    with open(os.path.join(common.REPO, "tests", "sample_codec_features.csv")) as f:
        return read_codec_features_csv(f)["minimal"]


BIT_DEPTHS = {
    "8": dict(luma_offset=0, luma_excursion=255, color_diff_offset=128, color_diff_excursion=255),
    "10": dict(luma_offset=64, luma_excursion=876, color_diff_offset=512, color_diff_excursion=896),
    "16/14": dict(luma_offset=0, luma_excursion=(1 << 16) - 1, color_diff_offset=(1 << 14) // 2, color_diff_excursion=(1 << 14) - 1),
}


def concretise(ab, sec):
    """abstract configuration (TLC) + secondary parameters (seeded) -> CodecFeatures"""
    from vc2_data_tables import Profiles, PictureCodingModes, WaveletFilters, ColorDifferenceSamplingFormats
    from vc2_conformance.codec_features import CodecFeatures
    from vc2_conformance.pseudocode.video_parameters import VideoParameters

    base = base_features()
    w, h = sec["size"]
    vp = VideoParameters(base["video_parameters"], frame_width=w, frame_height=h, clean_width=w, clean_height=h, color_diff_format_index=ColorDifferenceSamplingFormats(sec["cdf"]), **BIT_DEPTHS[sec["bits"]])
    kw = dict(
        profile=Profiles.high_quality if ab["profile"] == "hq" else Profiles.low_delay,
        picture_coding_mode=PictureCodingModes.pictures_are_fields if ab["fields"] else PictureCodingModes.pictures_are_frames,
        video_parameters=vp,
        wavelet_index=WaveletFilters(sec["wavelet"]),
        wavelet_index_ho=WaveletFilters(sec["wavelet_ho"]),
        dwt_depth=sec["depth"],
        dwt_depth_ho=sec["depth_ho"],
        slices_x=sec["slices"][0],
        slices_y=sec["slices"][1],
        fragment_slice_count=(sec["slices"][0] if ab["fragments"] else 0),
        quantization_matrix=sec["qm"],
    )
    if ab["lossless"]:
        kw.update(lossless=True, picture_bytes=None)
    else:
        kw.update(lossless=False, picture_bytes=sec["picture_bytes"])
    return CodecFeatures(base, **kw)


def secondary(rnd, plain=False):
    """seeded choice of the parameters the catalogue does not depend on"""
    import vc2_data_tables as t

    if plain:
        return {"size": (8, 4), "cdf": 0, "bits": "8", "wavelet": 4, "wavelet_ho": 4, "depth": 1, "depth_ho": 0, "slices": (2, 1), "picture_bytes": 24, "qm": None}
    size, slices = rnd.choice([((8, 4), (2, 1)), ((8, 4), (2, 1)), ((16, 8), (2, 2)), ((12, 4), (3, 1)), ((12, 8), (3, 2))])
    if rnd.random() < 0.25:
        # asymmetric transform with a custom quantisation matrix (no default exists)
        depth, depth_ho = 1, rnd.choice([1, 2])
        wavelet, wavelet_ho = rnd.choice(list(range(7))), rnd.choice(list(range(7)))
        qm = {0: {"L": rnd.randrange(4)}}
        for lv in range(1, depth_ho + 1):
            qm[lv] = {"H": rnd.randrange(6)}
        for lv in range(depth_ho + 1, depth_ho + depth + 1):
            qm[lv] = {"LH": rnd.randrange(6), "HL": rnd.randrange(6), "HH": rnd.randrange(8)}
    else:
        wavelet = wavelet_ho = rnd.choice(list(range(7)))
        depth, depth_ho = rnd.choice([(1, 0), (1, 0), (2, 0), (3, 0)])
        qm = None
        if (wavelet, wavelet_ho, depth, depth_ho) not in t.QUANTISATION_MATRICES:
            depth, depth_ho = 1, 0
    nsl = slices[0] * slices[1]
    return {
        "size": size,
        "cdf": rnd.choice([0, 0, 1, 2]),
        "bits": rnd.choice(["8", "8", "10", "16/14"]),
        "wavelet": wavelet,
        "wavelet_ho": wavelet_ho,
        "depth": depth,
        "depth_ho": depth_ho,
        "slices": slices,
        # also budgets that are NOT a multiple of the slice count: slices of unequal size (13.5.3.2 / 13.5.4)
        "picture_bytes": nsl * rnd.choice([12, 16, 24, 40]) + rnd.choice([0, 0, 1, nsl - 1, nsl // 2 + 1]),
        "qm": qm,
    }


def _decode(stream_bytes):
    """validate + decode with the real decoder -> (accepted, error, [(picture, vp, pcm)])"""
    from vc2_conformance.pseudocode.state import State
    from vc2_conformance.decoder import init_io, parse_stream, ConformanceError

    pics = []

    def cb(picture, video_parameters, picture_coding_mode):
        pics.append((picture, video_parameters, picture_coding_mode))

    st = State(_output_picture_callback=cb)
    init_io(st, BytesIO(stream_bytes))
    try:
        parse_stream(st)
    except ConformanceError as e:
        return False, "%s: %s" % (type(e).__name__, str(e)[:200]), pics
    return True, "", pics


def _serialise(stream):
    from vc2_conformance.bitstream import autofill_and_serialise_stream

    f = BytesIO()
    autofill_and_serialise_stream(f, stream)
    return f.getvalue()


def _plain(cf, src, rep):
    """decode of the plain encoding of `rep` repetitions of the source sequence"""
    from vc2_conformance import picture_generators as pg
    from vc2_conformance.encoder import make_sequence
    from vc2_conformance.bitstream import Stream

    gen = {"static_sprite": pg.static_sprite, "mid_gray": pg.mid_gray}[src]
    pictures = gen(cf["video_parameters"], cf["picture_coding_mode"])
    if rep > 1:
        pictures = pg.repeat_pictures(pictures, rep)
    ok, err, pics = _decode(_serialise(Stream(sequences=[make_sequence(cf, pictures)])))
    if not ok:
        raise RuntimeError("plain encoding of %s x%d is rejected: %s" % (src, rep, err))
    return [p for p, _, _ in pics]


def _same(a, b):
    return len(a) == len(b) and all(x["Y"] == y["Y"] and x["C1"] == y["C1"] and x["C2"] == y["C2"] for x, y in zip(a, b))


def _is_grey(pics):
    from vc2_conformance.file_format import compute_dimensions_and_depths

    if not pics:
        return False
    for p, vp, pcm in pics:
        dd = compute_dimensions_and_depths(vp, pcm)
        for c in ("Y", "C1", "C2"):
            v = 1 << (dd[c].depth_bits - 1)
            if any(s != v for row in p[c] for s in row):
                return False
    return True


_NAME = re.compile(r"^([A-Za-z_0-9]+?)(?:\[(.*)\])?$")
_PARTS = {
    "slice_padding_data": re.compile(r"^(Y|C1|C2|C)_(.*)$"),
    "dangling_bounded_block_data": re.compile(r"^(.*)_(Y|C1|C2|C)$"),
}


def split_name(fam, subname):
    if subname is None:
        return []
    m = _PARTS.get(fam)
    if m:
        mm = m.match(subname)
        if mm:
            return [mm.group(1), mm.group(2)]
    return [subname]


def family_job(arg):
    """Run ONE registered generator for one configuration; returns list of case events (without tid)."""
    ab, sec, fam, mutate = arg
    _tests_path()
    from vc2_conformance.test_cases import DECODER_TEST_CASE_GENERATOR_REGISTRY, normalise_test_case_generator
    from smaller_real_pictures import alternative_real_pictures

    cf = concretise(ab, sec)
    fn = [f for f in DECODER_TEST_CASE_GENERATOR_REGISTRY.iter_registered_functions() if f.__name__ == fam][0]
    out = []
    gen_error = None
    bases = {}
    try:
        with alternative_real_pictures():
            cases = list(normalise_test_case_generator(fn, cf))
    except Exception as e:  # noqa
        cases = []
        gen_error = "%s: %s" % (common.exc_signature(e), str(e)[:200])
    if cases:
        p1 = _plain(cf, "mid_gray", 1)
        bases = {"ss1": _plain(cf, "static_sprite", 1), "ss2": _plain(cf, "static_sprite", 2), "mg1": p1, "mg2": _plain(cf, "mid_gray", 2), "mg1mg1": p1 + p1}
    for tc in cases:
        ev = {"ev": "case", "fam": tc.case_name, "sub": split_name(tc.case_name, tc.subcase_name), "name": tc.name}
        try:
            data = _serialise(tc.value)
            ok, err, pics = _decode(data)
        except Exception as e:  # noqa
            ok, err, pics = False, "serialise/decode raised %s: %s" % (common.exc_signature(e), str(e)[:160]), []
        dec = [p for p, _, _ in pics]
        ev["accepted"] = bool(ok)
        ev["err"] = err
        ev["params"] = all(vp == cf["video_parameters"] and pcm == cf["picture_coding_mode"] for _, vp, pcm in pics)
        ev["n"] = len(pics)
        ev["numbers"] = [trace.limbs(int(p["pic_num"])) for p in dec]
        ev["grey"] = _is_grey(pics)
        ev["eq"] = {k: _same(dec, v) for k, v in bases.items()}
        ev["bytes"] = len(data) if ok or pics else 0
        out.append(ev)
    return {"fam": fam, "events": out, "gen_error": gen_error}


def check_valid(arg):
    """The generator's own validity pre-check of a configuration (cli.check_codec_features_valid): a mid-grey
    stream must be encodable and conformant; otherwise the configuration is out of scope."""
    ab, sec = arg
    try:
        from vc2_conformance.test_cases.decoder import static_gray

        cf = concretise(ab, sec)
        ok, err, pics = _decode(_serialise(static_gray(cf)))
        return ok and bool(pics), err
    except Exception as e:  # noqa
        return False, "%s: %s" % (type(e).__name__, str(e)[:200])


def abstract_key(ab):
    return (ab["profile"], bool(ab["lossless"]), bool(ab["fragments"]), bool(ab["fields"]))


def run(ctx):
    res = tlc.run("TestCases", "mc/TestCases.cfg", dump=True)
    ctx.add_tlc(res, "catalogue: abstract configuration x family x sub-case", {"profiles": 2, "lossless": 2, "fragments": 2, "fields": 2})
    expect = {}
    for st in tlaval.iter_dump(res.dump_path):
        if st["stage"] == "generated":
            expect.setdefault(abstract_key(st["cfg"]), set()).add((str(st["fam"]), tuple(str(x) for x in st["sub"])))
    abstracts = sorted(expect)
    if len(abstracts) != 12:
        raise RuntimeError("expected 12 abstract configurations from TLC, got %d" % len(abstracts))
    rnd = random.Random(ctx.seed)
    per_abs = ctx.pick(1, 5)
    chosen = list(abstracts)
    if ctx.quick:
        # 6 of the 12: all four HQ-lossy/LD/lossless/fragments/fields values appear; the rest by seed
        must = [("hq", False, False, False), ("ld", False, False, False), ("hq", True, False, False), ("hq", False, True, False), ("ld", False, False, True)]
        rest = [a for a in abstracts if a not in must]
        chosen = must + rnd.sample(rest, 1)
    cands = []
    for a in chosen:
        ab = {"profile": a[0], "lossless": a[1], "fragments": a[2], "fields": a[3]}
        for k in range(per_abs):
            for attempt in range(6):
                sec = secondary(rnd, plain=(k == 0 and attempt == 0 and ctx.quick and a == ("hq", False, False, False)))
                cands.append((ab, sec, (a, k), attempt))
    # validity pre-check (first valid attempt of each slot is used)
    valid = common.pmap(check_valid, [(ab, sec) for ab, sec, _, _ in cands])
    configs = []
    seen = set()
    out_of_scope = 0
    for (ab, sec, slot, attempt), (ok, err) in zip(cands, valid):
        if slot in seen:
            continue
        if ok:
            seen.add(slot)
            configs.append((ab, sec))
        else:
            out_of_scope += 1
    if len(configs) < ctx.pick(5, 40):
        raise RuntimeError("only %d valid configurations could be instantiated" % len(configs))
    # extra "light" configurations: lossy LD / HQ with slice grids and byte budgets that make slices unequal,
    # on which only the cheap mid-grey families are run
    light_idx = set()
    lcands = []
    for i in range(ctx.pick(100, 400)):
        prof = "ld" if i % 2 == 0 else "hq"
        ab = {"profile": prof, "lossless": False, "fragments": i % 7 == 3, "fields": i % 5 == 4}
        # two-dimensional grids dominate: only they can tell an x/y mix-up from the right thing
        size, slices = rnd.choice([((8, 4), (2, 1)), ((16, 8), (2, 2)), ((16, 8), (2, 2)), ((12, 4), (3, 1)), ((12, 8), (3, 2)), ((12, 8), (3, 2)), ((8, 12), (2, 3)), ((16, 4), (4, 1))])
        nsl = slices[0] * slices[1]
        sec = {"size": size, "cdf": rnd.choice([0, 1, 2]), "bits": rnd.choice(["8", "10"]), "wavelet": 4, "wavelet_ho": 4, "depth": 1, "depth_ho": 0, "slices": slices,
               "picture_bytes": nsl * rnd.choice([8, 12, 16, 33]) + rnd.randrange(0, 2 * nsl), "qm": None}
        lcands.append((ab, sec))
    lvalid = common.pmap(check_valid, lcands)
    for (ab, sec), (ok, err) in zip(lcands, lvalid):
        if ok and len(light_idx) < ctx.pick(64, 250):
            light_idx.add(len(configs))
            configs.append((ab, sec))
    from vc2_conformance.test_cases import DECODER_TEST_CASE_GENERATOR_REGISTRY

    fams = [f.__name__ for f in DECODER_TEST_CASE_GENERATOR_REGISTRY.iter_registered_functions()]
    jobs = []
    for ci, (ab, sec) in enumerate(configs):
        for fam in fams:
            if ci in light_idx and fam not in LIGHT:
                continue
            if ctx.quick and fam in SLOW and ci >= 2:
                continue
            jobs.append((ci, (ab, sec, fam, None)))
    jobs.sort(key=lambda j: j[1][2] not in SLOW)
    results = common.pmap(family_job, [j[1] for j in jobs], chunksize=1)
    per_cfg = {}
    gen_errors = []
    for (ci, j), r in zip(jobs, results):
        per_cfg.setdefault(ci, []).append(r)
        if r["gen_error"]:
            gen_errors.append({"config": ci, "family": r["fam"], "error": r["gen_error"]})
    records = []
    meta = {}
    tid = 0
    produced = 0
    missing_required = []
    unexpected = []
    for ci, (ab, sec) in enumerate(configs):
        tid += 1
        records.append(dict(tid=tid, ev="cfg", **ab))
        got = set()
        order = {f: i for i, f in enumerate(fams)}
        for r in sorted(per_cfg.get(ci, []), key=lambda r: order[r["fam"]]):
            for e in r["events"]:
                rec = dict(e, tid=tid)
                rec.pop("err", None)
                records.append(rec)
                meta[len(records)] = (ci, e)
                got.add((e["fam"], tuple(e["sub"])))
                produced += 1
        exp = expect[abstract_key(ab)]
        ran = set(r["fam"] for r in per_cfg.get(ci, []))
        open_fams = set(f for f, s in exp if s == () and f in ("source_parameters_encodings",))
        for f, s in sorted(got):
            if f in open_fams:
                continue
            if (f, s) not in exp:
                unexpected.append({"config": ci, "case": [f, list(s)]})
        # families with documented mandatory sub-cases (padding_data etc.): all of TLC's sub-cases or none
        for f in ("padding_data", "slice_padding_data", "picture_numbers", "interlace_mode_and_pixel_aspect_ratio"):
            if f in ran:
                want = set(x for x in exp if x[0] == f)
                have = set(x for x in got if x[0] == f)
                if have and have != want:
                    missing_required.append({"config": ci, "family": f, "missing": sorted(list(s) for _, s in want - have)})
    if produced < ctx.pick(150, 1500):
        raise RuntimeError("only %d test cases were produced: vacuous" % produced)
    bad, tres = trace.validate("TestCasesTrace", records)
    ctx.add_tlc(tres, "trace validation (TestCasesTrace)")
    dis = 0
    dis_clauses = {}
    for b in bad:
        ci, e = meta[b["line"]]
        ab, sec = configs[ci]
        if b["alarm"]:
            detail = e["err"] if b["clause"] == "NotAccepted" else ""
            sig = "C05|%s|%s" % (b["clause"], e["fam"])
            if b["clause"] == "NotAccepted":
                sig += "|" + (detail.split(":")[0] or "?")
            ctx.violation(sig, "%s for %s: %s %s (config: %s %s)" % (b["clause"], e["name"], {k: e[k] for k in ("accepted", "params", "n", "grey", "eq")}, detail, ab, sec), {"ab": ab, "sec": sec, "fam": e["fam"], "name": e["name"]})
        else:
            dis += 1
            dis_clauses[b["clause"]] = dis_clauses.get(b["clause"], 0) + 1
    # --- binding self-tests
    st = selftest(configs[0])
    by_rel = {}
    for ln, (ci, e) in meta.items():
        by_rel[e["fam"]] = by_rel.get(e["fam"], 0) + 1
    samples = []
    for ln in sorted(meta)[:: max(1, len(meta) // 5)][:5]:
        ci, e = meta[ln]
        samples.append({"config": configs[ci][0], "secondary": {k: v for k, v in configs[ci][1].items() if k != "qm"}, "case": e["name"], "accepted": e["accepted"], "n": e["n"], "grey": e["grey"], "eq": e["eq"]})
    ctx.coverage.update(
        {
            "traces_validated_against_impl": produced,
            "evaluations": produced,
            "distinct_nontrivial": sum(1 for ci, e in meta.values() if e["fam"] not in ("static_gray",)),
            "rule": "one evaluation = one test case really produced by a registered generator, serialised, validated and decoded by the real decoder and judged by TestCasesTrace against the catalogue relation; non-trivial = every family except the bare static_gray",
            "exhaustive": False,
            "exhaustive_note": "TLC enumerates all 12 abstract configurations x 20 families x catalogued sub-cases (642 expectations); the concrete configuration space is sampled: %d configurations (%d per abstract configuration), secondary parameters by seed" % (len(configs), per_abs),
            "configurations": len(configs),
            "light_configurations_unequal_slices": len(light_idx),
            "abstract_configurations_covered": len(set(abstract_key(ab) for ab, _ in configs)),
            "out_of_scope": out_of_scope,
            "families_run": len(fams),
            "cases_per_family": by_rel,
            "generator_errors": gen_errors[:10],
            "generator_error_count": len(gen_errors),
            "spec_disagreements": dis + len(missing_required) + len(unexpected),
            "spec_disagreement_clauses": dis_clauses,
            "catalogue_missing_required": missing_required[:10],
            "catalogue_unexpected_cases": unexpected[:10],
            "binding_selftest": st,
            "secondary_values_seen": {k: sorted(set(str(sec[k]) for _, sec in configs)) for k in ("size", "cdf", "bits", "wavelet", "depth", "depth_ho", "slices")},
            "samples": samples,
        }
    )
    ctx.assumptions += [
        "configurations: the minimal sample configuration of the test suite varied in profile, lossless, fragments, fields (all combinations enumerated by TLC) and, by seed, wavelet, transform depths, colour-difference format, bit depths, picture size/slices, picture_bytes, custom quantisation matrix",
        "the real_pictures family uses the test suite's small natural pictures (tests/smaller_real_pictures.py)",
        "'plain encoding of the same source' = encoder.make_sequence(configuration, source pictures) decoded by the same decoder",
        "quick tier runs the two slow families (signal_range, real_pictures) on two configurations only",
    ]


def selftest(config):
    """(1) a generator helper broken in-process so that a padding variant changes picture content while staying
    conformant must be flagged NotSameAsPlain; (2) a corrupted recorded field must be flagged."""
    from vc2_conformance.test_cases.decoder import pictures as P

    ab, sec = config
    if ab["profile"] != "hq":
        raise RuntimeError("self-test expects an HQ configuration first")
    orig_hq = P.fill_hq_slice_padding

    def broken_hq(state, sx, sy, hq_slice, component, *a, **k):
        # the filler also turns the first coefficient of the padded component into 1 (4 bits instead of 1) and
        # shortens the padding by the 3 bits: still a conformant stream, but no longer the same picture
        orig_hq(state, sx, sy, hq_slice, component, *a, **k)
        c = component.lower()
        pad = hq_slice.get(c + "_block_padding")
        if pad is not None and len(pad) >= 3 and hq_slice[c + "_transform"]:
            hq_slice[c + "_transform"][0] = 1
            hq_slice[c + "_block_padding"] = pad[3:]

    P.fill_hq_slice_padding = broken_hq
    try:
        r = family_job((ab, sec, "slice_padding_data", None))
    finally:
        P.fill_hq_slice_padding = orig_hq
    recs = [dict(tid=1, ev="cfg", **ab)] + [dict({k: v for k, v in e.items() if k != "err"}, tid=1) for e in r["events"]]
    bad, _ = trace.validate("TestCasesTrace", recs)
    hit = [b for b in bad if b["alarm"] and b["clause"] in ("NotSameAsPlain", "NotMidGrey")]
    if not hit or any(b["clause"] == "NotAccepted" for b in bad):
        raise RuntimeError("binding self-test failed: slice padding filler that alters a coefficient was not detected (%r)" % (bad[:3],))
    good = family_job((ab, sec, "picture_numbers", None))
    recs = [dict(tid=1, ev="cfg", **ab)] + [dict({k: v for k, v in e.items() if k != "err"}, tid=1) for e in good["events"]]
    recs[1] = dict(recs[1], numbers=recs[1]["numbers"][:-1] + [[5]])
    bad2, _ = trace.validate("TestCasesTrace", recs)
    if not any(b["alarm"] and b["clause"] == "WrongPictureNumbers" and b["line"] == 2 for b in bad2):
        raise RuntimeError("trace binding self-test failed: corrupted picture numbers accepted")
    return {"mutant": "fill_hq_slice_padding also sets the first coefficient of the padded component to 1 and shortens the padding by 3 bits (in-process, still conformant)", "cases_flagged": len(hit), "of": len(r["events"]), "trace": "a corrupted recorded picture number is rejected with WrongPictureNumbers"}


def replay(case):
    r = family_job((case["ab"], case["sec"], case["fam"], None))
    recs = [dict(tid=1, ev="cfg", **case["ab"])] + [dict({k: v for k, v in e.items() if k != "err"}, tid=1) for e in r["events"]]
    bad, _ = trace.validate("TestCasesTrace", recs)
    out = []
    for b in bad:
        e = r["events"][b["line"] - 2]
        if b["alarm"] and (case.get("name") in (None, e["name"])):
            out.append({"clause": b["clause"], "name": e["name"], "err": e["err"], "eq": e["eq"], "grey": e["grey"], "n": e["n"]})
    return {"violations": out, "generator_error": r["gen_error"]}
