"""C05 -- decoder test cases are conformant and decode to their intended pictures.

Spec   : spec/TestCasesOps.tla (the catalogue transcribed from the generator docstrings), spec/TestCases.tla (the life
         of a test case; TLC enumerates abstract configuration x family x sub-case), spec/TestCasesTrace.tla.
Binding: G -- TLC enumerates the abstract configurations (profile, lossless, fragments, fields, asymmetric transform,
         quantisation-matrix class, signal-range class + the concrete range, slice-size class, colour format).  "Full"
         configurations (all families) are instantiated for the profile/lossless/fragments/fields combinations
         (the rest by seed); "grid" configurations (cheap families: static_gray, and for lossless codecs the three
         quantisation families) are instantiated for EVERY enumerated abstract configuration that differs from the
         base configuration in at most three dimensions (thorough: all of them), without consulting the code under
         test about their validity; "light" configurations make slices unequal.  The REAL registered generators are
         run, and the test cases produced are compared with the (family, sub-case) expectations of TLC's dump.  T -- every produced test case is serialised, validated + decoded by the real decoder, compared
         with the decode of the plain encodings of the sources, and recorded as one event; TLC (TestCasesTrace)
         judges each event against the catalogue relation.
"""
import os
import random
import re
import sys
import traceback
from io import BytesIO

from .. import common, tlc, tlaval, trace

SLOW = ("signal_range", "real_pictures")
# families built on mid-grey sources (cheap): run on many extra slice geometries / byte budgets
LIGHT = ("slice_padding_data", "slice_prefix_bytes", "padding_data", "slice_size_scaler", "absent_next_parse_offset", "dangling_bounded_block_data")


def _tests_path():
    p = os.path.join(common.REPO, "tests")
    if p not in sys.path:
        sys.path.append(p)


def base_features():
    from vc2_conformance.codec_features import read_codec_features_csv

    with open(os.path.join(common.REPO, "tests", "sample_codec_features.csv")) as f:
        return read_codec_features_csv(f)["minimal"]


# signal ranges <<luma_offset, luma_excursion, color_diff_offset, color_diff_excursion>> of the seeded ("full" / "light")
# configurations; every one of them is a member of the set TLC enumerates (checked in run), grid configurations take
# theirs from TLC's dump
BIT_DEPTHS = {
    "8": (0, 255, 128, 255),
    "10": (64, 876, 512, 896),
    "16/14": (0, (1 << 16) - 1, (1 << 14) // 2, (1 << 14) - 1),
}
DIMS = ("profile", "lossless", "fragments", "fields", "asym", "qm", "range", "slice", "chroma")


def concretise(ab, sec):
    """abstract configuration (TLC) + secondary parameters (seeded) -> CodecFeatures"""
    from vc2_data_tables import Profiles, PictureCodingModes, WaveletFilters, ColorDifferenceSamplingFormats
    from vc2_conformance.codec_features import CodecFeatures
    from vc2_conformance.pseudocode.video_parameters import VideoParameters

    base = base_features()
    w, h = sec["size"]
    lo, le, co, ce = sec["range"]
    vp = VideoParameters(base["video_parameters"], frame_width=w, frame_height=h, clean_width=w, clean_height=h, color_diff_format_index=ColorDifferenceSamplingFormats(sec["cdf"]), luma_offset=lo, luma_excursion=le, color_diff_offset=co, color_diff_excursion=ce)
    vp = apply_source_variant(vp, sec.get("source"))
    kw = dict(
        profile=Profiles.high_quality if ab["profile"] == "hq" else Profiles.low_delay,
        picture_coding_mode=PictureCodingModes.pictures_are_fields if ab["fields"] else PictureCodingModes.pictures_are_frames,
        video_parameters=vp,
        wavelet_index=WaveletFilters(sec["wavelet"]),
        wavelet_index_ho=WaveletFilters(sec["wavelet_ho"]),
        dwt_depth=sec["depth"],
        dwt_depth_ho=sec["depth_ho"],
        slices_x=sec["slices"][0],
        slices_y=sec["slices"][1],
        fragment_slice_count=(sec["slices"][0] if ab["fragments"] else 0),
        quantization_matrix=({int(k): dict(v) for k, v in sec["qm"].items()} if sec["qm"] else None),  # (a replayed case has string keys)
    )
    if ab["lossless"]:
        kw.update(lossless=True, picture_bytes=None)
    else:
        kw.update(lossless=False, picture_bytes=sec["picture_bytes"])
    return CodecFeatures(base, **kw)


def source_variant(rnd):
    """seeded choice of source parameters the catalogue does not depend on: frame rate / pixel aspect ratio as
    presets, custom values in lowest terms and custom values NOT in lowest terms (legal: the numbers are what the
    format says), and colour descriptions that agree with a preset in some components only"""
    return {
        "frame_rate": rnd.choice([None, None, (25, 1), (50, 2), (120000, 2002), (37, 3), (30000, 1001)]),
        "par": rnd.choice([None, None, (1, 1), (2, 2), (20, 22), (59, 54)]),
        "colour": rnd.choice([None, None, ("hdtv", "rgb", "tv_gamma"), ("sdtv_625", "sdtv", "tv_gamma"), ("hdtv", "hdtv", "tv_gamma"), ("sdtv_525", "hdtv", "tv_gamma")]),
    }


def apply_source_variant(vp, sv):
    from vc2_data_tables import PresetColorPrimaries, PresetColorMatrices, PresetTransferFunctions

    if not sv:
        return vp
    if sv.get("frame_rate"):
        vp["frame_rate_numer"], vp["frame_rate_denom"] = sv["frame_rate"]
    if sv.get("par"):
        vp["pixel_aspect_ratio_numer"], vp["pixel_aspect_ratio_denom"] = sv["par"]
    if sv.get("colour"):
        p, m, t = sv["colour"]
        vp["color_primaries_index"] = getattr(PresetColorPrimaries, p)
        vp["color_matrix_index"] = getattr(PresetColorMatrices, m)
        vp["transfer_function_index"] = getattr(PresetTransferFunctions, t)
    return vp


def secondary(rnd, plain=False):
    """seeded choice of the parameters the catalogue does not depend on"""
    import vc2_data_tables as t

    if plain:
        return {"size": (8, 4), "cdf": 0, "range": BIT_DEPTHS["8"], "wavelet": 4, "wavelet_ho": 4, "depth": 1, "depth_ho": 0, "slices": (2, 1), "picture_bytes": 24, "qm": None}
    size, slices = rnd.choice([((8, 4), (2, 1)), ((8, 4), (2, 1)), ((16, 8), (2, 2)), ((12, 4), (3, 1)), ((12, 8), (3, 2))])
    if rnd.random() < 0.25:
        # asymmetric transform with a custom quantisation matrix (no default exists)
        depth, depth_ho = 1, rnd.choice([1, 2])
        wavelet, wavelet_ho = rnd.choice(list(range(7))), rnd.choice(list(range(7)))
        qm = {0: {"L": rnd.randrange(4)}}
        for lv in range(1, depth_ho + 1):
            qm[lv] = {"H": rnd.randrange(6)}
        for lv in range(depth_ho + 1, depth_ho + depth + 1):
            qm[lv] = {"LH": rnd.randrange(6), "HL": rnd.randrange(6), "HH": rnd.randrange(8)}
    else:
        wavelet = wavelet_ho = rnd.choice(list(range(7)))
        depth, depth_ho = rnd.choice([(1, 0), (1, 0), (2, 0), (3, 0)])
        qm = None
        if (wavelet, wavelet_ho, depth, depth_ho) not in t.QUANTISATION_MATRICES:
            depth, depth_ho = 1, 0
    nsl = slices[0] * slices[1]
    return {
        "size": size,
        "cdf": rnd.choice([0, 0, 1, 2]),
        "range": BIT_DEPTHS[rnd.choice(["8", "8", "10", "16/14"])],
        "wavelet": wavelet,
        "wavelet_ho": wavelet_ho,
        "depth": depth,
        "depth_ho": depth_ho,
        "slices": slices,
        # also budgets that are NOT a multiple of the slice count: slices of unequal size (13.5.3.2 / 13.5.4)
        "picture_bytes": nsl * rnd.choice([12, 16, 24, 40]) + rnd.choice([0, 0, 1, nsl - 1, nsl // 2 + 1]),
        "qm": qm,
        "source": source_variant(rnd),
    }


def project(ab, sec):
    """concrete projections of a configuration that TLC classifies (TestCasesTrace!AbstractOf)"""
    import vc2_data_tables as t

    w, h = sec["size"]
    ph = h // 2 if ab["fields"] else h
    sx, sy = sec["slices"]
    mx, my = 1 << (sec["depth"] + sec["depth_ho"]), 1 << sec["depth"]
    pw, ph = -(-w // mx) * mx, -(-ph // my) * my  # transform padding (15.4.2)
    return {
        "asym": bool(sec["depth_ho"] > 0 or sec["wavelet"] != sec["wavelet_ho"]),
        "customqm": sec["qm"] is not None,
        "hasdefault": (sec["wavelet"], sec["wavelet_ho"], sec["depth"], sec["depth_ho"]) in t.QUANTISATION_MATRICES,
        "rng": [int(x) for x in sec["range"]],
        "ny": (-(-pw // sx)) * (-(-ph // sy)),  # luma coefficients of the largest slice
        "cdf": int(sec["cdf"]),
    }


def declared(ab4, sec, range_class):
    """the abstract configuration (TestCases.tla) a seeded configuration instantiates; mirror of the TLA+
    classification, used only to look the expectations up -- TLC re-derives it from project() and reports any
    difference (ClassMismatch -> machinery failure)"""
    pr = project(ab4, sec)
    return dict(
        {k: ab4[k] for k in ("profile", "lossless", "fragments", "fields")},
        asym=pr["asym"],
        qm="default" if not pr["customqm"] else ("custom" if pr["hasdefault"] else "custom_only"),
        range=range_class[tuple(pr["rng"])],
        slice="large" if pr["ny"] > 510 else "small",
        chroma={0: "444", 1: "422", 2: "420"}[pr["cdf"]],
    )


GRID_SMALL = [((8, 4), (2, 1)), ((16, 8), (2, 2)), ((12, 4), (3, 1)), ((12, 8), (3, 2)), ((16, 4), (4, 1))]
# more than 510 luma coefficients per slice (512, 640, 768, 1024): an all-ones luma block needs a slice_size_scaler of
# 2 or 3 while (4:2:2 / 4:2:0) the colour difference blocks of the same slice need a smaller one
GRID_LARGE = [((32, 16), (1, 1)), ((32, 16), (1, 1)), ((64, 8), (1, 1)), ((64, 16), (2, 1)), ((32, 32), (1, 2)), ((40, 16), (1, 1)), ((48, 16), (1, 1)), ((64, 16), (1, 1))]
GRID_FAMILIES = ("static_gray",)
GRID_FAMILIES_LOSSLESS = ("static_gray", "lossless_quantization", "custom_quantization_matrix", "default_quantization_matrix")


def custom_matrix(rnd, depth, depth_ho):
    qm = {0: {("L" if depth_ho else "LL"): rnd.randrange(4)}}
    for lv in range(1, depth_ho + 1):
        qm[lv] = {"H": rnd.randrange(6)}
    for lv in range(depth_ho + 1, depth_ho + depth + 1):
        qm[lv] = {"LH": rnd.randrange(6), "HL": rnd.randrange(6), "HH": rnd.randrange(8)}
    return qm


def grid_secondary(ab, rng, rnd):
    """concretise one abstract configuration of TLC's dump (with the signal range TLC chose)"""
    import vc2_data_tables as t

    (w, h), slices = rnd.choice(GRID_LARGE if ab["slice"] == "large" else GRID_SMALL)
    if ab["fields"]:
        h *= 2
    if not ab["asym"]:
        depth, depth_ho = rnd.choice([(1, 0), (1, 0), (2, 0)])
        wavelet = wavelet_ho = rnd.choice(list(range(7)))
    elif ab["qm"] == "custom_only":
        # a transform for which vc2_data_tables defines no default matrix (most pairs of different wavelets)
        depth = 1
        pairs = [(a, b, d) for a in range(7) for b in range(7) for d in (1, 2) if a != b and (a, b, depth, d) not in t.QUANTISATION_MATRICES]
        wavelet, wavelet_ho, depth_ho = rnd.choice(pairs)
    else:
        depth, depth_ho = 1, rnd.choice([1, 2])
        wavelet = wavelet_ho = rnd.choice(list(range(7)))
    if (ab["qm"] != "custom_only") != ((wavelet, wavelet_ho, depth, depth_ho) in t.QUANTISATION_MATRICES):
        raise RuntimeError("quantisation-matrix class %s cannot be instantiated with %r" % (ab["qm"], (wavelet, wavelet_ho, depth, depth_ho)))
    nsl = slices[0] * slices[1]
    per_slice = rnd.choice([150, 200, 300]) if ab["slice"] == "large" else rnd.choice([12, 16, 24, 40])
    return {
        "size": (w, h),
        "cdf": {"444": 0, "422": 1, "420": 2}[ab["chroma"]],
        "range": tuple(rng),
        "wavelet": wavelet,
        "wavelet_ho": wavelet_ho,
        "depth": depth,
        "depth_ho": depth_ho,
        "slices": slices,
        "picture_bytes": nsl * per_slice + rnd.choice([0, 0, 1, nsl - 1]),
        "qm": None if ab["qm"] == "default" else custom_matrix(rnd, depth, depth_ho),
        "source": source_variant(rnd),
    }


def _decode(stream_bytes):
    """validate + decode with the real decoder -> (accepted, error, [(picture, vp, pcm)])"""
    from vc2_conformance.pseudocode.state import State
    from vc2_conformance.decoder import init_io, parse_stream, ConformanceError

    pics = []

    def cb(picture, video_parameters, picture_coding_mode):
        pics.append((picture, video_parameters, picture_coding_mode))

    st = State(_output_picture_callback=cb)
    init_io(st, BytesIO(stream_bytes))
    try:
        parse_stream(st)
    except ConformanceError as e:
        return False, "%s: %s" % (type(e).__name__, str(e)[:200]), pics
    return True, "", pics


def _serialise(stream):
    from vc2_conformance.bitstream import autofill_and_serialise_stream

    f = BytesIO()
    autofill_and_serialise_stream(f, stream)
    return f.getvalue()


def _plain(cf, src, rep):
    """decode of the plain encoding of `rep` repetitions of the source sequence"""
    from vc2_conformance import picture_generators as pg
    from vc2_conformance.encoder import make_sequence
    from vc2_conformance.bitstream import Stream

    gen = {"static_sprite": pg.static_sprite, "mid_gray": pg.mid_gray}[src]
    pictures = gen(cf["video_parameters"], cf["picture_coding_mode"])
    if rep > 1:
        pictures = pg.repeat_pictures(pictures, rep)
    ok, err, pics = _decode(_serialise(Stream(sequences=[make_sequence(cf, pictures)])))
    if not ok:
        # the validator rejects the plain encoding itself: no base to compare with (every relation to it is then
        # recorded as not holding; the test cases of such a configuration are rejected for the same reason)
        return None
    return [p for p, _, _ in pics]


def _same(a, b):
    if a is None or b is None:
        return False
    return len(a) == len(b) and all(x["Y"] == y["Y"] and x["C1"] == y["C1"] and x["C2"] == y["C2"] for x, y in zip(a, b))


def _is_grey(pics):
    from vc2_conformance.file_format import compute_dimensions_and_depths

    if not pics:
        return False
    for p, vp, pcm in pics:
        dd = compute_dimensions_and_depths(vp, pcm)
        for c in ("Y", "C1", "C2"):
            v = 1 << (dd[c].depth_bits - 1)
            if any(s != v for row in p[c] for s in row):
                return False
    return True


_NAME = re.compile(r"^([A-Za-z_0-9]+?)(?:\[(.*)\])?$")
_PARTS = {
    "slice_padding_data": re.compile(r"^(Y|C1|C2|C)_(.*)$"),
    "dangling_bounded_block_data": re.compile(r"^(.*)_(Y|C1|C2|C)$"),
}


def split_name(fam, subname):
    if subname is None:
        return []
    m = _PARTS.get(fam)
    if m:
        mm = m.match(subname)
        if mm:
            return [mm.group(1), mm.group(2)]
    return [subname]


def _first_version(stream):
    """major_version of the first sequence header of an (autofilled) stream description, -1 if there is none"""
    try:
        for seq in stream["sequences"]:
            for du in seq["data_units"]:
                if "sequence_header" in du:
                    return int(du["sequence_header"]["parse_parameters"]["major_version"])
    except Exception:  # noqa
        pass
    return -1


def config_job(arg):
    """Run registered generators `fams` for one configuration (the plain encodings are decoded once); returns one
    result per family: {"fam", "events" (case events without tid), "gen_error", "secs"}."""
    ab, sec, fams, mutate = arg
    import time

    _tests_path()
    from vc2_conformance.test_cases import DECODER_TEST_CASE_GENERATOR_REGISTRY, normalise_test_case_generator
    from smaller_real_pictures import alternative_real_pictures

    cf = concretise(ab, sec)
    registered = {f.__name__: f for f in DECODER_TEST_CASE_GENERATOR_REGISTRY.iter_registered_functions()}
    bases = {}
    results = []
    for fam in fams:
        t0 = time.time()
        fn = registered[fam]
        out = []
        gen_error = None
        try:
            with alternative_real_pictures():
                cases = list(normalise_test_case_generator(fn, cf))
        except Exception as e:  # noqa
            cases = []
            gen_error = "%s: %s" % (common.exc_signature(e), str(e)[:200])
        if cases and not bases:
            p1 = _plain(cf, "mid_gray", 1)
            bases = {"ss1": _plain(cf, "static_sprite", 1), "ss2": _plain(cf, "static_sprite", 2), "mg1": p1, "mg2": _plain(cf, "mid_gray", 2), "mg1mg1": None if p1 is None else p1 + p1}
        for tc in cases:
            ev = {"ev": "case", "fam": tc.case_name, "sub": split_name(tc.case_name, tc.subcase_name), "name": tc.name}
            try:
                data = _serialise(tc.value)
                ok, err, pics = _decode(data)
            except Exception as e:  # noqa
                data = b""
                ok, err, pics = False, "serialise/decode raised %s: %s" % (common.exc_signature(e), str(e)[:160]), []
            dec = [p for p, _, _ in pics]
            ev["accepted"] = bool(ok)
            ev["err"] = err
            ev["params"] = all(vp == cf["video_parameters"] and pcm == cf["picture_coding_mode"] for _, vp, pcm in pics)
            ev["n"] = len(pics)
            ev["numbers"] = [trace.limbs(int(p["pic_num"])) for p in dec]
            ev["grey"] = _is_grey(pics)
            ev["eq"] = {k: _same(dec, v) for k, v in bases.items()}
            ev["bytes"] = len(data) if ok or pics else 0
            ev["ver"] = _first_version(tc.value)
            out.append(ev)
        results.append({"fam": fam, "events": out, "gen_error": gen_error, "secs": round(time.time() - t0, 2)})
    return results


def family_job(arg):
    """Run ONE registered generator for one configuration; returns list of case events (without tid)."""
    ab, sec, fam, mutate = arg
    return config_job((ab, sec, [fam], mutate))[0]


def check_valid(arg):
    """The generator's own validity pre-check of a configuration (cli.check_codec_features_valid): a mid-grey
    stream must be encodable and conformant; otherwise the configuration is out of scope."""
    ab, sec = arg
    try:
        from vc2_conformance.test_cases.decoder import static_gray

        cf = concretise(ab, sec)
        ok, err, pics = _decode(_serialise(static_gray(cf)))
        return ok and bool(pics), err
    except Exception as e:  # noqa
        return False, "%s: %s" % (type(e).__name__, str(e)[:200])


def abstract_key(ab):
    return tuple(ab[k] for k in DIMS)


def _key(k):
    return tuple(sorted((str(a), b) for a, b in k.items()))


def load_catalogue(dump_path):
    """TLC's dump -> (expectations per expectation key, the abstract configuration space with the concrete ranges of
    each configuration, range -> class)"""
    expect = {}
    space = {}
    range_class = {}
    for st in tlaval.iter_dump(dump_path):
        if st["stage"] == "generated":
            expect.setdefault(_key(st["info"]["key"]), set()).add((str(st["fam"]), tuple(str(x) for x in st["sub"])))
        elif st["stage"] == "idle" and st["fam"] == "" and st["cfg"]["profile"] != "none":
            ab = {k: (str(v) if isinstance(v, str) else bool(v)) for k, v in st["cfg"].items()}
            rng = tuple(int(x) for x in st["rng"])
            slot = space.setdefault(abstract_key(ab), {"ab": ab, "dev": int(st["info"]["dev"]), "key": _key(st["info"]["key"]), "ranges": []})
            slot["ranges"].append(rng)
            range_class[rng] = ab["range"]
    for slot in space.values():
        slot["ranges"].sort()
    return expect, space, range_class


def _phase(label, _t=[None]):
    """VERIF_C05_PROFILE=1: wall time of each phase on stderr"""
    import time

    if os.environ.get("VERIF_C05_PROFILE"):
        now = time.time()
        if _t[0] is not None:
            sys.stderr.write("PHASE %-28s %.1fs\n" % (label, now - _t[0]))
        _t[0] = now


def run(ctx):
    _phase("start")
    res = tlc.run("TestCases", "mc/TestCases.cfg", dump=True)
    ctx.add_tlc(res, "catalogue: abstract configuration (x signal range) x family x sub-case", {"profiles": 2, "lossless": 2, "fragments": 2, "fields": 2, "asym": 2, "qm classes": 3, "range classes": 3, "ranges": 10, "slice classes": 2, "chroma formats": 3})
    expect, space, range_class = load_catalogue(res.dump_path)
    if len(space) != 1080 or any(s["key"] not in expect for s in space.values()):
        raise RuntimeError("expected 1080 abstract configurations with expectations from TLC, got %d" % len(space))
    for r in BIT_DEPTHS.values():
        if r not in range_class:
            raise RuntimeError("signal range %r of the seeded configurations is not one TLC enumerates" % (r,))
    abstracts = sorted(set(k[:4] for k in space))
    if len(abstracts) != 12:
        raise RuntimeError("expected 12 profile/lossless/fragments/fields combinations from TLC, got %d" % len(abstracts))
    _phase("tlc catalogue")
    rnd = random.Random(ctx.seed)
    per_abs = ctx.pick(1, 5)
    chosen = list(abstracts)
    if ctx.quick:
        # 6 of the 12: all four HQ-lossy/LD/lossless/fragments/fields values appear; the rest by seed
        must = [("hq", False, False, False), ("ld", False, False, False), ("hq", True, False, False), ("hq", False, True, False), ("ld", False, False, True)]
        rest = [a for a in abstracts if a not in must]
        chosen = must + rnd.sample(rest, 1)
    cands = []
    for a in chosen:
        ab = {"profile": a[0], "lossless": a[1], "fragments": a[2], "fields": a[3]}
        for k in range(per_abs):
            for attempt in range(6):
                sec = secondary(rnd, plain=(k == 0 and attempt == 0 and ctx.quick and a == ("hq", False, False, False)))
                cands.append((ab, sec, (a, k), attempt))
    # + full configurations whose signal range is a preset that only version 3 has (one per such preset in the thorough
    # tier, one by seed in the quick tier): all families, including the alternative sequence header encodings
    rnd_v3 = random.Random(ctx.seed * 7919 + 3)
    v3 = sorted(r for r, c in range_class.items() if c == "preset_v3")
    for i, r in enumerate(v3 if not ctx.quick else [rnd_v3.choice(v3)]):
        a = [("hq", False, False, False), ("ld", False, False, False), ("hq", True, False, True), ("ld", False, False, True)][i % 4]
        ab = {"profile": a[0], "lossless": a[1], "fragments": a[2], "fields": a[3]}
        for attempt in range(6):
            sec = dict(secondary(rnd_v3), range=r)
            if attempt == 0:
                sec.update(wavelet=4, wavelet_ho=4, depth=1, depth_ho=0, qm=None)
            cands.append((ab, sec, (a, "v3-%d" % i), attempt))
    # validity pre-check (first valid attempt of each slot is used)
    valid = common.pmap(check_valid, [(ab, sec) for ab, sec, _, _ in cands])
    configs = []
    seen = set()
    out_of_scope = 0
    for (ab, sec, slot, attempt), (ok, err) in zip(cands, valid):
        if slot in seen:
            continue
        if ok:
            seen.add(slot)
            configs.append((declared(ab, sec, range_class), sec))
        else:
            out_of_scope += 1
    n_full = len(configs)
    if n_full < ctx.pick(5, 40):
        raise RuntimeError("only %d valid configurations could be instantiated" % len(configs))
    # extra "light" configurations: lossy LD / HQ with slice grids and byte budgets that make slices unequal,
    # on which only the cheap mid-grey families are run
    light_idx = set()
    lcands = []
    for i in range(ctx.pick(100, 400)):
        prof = "ld" if i % 2 == 0 else "hq"
        ab = {"profile": prof, "lossless": False, "fragments": i % 7 == 3, "fields": i % 5 == 4}
        # two-dimensional grids dominate: only they can tell an x/y mix-up from the right thing
        size, slices = rnd.choice([((8, 4), (2, 1)), ((16, 8), (2, 2)), ((16, 8), (2, 2)), ((12, 4), (3, 1)), ((12, 8), (3, 2)), ((12, 8), (3, 2)), ((8, 12), (2, 3)), ((16, 4), (4, 1))])
        nsl = slices[0] * slices[1]
        sec = {"size": size, "cdf": rnd.choice([0, 1, 2]), "range": BIT_DEPTHS[rnd.choice(["8", "10"])], "wavelet": 4, "wavelet_ho": 4, "depth": 1, "depth_ho": 0, "slices": slices,
               "picture_bytes": nsl * rnd.choice([8, 12, 16, 33]) + rnd.randrange(0, 2 * nsl), "qm": None}
        lcands.append((ab, sec))
    lvalid = common.pmap(check_valid, lcands)
    for (ab, sec), (ok, err) in zip(lcands, lvalid):
        if ok and len(light_idx) < ctx.pick(64, 250):
            light_idx.add(len(configs))
            configs.append((declared(ab, sec, range_class), sec))
    # "grid" configurations: one instance of every abstract configuration TLC enumerates that differs from the base
    # configuration in at most 3 dimensions (quick; + a seeded sample of the others) / of all of them (thorough), with
    # the signal ranges of its class taken in turn.  NO validity pre-check by the code under test: the concretisation
    # only uses parameter values every one of which is valid, so a rejected stream or a raising generator is a verdict.
    rnd_grid = random.Random(ctx.seed * 7919 + 1)
    grid_idx = set()
    turn = {}
    near = sorted(k for k, v in space.items() if v["dev"] <= 3)
    far = sorted(k for k, v in space.items() if v["dev"] > 3)
    grid_keys = near + (rnd_grid.sample(far, 40) if ctx.quick else far)
    for k in grid_keys:
        slot = space[k]
        cls = slot["ab"]["range"]
        rng = slot["ranges"][turn.get(cls, 0) % len(slot["ranges"])]
        turn[cls] = turn.get(cls, 0) + 1
        sec = grid_secondary(slot["ab"], rng, rnd_grid)
        grid_idx.add(len(configs))
        configs.append((dict(slot["ab"]), sec))
    _phase("validity pre-checks")
    from vc2_conformance.test_cases import DECODER_TEST_CASE_GENERATOR_REGISTRY

    fams = [f.__name__ for f in DECODER_TEST_CASE_GENERATOR_REGISTRY.iter_registered_functions()]
    jobs = []
    for ci, (ab, sec) in enumerate(configs):
        if ci in grid_idx:
            jobs.append((ci, (ab, sec, list(GRID_FAMILIES_LOSSLESS if ab["lossless"] else GRID_FAMILIES), None)))
            continue
        for fam in fams:
            if ci in light_idx and fam not in LIGHT:
                continue
            if ctx.quick and fam in SLOW and ci >= 2:
                continue
            jobs.append((ci, (ab, sec, [fam], None)))
    jobs.sort(key=lambda j: j[1][2][0] not in SLOW)
    results = common.pmap(config_job, [j[1] for j in jobs], chunksize=1)
    _phase("family jobs")
    if os.environ.get("VERIF_C05_PROFILE"):
        import collections

        tot = collections.Counter()
        for (ci, j), rs in zip(jobs, results):
            for r in rs:
                tot[r["fam"] + ("@grid" if ci in grid_idx else "")] += r["secs"]
        sys.stderr.write("PROFILE jobs=%d total=%.1f %s\n" % (len(jobs), sum(tot.values()), tot.most_common()))
    per_cfg = {}
    gen_errors = []
    for (ci, j), rs in zip(jobs, results):
        for r in rs:
            per_cfg.setdefault(ci, []).append(r)
            if r["gen_error"]:
                gen_errors.append({"config": ci, "family": r["fam"], "error": r["gen_error"]})
    records = []
    meta = {}
    tid = 0
    produced = 0
    missing_required = []
    unexpected = []
    for ci, (ab, sec) in enumerate(configs):
        got = set()
        tid += 1
        order = {f: i for i, f in enumerate(fams)}
        recs, index = records_for(ab, sec, sorted(per_cfg.get(ci, []), key=lambda r: order[r["fam"]]), tid=tid)
        for ln, e in index.items():
            meta[len(records) + ln] = (ci, e)
            if "accepted" in e:
                got.add((e["fam"], tuple(e["sub"])))
                produced += 1
        records += recs
        exp = expect[space[abstract_key(ab)]["key"]]
        ran = set(r["fam"] for r in per_cfg.get(ci, []))
        open_fams = set(f for f, s in exp if s == () and f in ("source_parameters_encodings",))
        for f, s in sorted(got):
            if f in open_fams:
                continue
            if (f, s) not in exp:
                unexpected.append({"config": ci, "case": [f, list(s)]})
        # families with documented mandatory sub-cases (padding_data etc.): all of TLC's sub-cases or none
        for f in ("padding_data", "slice_padding_data", "picture_numbers", "interlace_mode_and_pixel_aspect_ratio"):
            if f in ran:
                want = set(x for x in exp if x[0] == f)
                have = set(x for x in got if x[0] == f)
                if have and have != want:
                    missing_required.append({"config": ci, "family": f, "missing": sorted(list(s) for _, s in want - have)})
    if produced < ctx.pick(150, 1500):
        raise RuntimeError("only %d test cases were produced: vacuous" % produced)
    bad, tres = trace.validate("TestCasesTrace", records)
    ctx.add_tlc(tres, "trace validation (TestCasesTrace)")
    _phase("trace validation")
    dis = 0
    dis_clauses = {}
    for b in bad:
        if b["clause"] == "ClassMismatch":
            raise RuntimeError("TLC classifies configuration %r differently from the abstract configuration it was instantiated from" % (records[b["line"] - 1],))
        ci, e = meta[b["line"]]
        ab, sec = configs[ci]
        if b["alarm"] and b["clause"] == "GeneratorRaises":
            sig = "C05|GeneratorRaises|%s|%s" % (e["fam"], e["err"].split(":")[0] or "?")
            ctx.violation(sig, "the %s generator raises instead of producing its test cases: %s (config: %s %s)" % (e["fam"], e["err"], ab, sec), {"ab": ab, "sec": sec, "fam": e["fam"], "name": None})
        elif b["alarm"]:
            detail = e["err"] if b["clause"] == "NotAccepted" else ""
            sig = "C05|%s|%s" % (b["clause"], e["fam"])
            if b["clause"] == "NotAccepted":
                sig += "|" + (detail.split(":")[0] or "?")
            ctx.violation(sig, "%s for %s: %s %s (config: %s %s)" % (b["clause"], e["name"], {k: e[k] for k in ("accepted", "params", "n", "grey", "eq")}, detail, ab, sec), {"ab": ab, "sec": sec, "fam": e["fam"], "name": e["name"]})
        else:
            dis += 1
            dis_clauses[b["clause"]] = dis_clauses.get(b["clause"], 0) + 1
    # --- binding self-tests
    st = selftest(configs[0])
    _phase("selftest")
    cmeta = {ln: v for ln, v in meta.items() if "accepted" in v[1]}  # case events (not generator calls)
    by_rel = {}
    for ln, (ci, e) in cmeta.items():
        by_rel[e["fam"]] = by_rel.get(e["fam"], 0) + 1
    samples = []
    for ln in sorted(cmeta)[:: max(1, len(cmeta) // 5)][:5]:
        ci, e = cmeta[ln]
        samples.append({"config": configs[ci][0], "secondary": {k: v for k, v in configs[ci][1].items() if k != "qm"}, "case": e["name"], "accepted": e["accepted"], "n": e["n"], "grey": e["grey"], "eq": e["eq"]})
    grid_abs = [configs[ci][0] for ci in sorted(grid_idx)]
    v3_alone = [ab for ab in grid_abs if ab["range"] == "preset_v3" and not ab["asym"] and not ab["fragments"]]
    luma_only = [ab for ab in grid_abs if ab["lossless"] and ab["slice"] == "large" and ab["chroma"] != "444"]
    if not v3_alone or not luma_only:
        raise RuntimeError("vacuous grid: no configuration that is version 3 because of its signal range alone / no lossless configuration whose luma blocks alone need a slice_size_scaler above 1")
    ctx.coverage.update(
        {
            "traces_validated_against_impl": produced,
            "evaluations": produced,
            "distinct_nontrivial": sum(1 for ci, e in cmeta.values() if e["fam"] not in ("static_gray",)),
            "rule": "one evaluation = one test case really produced by a registered generator, serialised, validated and decoded by the real decoder and judged by TestCasesTrace against the catalogue relation; non-trivial = every family except the bare static_gray",
            "exhaustive": False,
            "exhaustive_note": "TLC enumerates all 1080 abstract configurations (x 10 signal ranges: 3600) and, per expectation key (24), 20 families x catalogued sub-cases; the concrete configuration space is sampled: %d full configurations (%d per profile/lossless/fragments/fields combination + version-3-only signal range presets; all families), %d light ones (unequal slices; cheap families), %d grid ones (one per abstract configuration with <= 3 deviations from the base configuration%s; static_gray + the quantisation families of lossless codecs); secondary parameters by seed" % (n_full, per_abs, len(light_idx), len(grid_idx), " + 40 others by seed" if ctx.quick else " and of every other one"),
            "configurations": len(configs),
            "full_configurations": n_full,
            "light_configurations_unequal_slices": len(light_idx),
            "grid_configurations": len(grid_idx),
            "grid_abstract_space": {"enumerated_by_tlc": len(space), "instantiated": len(set(abstract_key(ab) for ab in grid_abs)), "max_deviations_all_instantiated": 3 if ctx.quick else 9},
            "grid_version3_by_signal_range_alone": len(v3_alone),
            "grid_lossless_luma_only_scaler": len(luma_only),
            "grid_signal_ranges": sorted(set(str(tuple(configs[ci][1]["range"])) for ci in grid_idx)),
            "generator_calls": sum(1 for v in meta.values() if "accepted" not in v[1]),
            "abstract_configurations_covered": len(set(abstract_key(ab) for ab, _ in configs)),
            "out_of_scope": out_of_scope,
            "families_run": len(fams),
            "cases_per_family": by_rel,
            "generator_errors": gen_errors[:10],
            "generator_error_count": len(gen_errors),
            "spec_disagreements": dis + len(missing_required) + len(unexpected),
            "spec_disagreement_clauses": dis_clauses,
            "catalogue_missing_required": missing_required[:10],
            "catalogue_unexpected_cases": unexpected[:10],
            "binding_selftest": st,
            "secondary_values_seen": {k: sorted(set(str(sec[k]) for _, sec in configs)) for k in ("size", "cdf", "range", "wavelet", "depth", "depth_ho", "slices")},
            "samples": samples,
        }
    )
    ctx.assumptions += [
        "configurations: the minimal sample configuration of the test suite varied in profile, lossless, fragments, fields, asymmetric transform, quantisation-matrix class, signal-range class (+ the concrete range), slice-size class, colour-difference format (all combinations enumerated by TLC) and, by seed, wavelet, transform depths, picture size/slices, picture_bytes, matrix values",
        "grid configurations are not pre-checked by the code under test: a generator that raises or a rejected static_gray stream on them is a violation; full and light configurations are pre-checked by the generator's own validity check (static_gray must validate)",
        "a generator call that raises on an instantiated configuration is a violation (GeneratorRaises)",
        "the real_pictures family uses the test suite's small natural pictures (tests/smaller_real_pictures.py)",
        "'plain encoding of the same source' = encoder.make_sequence(configuration, source pictures) decoded by the same decoder",
        "quick tier runs the two slow families (signal_range, real_pictures) on two configurations only",
    ]


def records_for(ab, sec, results, tid=1):
    """trace records of one configuration: cfg, then per generator call gen + its case events"""
    recs = [dict(tid=tid, ev="cfg", decl=ab, **dict(project(ab, sec), **{k: ab[k] for k in ("profile", "lossless", "fragments", "fields")}))]
    index = {}
    for r in results:
        recs.append({"tid": tid, "ev": "gen", "fam": r["fam"], "raised": bool(r["gen_error"]), "n": len(r["events"])})
        index[len(recs)] = {"fam": r["fam"], "name": r["fam"], "err": r["gen_error"] or ""}
        for e in r["events"]:
            recs.append(dict({k: v for k, v in e.items() if k != "err"}, tid=tid))
            index[len(recs)] = e
    return recs, index


def selftest(config):
    """(1) a generator helper broken in-process so that a padding variant changes picture content while staying
    conformant must be flagged NotSameAsPlain; (2) a corrupted recorded field must be flagged; (3) a generator made
    to raise in-process must be flagged GeneratorRaises.  One TLC run judges the three logs (tid 1, 2, 3)."""
    from vc2_conformance.test_cases.decoder import pictures as P
    import importlib

    LQ = importlib.import_module("vc2_conformance.test_cases.decoder.lossless_quantization")  # the package attribute of that name is the function

    ab, sec = config
    if ab["profile"] != "hq" or ab["lossless"]:
        raise RuntimeError("self-test expects a lossy HQ configuration first")
    orig_hq = P.fill_hq_slice_padding

    def broken_hq(state, sx, sy, hq_slice, component, *a, **k):
        # the filler also turns the first coefficient of the padded component into 1 (4 bits instead of 1) and
        # shortens the padding by the 3 bits: still a conformant stream, but no longer the same picture
        orig_hq(state, sx, sy, hq_slice, component, *a, **k)
        c = component.lower()
        pad = hq_slice.get(c + "_block_padding")
        if pad is not None and len(pad) >= 3 and hq_slice[c + "_transform"]:
            hq_slice[c + "_transform"][0] = 1
            hq_slice[c + "_block_padding"] = pad[3:]

    P.fill_hq_slice_padding = broken_hq
    try:
        r = family_job((ab, sec, "slice_padding_data", None))
    finally:
        P.fill_hq_slice_padding = orig_hq
    recs1, _ = records_for(ab, sec, [r], tid=1)
    good = family_job((ab, sec, "picture_numbers", None))
    recs2, _ = records_for(ab, sec, [good], tid=2)
    recs2[2] = dict(recs2[2], numbers=recs2[2]["numbers"][:-1] + [[5]])
    ab3 = dict(ab, lossless=True)
    orig_clip = LQ.check_for_signal_clipping

    def raising(sequence):
        raise ValueError("self-test: the generator cannot serialise the stream it built")

    LQ.check_for_signal_clipping = raising
    try:
        r3 = config_job((ab3, sec, ["lossless_quantization", "custom_quantization_matrix"], None))
    finally:
        LQ.check_for_signal_clipping = orig_clip
    recs3, _ = records_for(ab3, sec, r3, tid=3)
    bad, _ = trace.validate("TestCasesTrace", recs1 + recs2 + recs3)
    b1 = [b for b in bad if b["tid"] == 1]
    hit = [b for b in b1 if b["alarm"] and b["clause"] in ("NotSameAsPlain", "NotMidGrey")]
    if not hit or any(b["clause"] == "NotAccepted" for b in b1):
        raise RuntimeError("binding self-test failed: slice padding filler that alters a coefficient was not detected (%r)" % (b1[:3],))
    if not any(b["alarm"] and b["clause"] == "WrongPictureNumbers" and b["tid"] == 2 and b["line"] == len(recs1) + 3 for b in bad):
        raise RuntimeError("trace binding self-test failed: corrupted picture numbers accepted")
    raised = [b for b in bad if b["tid"] == 3 and b["alarm"] and b["clause"] == "GeneratorRaises"]
    if len(raised) != 2:
        raise RuntimeError("binding self-test failed: generators made to raise in-process were not flagged (%r)" % ([b for b in bad if b["tid"] == 3],))
    return {"mutant": "fill_hq_slice_padding also sets the first coefficient of the padded component to 1 and shortens the padding by 3 bits (in-process, still conformant)", "cases_flagged": len(hit), "of": len(r["events"]), "trace": "a corrupted recorded picture number is rejected with WrongPictureNumbers",
            "raising_generator": "lossless_quantization's serialise-and-check step made to raise in-process: lossless_quantization and custom_quantization_matrix (which reuses it) are both flagged GeneratorRaises"}


def replay(case):
    r = family_job((case["ab"], case["sec"], case["fam"], None))
    recs, index = records_for(case["ab"], case["sec"], [r])
    bad, _ = trace.validate("TestCasesTrace", recs)
    out = []
    for b in bad:
        e = index.get(b["line"])
        if e is None or not b["alarm"]:
            continue
        if b["clause"] == "GeneratorRaises":
            out.append({"clause": b["clause"], "name": e["fam"], "err": e["err"]})
        elif case.get("name") in (None, e["name"]):
            out.append({"clause": b["clause"], "name": e["name"], "err": e["err"], "eq": e["eq"], "grey": e["grey"], "n": e["n"]})
    return {"violations": out, "generator_error": r["gen_error"]}
