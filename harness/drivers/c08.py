"""C08 -- bitstream deserialiser and validator read identical content.

Trace spec: spec/DeserValidatorTrace.tla.  For each conformant stream (encoder output for random tiny codec
configurations, with the slice payloads replaced by random / extreme coefficients re-packed into valid slices:
exact, tight (dangling values past the end of the bounded block), loose (unused bits set at random), prefix
bytes, padding / auxiliary units in between) both parsers are run on the same bytes.  The validator is observed
through in-process wrappers around decoder.stream.parse_info / picture_decode (state captured when a picture is
complete); the deserialiser through Deserialiser.context, whose raw slice values are dequantised, placed and
DC-predicted with the repository's own inverse_quant / slice geometry / dc_prediction (a fault there belongs to
C12/C13, not C08).  TLC judges every recorded stream: same data units (parse code, offsets, position), same
header / parameter values per picture, same coefficient arrays.
"""
import io
import random
import zlib

from .. import common, tlc, tlaval, trace

# Annex D default quantisation matrices (third-party vc2_data_tables, not the tree under test), copied when
# this module is imported -- before any code under test has run in this process or been forked from it -- so
# that code which writes into the shared live table cannot change what the harness and the generated TLA+
# table module take to be the standard's values.
import copy as _copy
from vc2_data_tables import QUANTISATION_MATRICES as _LIVE_QM

QUANTISATION_MATRICES = dict((k, _copy.deepcopy(dict(v))) for k, v in _LIVE_QM.items())

ORIENTS = {"LL": 0, "L": 0, "H": 1, "HL": 1, "LH": 2, "HH": 3}
STATE_KEYS = [
    "major_version", "minor_version", "profile", "level", "picture_coding_mode", "picture_number",
    "wavelet_index", "wavelet_index_ho", "dwt_depth", "dwt_depth_ho", "slices_x", "slices_y",
    "slice_bytes_numerator", "slice_bytes_denominator", "slice_prefix_bytes", "slice_size_scaler",
    "luma_width", "luma_height", "color_diff_width", "color_diff_height", "luma_depth", "color_diff_depth",
]


# ------------------------------------------------------------------------------------------------
# stream construction (producer side of the library; C08 is about the two consumers)
# ------------------------------------------------------------------------------------------------
def sint_bits(vals):
    out = []
    for v in vals:
        a = abs(v) + 1
        for i in range(a.bit_length() - 2, -1, -1):
            out.append(0)
            out.append((a >> i) & 1)
        out.append(1)
        if v:
            out.append(1 if v < 0 else 0)
    return out


def min_bits(bits):
    """smallest block length for which everything beyond it is 1-bits (may be left dangling)"""
    n = len(bits)
    while n and bits[n - 1] == 1:
        n -= 1
    return n


def rand_vals(rnd, n, mag):
    style = rnd.random()
    if style < 0.15:
        return [0] * n
    if style < 0.3:
        return [rnd.choice([mag, -mag, 0]) for _ in range(n)]
    out = [rnd.choice([0, 0, 0, 1, -1, 2, -2, rnd.randrange(-mag, mag + 1)]) for _ in range(n)]
    if rnd.random() < 0.4:
        k = rnd.randrange(0, n + 1)
        out[k:] = [0] * (n - k)
    return out


def make_features(rnd, base=None, archetype=None):
    """A tiny codec configuration.  With `base` (a configuration drawn earlier) the video format, profile and
    picture coding mode (everything the sequence header fixes) are kept and only the per-picture transform /
    slice parameters are drawn afresh.  archetype "asym_default": the only wavelet pair with differing indices
    for which Annex D has default matrices (haar_no_shift x le_gall_5_3) with the default matrix."""
    from vc2_conformance.codec_features import CodecFeatures
    from vc2_conformance.pseudocode.video_parameters import VideoParameters

    if base is None:
        hq = rnd.random() < 0.55
        w = rnd.choice([4, 6, 8, 8, 12])
        h = rnd.choice([2, 4, 4, 6])
        fields = rnd.random() < 0.25
        if fields:
            h = rnd.choice([4, 8])
        cd = rnd.choice([0, 0, 1, 2])
        if cd and w % 2:
            w += 1
        if cd == 2 and (h // (2 if fields else 1)) % 2:
            h *= 2
        vp = VideoParameters(
            frame_width=w, frame_height=h, color_diff_format_index=cd, source_sampling=1 if fields and rnd.random() < 0.5 else 0,
            top_field_first=True, frame_rate_numer=25, frame_rate_denom=1, pixel_aspect_ratio_numer=1, pixel_aspect_ratio_denom=1,
            clean_width=w, clean_height=h, left_offset=0, top_offset=0, luma_offset=0, luma_excursion=255,
            color_diff_offset=128, color_diff_excursion=255, color_primaries_index=0, color_matrix_index=0, transfer_function_index=0,
        )
    else:
        hq = base["profile"] == 3
        fields = base["picture_coding_mode"] == 1
        vp = base["video_parameters"]
    wi = rnd.choice([0, 1, 2, 3, 4, 4, 5, 6])
    depth = rnd.choice([0, 1, 1, 2])
    depth_ho = rnd.choice([0, 0, 0, 1])
    wi_ho = wi if rnd.random() < 0.75 else rnd.choice([1, 3, 4])
    sx = rnd.choice([1, 2, 2, 4])
    sy = rnd.choice([1, 1, 2])
    custom = rnd.random() < 0.25
    if archetype == "asym_default":
        wi, wi_ho = 3, 1
        depth = rnd.choice([1, 1, 2, 3])
        depth_ho = rnd.choice([0, 0, 0, 1, 2])
        custom = False
    qm = None
    if (wi, wi_ho, depth, depth_ho) not in QUANTISATION_MATRICES or custom:
        qm = {}
        if depth_ho == 0:
            qm[0] = {"LL": rnd.randrange(4)}
        else:
            qm[0] = {"L": rnd.randrange(4)}
            for lv in range(1, depth_ho + 1):
                qm[lv] = {"H": rnd.randrange(6)}
        for lv in range(depth_ho + 1, depth_ho + depth + 1):
            qm[lv] = {o: rnd.randrange(8) for o in ("HL", "LH", "HH")}
    n = sx * sy
    return CodecFeatures(
        name="c08", level=0, profile=3 if hq else 0, picture_coding_mode=1 if fields else 0,
        wavelet_index=wi, wavelet_index_ho=wi_ho, dwt_depth=depth, dwt_depth_ho=depth_ho,
        slices_x=sx, slices_y=sy, fragment_slice_count=rnd.choice([0, 0, 1, 2, 3]), lossless=False,
        video_parameters=vp, picture_bytes=n * rnd.choice([24, 40, 64]), quantization_matrix=qm,
    )


def geometry_of(cf):
    return (cf["dwt_depth"], cf["dwt_depth_ho"], cf["slices_x"], cf["slices_y"])


def repack_slices(rnd, seq, mag):
    """replace every slice's payload by random coefficients packed into a valid slice"""
    from bitarray import bitarray

    stats = {"exact": 0, "tight": 0, "loose": 0, "zeroed": 0}
    scaler = 1
    prefix = 0
    ld_bytes = None
    for du in seq["data_units"]:
        tp = None
        slices = []
        if "picture_parse" in du:
            wt = du["picture_parse"]["wavelet_transform"]
            tp = wt["transform_parameters"]
            td = wt.get("transform_data", {})
            slices = td.get("hq_slices", []) + td.get("ld_slices", [])
        elif "fragment_parse" in du:
            fp = du["fragment_parse"]
            tp = fp.get("transform_parameters")
            fdat = fp.get("fragment_data", {})
            slices = fdat.get("hq_slices", []) + fdat.get("ld_slices", [])
        if tp is not None:
            sp = tp["slice_parameters"]
            if "slice_size_scaler" in sp:
                if rnd.random() < 0.3:
                    sp["slice_size_scaler"] = rnd.choice([2, 3])
                if rnd.random() < 0.3:
                    sp["slice_prefix_bytes"] = rnd.choice([1, 2, 5])
                scaler = sp["slice_size_scaler"]
                prefix = sp.get("slice_prefix_bytes", 0)
            else:
                ld_bytes = (sp["slice_bytes_numerator"], sp["slice_bytes_denominator"], sp["slices_x"] * sp["slices_y"])
        for s in slices:
            s["qindex"] = rnd.choice([0, 1, 3, 7, 12, rnd.randrange(0, 40)])
            if "c1_transform" in s:  # HQ
                s["prefix_bytes"] = bytes(rnd.randrange(256) for _ in range(prefix))
                for c in ("y", "c1", "c2"):
                    vals = rand_vals(rnd, len(s[c + "_transform"]), mag)
                    while True:
                        bits = sint_bits(vals)
                        unit = 8 * scaler
                        style = rnd.choice(["exact", "tight", "loose"])
                        need = min_bits(bits) if style == "tight" else len(bits)
                        ln = (need + unit - 1) // unit + (rnd.choice([1, 2]) if style == "loose" else 0)
                        if ln <= 255:
                            break
                        vals = [v // 4 for v in vals]
                    s[c + "_transform"] = vals
                    s["slice_%s_length" % c] = ln
                    unused = max(0, unit * ln - len(bits))
                    s[c + "_block_padding"] = bitarray([rnd.randrange(2) for _ in range(unused)]) if style == "loose" else bitarray()
                    stats[style] += 1
            else:  # LD
                num, den, n = ld_bytes
                total = 8 * (num // den) if num % den == 0 else None
                if total is None:
                    continue  # uneven slice sizes: keep the encoder's payload
                lb = (total - 7 - 1).bit_length()
                left = total - 7 - lb
                yv = rand_vals(rnd, len(s["y_transform"]), mag)
                cv = rand_vals(rnd, len(s["c_transform"]), mag)
                for _ in range(40):
                    yb, cb = sint_bits(yv), sint_bits(cv)
                    style = rnd.choice(["exact", "tight", "loose"])
                    ylen = min_bits(yb) if style == "tight" else len(yb) + (rnd.choice([1, 5]) if style == "loose" else 0)
                    if ylen <= left and min_bits(cb) <= left - ylen:
                        break
                    yv = [v // 2 for v in yv]
                    cv = [v // 2 for v in cv]
                else:
                    yv = [0] * len(yv)
                    cv = [0] * len(cv)
                    yb, cb = sint_bits(yv), sint_bits(cv)
                    ylen, style = 0, "tight"
                    stats["zeroed"] += 1
                s["y_transform"] = yv
                s["c_transform"] = cv
                s["slice_y_length"] = ylen
                yun = max(0, ylen - len(yb))
                cun = max(0, left - ylen - len(cb))
                loose = style == "loose"
                s["y_block_padding"] = bitarray([rnd.randrange(2) for _ in range(yun)]) if loose else bitarray()
                s["c_block_padding"] = bitarray([rnd.randrange(2) for _ in range(cun)]) if loose else bitarray()
                stats[style] += 1
    return stats


PATTERNS = [None, None, "sequence_header (. padding_data)+ end_of_sequence", "sequence_header auxiliary_data .* end_of_sequence", "(sequence_header .)+ end_of_sequence"]
ASYM_DEFAULT_SHARE = 0.08  # streams of the "asym_default" archetype
MIXED_SHARE = 0.22  # one sequence whose pictures were encoded with different transform / slice parameters


def make_part(rnd, cf, first_pn, npics, pattern, mag, major_version=None):
    """one sequence (fixeddict) of `npics` random pictures with re-packed slice payloads -> (seq, stats) or (None, reason)"""
    from vc2_conformance.encoder import make_sequence
    from vc2_conformance.bitstream import vc2_fixeddicts as fd
    from vc2_conformance.pseudocode.video_parameters import set_coding_parameters
    from vc2_conformance.pseudocode.state import State

    st = State(picture_coding_mode=cf["picture_coding_mode"])
    set_coding_parameters(st, cf["video_parameters"])
    pics = []
    for p in range(npics):
        pic = {"pic_num": first_pn + p}
        pic["Y"] = [[rnd.randrange(256) for _ in range(st["luma_width"])] for _ in range(st["luma_height"])]
        for c in ("C1", "C2"):
            pic[c] = [[rnd.randrange(256) for _ in range(st["color_diff_width"])] for _ in range(st["color_diff_height"])]
        pics.append(pic)
    try:
        seq = make_sequence(cf, pics, *([pattern] if pattern else []))
    except Exception as e:  # noqa: configuration the encoder refuses
        return None, "encoder:" + type(e).__name__
    for du in seq["data_units"]:
        for key in ("padding", "auxiliary_data"):
            if du["parse_info"]["parse_code"] in (0x30, 0x20) and rnd.random() < 0.7:
                du[key] = (fd.Padding if key == "padding" else fd.AuxiliaryData)(bytes=bytes(rnd.randrange(256) for _ in range(rnd.randrange(0, 9))))
                if (key == "padding") != (du["parse_info"]["parse_code"] == 0x30):
                    del du[key]
        if major_version is not None and "sequence_header" in du:
            du["sequence_header"]["parse_parameters"]["major_version"] = major_version
    return seq, repack_slices(rnd, seq, mag)


def serialise(seq):
    from vc2_conformance.bitstream import Stream, autofill_and_serialise_stream

    f = io.BytesIO()
    autofill_and_serialise_stream(f, Stream(sequences=[seq]))
    return f.getvalue()


def read_major_version(unit):
    """major_version = first exp-Golomb value after the 13 parse_info bytes of a sequence header data unit"""
    bits = [(b >> (7 - k)) & 1 for b in unit[13:21] for k in range(8)]
    v, i = 1, 0
    while bits[i] == 0:
        v = (v << 1) | bits[i + 1]
        i += 2
    return v - 1


def split_units(data):
    """byte strings of the data units (parse_info prefixes located by scanning)"""
    offs, i = [], data.find(b"BBCD")
    while i != -1:
        offs.append(i)
        i = data.find(b"BBCD", i + 1)
    return [data[o : (offs[j + 1] if j + 1 < len(offs) else len(data))] for j, o in enumerate(offs)]


def fix_offsets(units):
    """join data units, recomputing next / previous parse offsets from their lengths"""
    out = []
    for j, u in enumerate(units):
        b = bytearray(u)
        nxt = 0 if u[4] == 0x10 else len(u)
        prev = len(units[j - 1]) if j > 0 and units[j - 1][4] != 0x10 else 0
        b[5:9] = nxt.to_bytes(4, "big")
        b[9:13] = prev.to_bytes(4, "big")
        out.append(bytes(b))
    return b"".join(out)


def make_mixed_stream(rnd):
    """ONE sequence whose pictures use different transform / slice parameters (they are per picture, 12.4.1; only
    the sequence header is fixed): 2-3 parts are encoded and serialised separately -- same video format, profile,
    picture coding mode, consecutive picture numbers, differing (dwt_depth, dwt_depth_ho, slices_x, slices_y), wavelets,
    matrices, fragmentation -- and their picture / fragment data units are spliced at byte level behind the
    first part's sequence header (parse offsets repaired).  All parts are serialised with the same major_version
    (the highest any of them needs), so that their transform parameters have the same syntax."""
    base = make_features(rnd)
    cfs = [base]
    for _ in range(rnd.choice([1, 1, 2])):
        for _try in range(20):
            cf = make_features(rnd, base=base, archetype="asym_default" if rnd.random() < 0.15 else None)
            if geometry_of(cf) != geometry_of(cfs[-1]):
                break
        cfs.append(cf)
    fields = base["picture_coding_mode"] == 1
    pn = rnd.choice([0, 2, 1000])
    mag = rnd.choice([3, 40, 1000])
    plans = []
    for cf in cfs:
        n = (1 if rnd.random() < 0.7 else 2) * (2 if fields else 1)
        plans.append((cf, pn, n, rnd.choice(PATTERNS), rnd.getrandbits(32)))
        pn += n

    def build(force):
        blobs, stats = [], {}
        for cf, first, n, pattern, sd in plans:
            seq, st = make_part(random.Random(sd), cf, first, n, pattern, mag, force)
            if seq is None:
                return None, st
            try:
                blobs.append(split_units(serialise(seq)))
            except Exception as e:  # noqa
                return None, "serialiser:" + type(e).__name__
            for k, v in st.items():
                stats[k] = stats.get(k, 0) + v
        return blobs, stats

    blobs, stats = build(None)
    if blobs is not None:
        versions = set(read_major_version(b[0]) for b in blobs)
        if len(versions) > 1:
            blobs, stats = build(max(versions))
    if blobs is None:
        return None, stats
    units = blobs[0][:-1]
    for b in blobs[1:]:
        units += b[1:-1]
    units.append(blobs[0][-1])
    info = {"profile": int(base["profile"]), "stats": stats, "frag": max(cf["fragment_slice_count"] for cf in cfs), "fields": base["picture_coding_mode"],
            "kind": "mixed", "parts": [list(geometry_of(cf)) for cf in cfs]}
    return fix_offsets(units), info


def make_stream(seed):
    """-> (bytes, info) or (None, reason)"""
    rnd = random.Random(seed)
    kind = rnd.random()
    if kind < MIXED_SHARE:
        return make_mixed_stream(rnd)
    cf = make_features(rnd, archetype="asym_default" if kind < MIXED_SHARE + ASYM_DEFAULT_SHARE else None)
    npics = rnd.choice([1, 2]) * (2 if cf["picture_coding_mode"] == 1 else 1)
    seq, stats = make_part(rnd, cf, rnd.choice([0, 2, 1000]), npics, rnd.choice(PATTERNS), rnd.choice([3, 40, 1000]))
    if seq is None:
        return None, stats
    try:
        data = serialise(seq)
    except Exception as e:  # noqa
        return None, "serialiser:" + type(e).__name__
    return data, {"profile": int(cf["profile"]), "stats": stats, "frag": cf["fragment_slice_count"], "fields": cf["picture_coding_mode"],
                  "kind": "asym_default" if kind < MIXED_SHARE + ASYM_DEFAULT_SHARE else "plain"}


# ------------------------------------------------------------------------------------------------
# observation of the two consumers
# ------------------------------------------------------------------------------------------------
def flat_transform(t):
    out = []
    for level in sorted(t):
        for orient in sorted(t[level], key=lambda o: ORIENTS[o]):
            for row in t[level][orient]:
                out += [int(v) for v in row]
    return out


def header_of(state):
    h = [[k, int(state[k])] for k in STATE_KEYS if k in state]
    vp = state.get("video_parameters", {})
    for k in sorted(vp):
        h.append(["vp." + k, int(vp[k])])
    return h


def quant_of(state):
    qm = state.get("quant_matrix")
    if not qm:
        return []
    return [[level, ORIENTS[o], int(v)] for level in sorted(qm) for o, v in sorted(qm[level].items(), key=lambda kv: ORIENTS[kv[0]])]


def run_validator(data):
    """-> (accepted, exception name, units, pictures) observed through wrappers in decoder.stream"""
    from vc2_conformance.decoder import stream as dstream
    from vc2_conformance.decoder import init_io
    from vc2_conformance.decoder.io import tell
    from vc2_conformance.pseudocode.state import State

    units, pics = [], []
    o_pi, o_pd = dstream.parse_info, dstream.picture_decode

    def parse_info(state):
        o_pi(state)
        units.append([int(state["parse_code"]), int(state["next_parse_offset"]), int(state["previous_parse_offset"]), tell(state)[0] - 13])

    def picture_decode(state):
        pics.append({"hdr": header_of(state), "qm": quant_of(state), "y": flat_transform(state["y_transform"]), "c1": flat_transform(state["c1_transform"]), "c2": flat_transform(state["c2_transform"])})
        o_pd(state)

    dstream.parse_info, dstream.picture_decode = parse_info, picture_decode
    try:
        state = State()
        init_io(state, io.BytesIO(data))
        dstream.parse_stream(state)
        return True, "", units, pics
    except Exception as e:  # noqa
        return False, common.exc_signature(e), units, pics
    finally:
        dstream.parse_info, dstream.picture_decode = o_pi, o_pd


def place_slice(state, arrays, s, hq):
    """dequantise the raw values of one deserialised slice into the subband arrays (repository helpers only)"""
    from vc2_conformance.decoder.transform_data_syntax import slice_quantizers
    from vc2_conformance.pseudocode.quantization import inverse_quant
    from vc2_conformance.pseudocode.slice_sizes import slice_left, slice_right, slice_top, slice_bottom

    slice_quantizers(state, s["qindex"])
    sx, sy = s["_sx"], s["_sy"]
    bands = []
    if state["dwt_depth_ho"] == 0:
        bands.append((0, "LL"))
    else:
        bands.append((0, "L"))
        bands += [(lv, "H") for lv in range(1, state["dwt_depth_ho"] + 1)]
    for lv in range(state["dwt_depth_ho"] + 1, state["dwt_depth_ho"] + state["dwt_depth"] + 1):
        bands += [(lv, o) for o in ("HL", "LH", "HH")]

    def region(comp, lv):
        return (slice_top(state, sy, comp, lv), slice_bottom(state, sy, comp, lv), slice_left(state, sx, comp, lv), slice_right(state, sx, comp, lv))

    if hq:
        for comp, key in (("Y", "y_transform"), ("C1", "c1_transform"), ("C2", "c2_transform")):
            it = iter(s[key])
            for lv, o in bands:
                y1, y2, x1, x2 = region(comp, lv)
                qi = state["quantizer"][lv][o]
                for y in range(y1, y2):
                    for x in range(x1, x2):
                        arrays[comp][lv][o][y][x] = inverse_quant(next(it), qi)
    else:
        it = iter(s["y_transform"])
        for lv, o in bands:
            y1, y2, x1, x2 = region("Y", lv)
            qi = state["quantizer"][lv][o]
            for y in range(y1, y2):
                for x in range(x1, x2):
                    arrays["Y"][lv][o][y][x] = inverse_quant(next(it), qi)
        it = iter(s["c_transform"])
        for lv, o in bands:
            y1, y2, x1, x2 = region("C1", lv)
            qi = state["quantizer"][lv][o]
            for y in range(y1, y2):
                for x in range(x1, x2):
                    arrays["C1"][lv][o][y][x] = inverse_quant(next(it), qi)
                    arrays["C2"][lv][o][y][x] = inverse_quant(next(it), qi)


def run_deserialiser(data, as_viewer=False):
    """as_viewer: the deserialiser as the bitstream viewer drives it -- a MonitoredDeserialiser whose monitor,
    after every value, seeks back to where the value started and re-reads its raw bits (what the viewer prints)"""
    from vc2_conformance.bitstream import BitstreamReader, Deserialiser, MonitoredDeserialiser, parse_stream, to_bit_offset
    from vc2_conformance.pseudocode.state import State

    reader = BitstreamReader(io.BytesIO(data))
    if not as_viewer:
        with Deserialiser(reader) as des:
            parse_stream(des, State())
        return reconstruct(des.context)
    last = [reader.tell()]

    def monitor(serdes, target, value):
        this = reader.tell()
        n = to_bit_offset(*this) - to_bit_offset(*last[0])
        reader.seek(*last[0])
        reader.read_bitarray(n)
        last[0] = this

    with MonitoredDeserialiser(monitor, reader) as des:
        parse_stream(des, State())
    return reconstruct(des.context)


class Reconstruction(Exception):
    """the deserialised slices cannot be laid out with the deserialised geometry (coordinates / counts inconsistent)"""


def reconstruct(context):
    from vc2_conformance.decoder.transform_data_syntax import initialize_wavelet_data, dc_prediction
    from vc2_conformance.pseudocode.parse_code_functions import using_dc_prediction

    units, pics = [], []
    for seq in context["sequences"]:
        cur = None  # fragmented picture being assembled
        custom_qm = False
        for du in seq["data_units"]:
            pi = du["parse_info"]
            units.append([int(pi["parse_code"]), int(pi["next_parse_offset"]), int(pi["previous_parse_offset"]), int(pi["_offset"])])
            slices, st = None, None
            tp = du.get("picture_parse", {}).get("wavelet_transform", {}).get("transform_parameters") or du.get("fragment_parse", {}).get("transform_parameters")
            if tp is not None:
                custom_qm = bool(tp["quant_matrix"]["custom_quant_matrix"])
            if "picture_parse" in du:
                td = du["picture_parse"]["wavelet_transform"]["transform_data"]
                st = dict(td["_state"])
                slices = td.get("hq_slices") or td.get("ld_slices") or []
                cur = None
                whole = True
            elif "fragment_parse" in du and "fragment_data" in du["fragment_parse"]:
                fdat = du["fragment_parse"]["fragment_data"]
                st = dict(fdat["_state"])
                slices = fdat.get("hq_slices") or fdat.get("ld_slices") or []
                whole = False
            else:
                continue
            if not custom_qm:
                # the lenient parser leaves a default matrix unset / stale.  The matrix is NOT taken from the
                # repository's set_quant_matrix (the validator's own function: a fault there would be shared) but
                # from the third-party table; that this is the matrix (12.4.5.3) prescribes is judged in TLA+
                # (DeserValidatorTrace!MatrixInForce against the generated DVT_DefaultQM).
                key = (st["wavelet_index"], st["wavelet_index_ho"], st["dwt_depth"], st["dwt_depth_ho"])
                st["quant_matrix"] = {lv: dict(o) for lv, o in QUANTISATION_MATRICES[key].items()} if key in QUANTISATION_MATRICES else {}
            if whole or cur is None:
                cur = {"arrays": {c: initialize_wavelet_data(st, c) for c in ("Y", "C1", "C2")}, "got": 0}
            hq = (st["parse_code"] & 0xF8) == 0xE8
            try:
                for s in slices:
                    place_slice(st, cur["arrays"], s, hq)
            except (IndexError, StopIteration, KeyError, TypeError) as e:
                raise Reconstruction("%s: %s" % (type(e).__name__, e))
            cur["got"] += len(slices)
            if cur["got"] >= st["slices_x"] * st["slices_y"]:
                dcres = []
                if using_dc_prediction(st):
                    try:
                        for c in ("Y", "C1", "C2"):
                            band = cur["arrays"][c][0]["LL" if st["dwt_depth_ho"] == 0 else "L"]
                            # dequantised DC residuals BEFORE prediction: the (13.4) arithmetic is redone in TLA+
                            flat = [int(v) for row in band for v in row]
                            dcres.append({"w": len(band[0]) if band else 0, "r": flat if all(abs(v) < (1 << 27) for v in flat) else []})
                            dc_prediction(band)
                    except TypeError as e:  # a position no slice covered is still None
                        raise Reconstruction("TypeError: %s" % e)
                a = cur["arrays"]
                pics.append({"hdr": header_of(st), "cqm": custom_qm, "qm": quant_of(st), "y": flat_transform(a["Y"]), "c1": flat_transform(a["C1"]), "c2": flat_transform(a["C2"]), "dcres": dcres})
                cur = None
    return units, pics


_TABLES = None


def gen_tables():
    """DeserValidatorTables.tla generated from vc2_data_tables.QUANTISATION_MATRICES (scratch dir; per process)"""
    global _TABLES
    import os

    if _TABLES is None or not os.path.exists(_TABLES):
        rows = []
        for key in sorted(QUANTISATION_MATRICES, key=lambda k: tuple(int(x) for x in k)):
            ent = quant_of({"quant_matrix": QUANTISATION_MATRICES[key]})
            rows.append("<<%s>> :> <<%s>>" % (", ".join(str(int(x)) for x in key), ", ".join("<<%d, %d, %d>>" % tuple(e) for e in ent)))
        if len(rows) < 100:
            raise RuntimeError("vc2_data_tables.QUANTISATION_MATRICES has only %d entries" % len(rows))
        path = os.path.join(tlc.mkscratch("c08tables"), "DeserValidatorTables.tla")
        with open(path, "w") as f:
            f.write("------------------------- MODULE DeserValidatorTables -------------------------\n")
            f.write("(* GENERATED by harness/drivers/c08.py:gen_tables() from vc2_data_tables.QUANTISATION_MATRICES *)\n")
            f.write("EXTENDS Integers, Sequences, TLC\nDVT_Generated == TRUE\nDVT_DefaultQM ==\n  (   ")
            f.write("\n   @@ ".join(rows))
            f.write(")\n=============================================================================\n")
        _TABLES = path
    return _TABLES


def validate(records):
    bad, res = trace.validate("DeserValidatorTrace", records, extra_files=[gen_tables()])
    if any(b["clause"] == "HarnessMatrix" for b in bad):
        raise RuntimeError("harness fault: deserialised values were dequantised with a matrix other than the one in force: %r" % ([b for b in bad if b["clause"] == "HarnessMatrix"][:3],))
    return bad, res


class Deadline(BaseException):
    """CPU budget of the deserialiser on one accepted stream exhausted"""


def _on_alarm(signum, frame):
    raise Deadline()


DESER_BUDGET = 10.0  # CPU seconds; the validator needs < 0.1 s on these streams


def observe(data):
    import signal

    ev = {"ev": "stream", "n": len(data)}
    acc, exc, vu, vp = run_validator(data)
    ev["accepted"] = acc
    ev["vexc"] = exc
    ev["des_ok"] = True
    ev["recon_ok"] = True
    ev["dexc"] = ""
    ev["vunits"], ev["vpics"] = vu, vp
    ev["dunits"], ev["dpics"] = [], []
    if acc:
        old = signal.signal(signal.SIGVTALRM, _on_alarm)
        signal.setitimer(signal.ITIMER_VIRTUAL, DESER_BUDGET)
        try:
            # every other accepted stream (by content hash) is deserialised the way the viewer does it
            ev["as_viewer"] = zlib.crc32(data) % 2 == 1
            ev["dunits"], ev["dpics"] = run_deserialiser(data, ev["as_viewer"])
        except Deadline:
            ev["des_ok"] = False
            ev["dexc"] = "Deadline(%d CPU-s)" % DESER_BUDGET
        except Reconstruction as e:
            ev["recon_ok"] = False
            ev["dexc"] = str(e)[:80]
        except Exception as e:  # noqa
            ev["des_ok"] = False
            ev["dexc"] = common.exc_signature(e)
        finally:
            signal.setitimer(signal.ITIMER_VIRTUAL, 0)
            signal.signal(signal.SIGVTALRM, old)
    return ev


def case(arg):
    tid, seed = arg
    data, info = make_stream(seed)
    if data is None:
        return {"tid": tid, "ev": "skip", "why": info}
    ev = observe(data)
    ev["tid"] = tid
    ev["info"] = info
    return ev


def _slim(ev):
    if ev["ev"] == "skip" or not ev["accepted"]:
        return {"tid": ev["tid"], "ev": "skip"}
    return {k: ev[k] for k in ("tid", "ev", "accepted", "des_ok", "recon_ok", "vunits", "dunits", "vpics", "dpics")}


def selftest(events, convicted=False):
    from vc2_conformance.bitstream import io as bio

    base = next(e for e in events if e["ev"] == "stream" and e["accepted"] and e["vpics"] and any(any(p["y"]) for p in e["vpics"]))
    data, _ = make_stream(base["seed"])
    orig = bio.BitstreamReader.read_sint

    def broken(self):  # sign read from the wrong polarity for odd magnitudes
        v = orig(self)
        return -v if v % 2 else v

    bio.BitstreamReader.read_sint = broken
    try:
        bad_ev = observe(data)
    finally:
        bio.BitstreamReader.read_sint = orig
    bad_ev["tid"] = 2
    good = dict(base, tid=1)
    corrupt = dict(base, tid=3)
    du = [list(u) for u in corrupt["dunits"]]
    du[-1][1] += 1
    corrupt["dunits"] = du
    # a default quantisation matrix that both sides agree on but that is not the Annex D one (a fault shared by the
    # validator and the harness) must be refuted by the generated table
    dq = next((e for e in events if e["ev"] == "stream" and e["accepted"] and e["des_ok"] and e["recon_ok"] and e["dpics"] and not e["dpics"][0]["cqm"] and e["dpics"][0]["qm"]), None)
    recs = [_slim(good), _slim(bad_ev), _slim(corrupt)]
    if dq is not None:
        shared = dict(dq, tid=4)
        for side in ("vpics", "dpics"):
            pics = [dict(p) for p in shared[side]]
            pics[0]["qm"] = [list(x) for x in pics[0]["qm"]]
            pics[0]["qm"][0][2] += 1
            shared[side] = pics
        recs.append(_slim(shared))
    bad, _ = trace.validate("DeserValidatorTrace", recs, extra_files=[gen_tables()])
    by = {b["tid"]: b for b in bad if b["alarm"]}
    if dq is not None and (4 not in by or by[4]["clause"] != "QuantMatrix"):
        raise RuntimeError("binding self-test failed: a wrong default quantisation matrix shared by both sides accepted: %r" % (bad,))
    if 1 in by:
        if convicted:
            return {"skipped": "reference stream of the self-test is itself flagged (%s); violations were already recorded" % by[1]["clause"]}
        raise RuntimeError("binding self-test: reference stream flagged %r" % (by[1],))
    if 2 not in by or by[2]["clause"] != "Coefficients":
        raise RuntimeError("binding self-test failed: deserialiser with wrong sign handling not flagged: %r" % (bad,))
    if 3 not in by or by[3]["clause"] != "UnitFields":
        raise RuntimeError("binding self-test failed: corrupted next_parse_offset accepted: %r" % (bad,))
    return {"mutant": "BitstreamReader.read_sint negating odd magnitudes (in-process monkeypatch)", "verdict": by[2], "corrupted_field": "deserialiser next_parse_offset + 1 -> clause UnitFields",
            "shared_wrong_default_matrix": "both sides' default matrix entry + 1 -> clause QuantMatrix (table DVT_DefaultQM)" if dq is not None else "no default-matrix picture available"}


# ------------------------------------------------------------------------------------------------
# G: the two bounded-block readers on every bit string (BoundedRead.tla)
# ------------------------------------------------------------------------------------------------
def bounded_case(arg):
    """(bits, blk, nvals) -> both real readers' values and end position (in bits)"""
    bits, blk, nvals = arg
    from vc2_conformance.decoder.io import init_io, read_sintb, flush_inputb, tell
    from vc2_conformance.bitstream.io import BitstreamReader
    from vc2_conformance.pseudocode.state import State

    padded = list(bits) + [1, 0, 1, 0, 0, 1, 0, 1] * 2
    padded += [0] * ((-len(padded)) % 8)
    data = bytes(int("".join(map(str, padded[i : i + 8])), 2) for i in range(0, len(padded), 8))
    st = State()
    init_io(st, io.BytesIO(data))
    st["bits_left"] = blk
    vv = [read_sintb(st) for _ in range(nvals)]
    flush_inputb(st)
    by, bi = tell(st)
    vpos = by * 8 + (7 - bi)
    r = BitstreamReader(io.BytesIO(data))
    r.bounded_block_begin(blk)
    dv = [r.read_sint() for _ in range(nvals)]
    unused = r.bounded_block_end()
    r.read_bitarray(unused)
    by, bi = r.tell()
    dpos = by * 8 + (7 - bi)
    return {"vv": vv, "vpos": vpos, "dv": dv, "dpos": dpos}


def bounded_direction(ctx):
    consts = {"L": ctx.pick(8, 11), "MaxVals": 3}
    cfg = open(tlc.SPEC + "/mc/BoundedRead.cfg").read().replace("L = 8", "L = %d" % consts["L"])
    res = tlc.run("BoundedRead", cfg, dump=True, timeout=1800)
    ctx.add_tlc(res, "exhaustive (BoundedRead: both bounded-block readers on every bit string)", consts)
    cases = []
    for st in tlaval.iter_dump(res.dump_path):
        if st["ended"]:
            cases.append((list(st["bits"]), st["blk"], len(st["vv"]), list(st["vv"]), st["v"]["pos"]))
    if len(cases) < 1000:
        raise RuntimeError("vacuous: %d bounded-read cases" % len(cases))
    out = common.pmap(bounded_case, [c[:3] for c in cases])
    dis = 0
    for c, o in zip(cases, out):
        if o["vv"] != o["dv"] or o["vpos"] != o["dpos"]:
            ctx.violation(
                "C08|bounded-read|%s" % ("values" if o["vv"] != o["dv"] else "position"),
                "bounded block of %d bits over %s: validator reads %r and stands at bit %d, deserialiser reads %r and stands at bit %d" % (c[1], "".join(map(str, c[0])), o["vv"], o["vpos"], o["dv"], o["dpos"]),
                {"bounded": [c[0], c[1], c[2]]},
            )
        elif o["vv"] != c[3] or o["vpos"] != c[4]:
            dis += 1
    # binding self-test: a reader whose last in-block bit reads as 1 must be caught by the same comparison
    from vc2_conformance.bitstream import io as bio

    orig = bio.BitstreamReader.read_bit

    def broken(self):
        if self._bits_remaining is not None and self._bits_remaining == 1:
            orig(self)  # consume the last in-block bit ...
            return 1  # ... but report 1
        return orig(self)

    bio.BitstreamReader.read_bit = broken
    try:
        hit = sum(1 for c in cases[:: max(1, len(cases) // 400)] for o in [bounded_case(c[:3])] if o["vv"] != o["dv"])
    finally:
        bio.BitstreamReader.read_bit = orig
    if hit == 0:
        raise RuntimeError("bounded-read binding self-test failed: a reader that forces the last in-block bit to 1 was not noticed")
    return {"cases": len(cases), "spec_disagreements": dis, "selftest_hits": hit}


def run(ctx):
    import os

    bounded = bounded_direction(ctx)
    gen_tables()

    n = ctx.pick(1500, 25000) // int(os.environ.get("VERIF_SUBSAMPLE") or 1)  # subsample: mutation-sanity runs only
    jobs = [(j + 1, ctx.seed * 100003 + j) for j in range(n)]
    events = common.pmap(case, jobs)
    for e, j in zip(events, jobs):
        e["seed"] = j[1]
    accepted = [e for e in events if e["ev"] == "stream" and e["accepted"]]
    if len(accepted) < n // 2:
        why = {}
        for e in events:
            k = e.get("why") or e.get("vexc") or "ok"
            why[k] = why.get(k, 0) + 1
        raise RuntimeError("vacuous: only %d of %d generated streams were accepted by the validator: %r" % (len(accepted), n, why))
    parts = 4 if len(events) > 2000 else 1
    from concurrent.futures import ThreadPoolExecutor

    chunks = [events[i::parts] for i in range(parts)]
    with ThreadPoolExecutor(parts) as ex:
        results = list(ex.map(lambda c: validate([_slim(e) for e in c]), chunks))
    bad = []
    for i, (b, res) in enumerate(results):
        ctx.add_tlc(res, "trace validation (DeserValidatorTrace) part %d/%d" % (i + 1, parts))
        bad += b
    by_tid = {e["tid"]: e for e in events}
    logged = {}
    for b in bad:
        e = by_tid[b["tid"]]
        if not b["alarm"]:
            logged[b["clause"]] = logged.get(b["clause"], 0) + 1
            continue
        extra = ""
        if b["clause"] == "Deserialises":
            extra = "|" + e["dexc"]
        if b["clause"] == "SlicePlacement":
            extra = "|" + e["dexc"].split(":")[0]
        what = "stream of %d bytes accepted by the validator (%r): clause %s at index %s: validator %r / deserialiser %r" % (
            e["n"], e["info"], b["clause"], b.get("at"), _pick(e, b, "v"), _pick(e, b, "d"))
        ctx.violation("C08|%s%s" % (b["clause"], extra), what, {"seed": e["seed"]})
    try:
        st = selftest(events, bool(ctx.violations))
    except RuntimeError as e:
        if not ctx.violations:
            raise
        st = {"skipped": "self-test not conclusive on code that is already convicted by this run: %s" % e}
    npics = sum(len(e["vpics"]) for e in accepted)
    ncoef = sum(len(p["y"]) + len(p["c1"]) + len(p["c2"]) for e in accepted for p in e["vpics"])
    styles = {}
    for e in accepted:
        for k, v in e["info"]["stats"].items():
            styles[k] = styles.get(k, 0) + v
    distinct = set((e["n"], repr(e["vunits"])) for e in accepted if e["vpics"])
    reasons = {}
    for e in events:
        if e["ev"] == "skip":
            reasons[e["why"]] = reasons.get(e["why"], 0) + 1
        elif not e["accepted"]:
            reasons["validator:" + e["vexc"]] = reasons.get("validator:" + e["vexc"], 0) + 1
    if npics == 0 or styles.get("tight", 0) == 0 or styles.get("loose", 0) == 0:
        raise RuntimeError("vacuous: no pictures / slice styles compared: %r" % (styles,))
    # spread of the recorded space (projection only): sequences whose pictures differ in transform / slice
    # parameters; pictures relying on the Annex D default matrix, by kind of wavelet pair
    def hv(p, k):
        return dict((a, b) for a, b in p["hdr"])[k]

    mixed = 0
    for e in accepted:
        geo = [tuple(hv(p, k) for k in ("dwt_depth", "dwt_depth_ho", "slices_x", "slices_y")) for p in e["vpics"]]
        if e["info"].get("kind") == "mixed" and any(a != b for a, b in zip(geo, geo[1:])):
            mixed += 1
    dflt = {"symmetric": 0, "asymmetric_with_ho_levels": 0, "asymmetric_without_ho_levels": 0, "custom": 0}
    for e in accepted:
        for p in e["dpics"]:
            if p["cqm"]:
                dflt["custom"] += 1
            elif hv(p, "wavelet_index") == hv(p, "wavelet_index_ho"):
                dflt["symmetric"] += 1
            elif hv(p, "dwt_depth_ho") > 0:
                dflt["asymmetric_with_ho_levels"] += 1
            elif hv(p, "dwt_depth") > 0 and any(p[c] for c in ("y", "c1", "c2")):
                dflt["asymmetric_without_ho_levels"] += 1
    if mixed == 0 or min(dflt.values()) == 0:
        raise RuntimeError("vacuous: sequences with mixed transform parameters %d, pictures by matrix source %r" % (mixed, dflt))
    s0 = accepted[0]
    ctx.coverage.update(
        {
            "traces_validated_against_impl": len(accepted) + bounded["cases"],
            "evaluations": ncoef,
            "distinct_nontrivial": len(distinct),
            "rule": "each stream accepted by the validator is also deserialised; TLC compares the data-unit lists, the per-picture header/parameter values and the coefficient arrays; evaluations = coefficients compared; non-trivial = accepted streams with at least one picture, distinct by (length, unit list)",
            "exhaustive": False,
            "exhaustive_part": "BoundedRead.tla: every bit string of length L x every block length x 3 values, both readers executed on each",
            "generated": n,
            "accepted_by_validator": len(accepted),
            "not_used": reasons,
            "pictures_compared": npics,
            "slice_styles": styles,
            "profiles": {"ld": sum(1 for e in accepted if e["info"]["profile"] == 0), "hq": sum(1 for e in accepted if e["info"]["profile"] == 3)},
            "fragmented": sum(1 for e in accepted if e["info"]["frag"]),
            "deserialised_the_way_the_viewer_does": sum(1 for e in accepted if e.get("as_viewer")),
            "sequences_with_differing_transform_parameters": mixed,
            "pictures_by_quant_matrix_source": dflt,
            "default_matrix_table": "DVT_DefaultQM generated from vc2_data_tables.QUANTISATION_MATRICES (third party), judged in DeserValidatorTrace!MatrixInForce",
            "spec_disagreements": {"trace_logged_clauses": logged, "bounded_read_spec_vs_code": bounded["spec_disagreements"]},
            "bounded_read_cases": bounded["cases"],
            "binding_selftest": dict(st, bounded_read_mutant_hits=bounded["selftest_hits"]),
            "samples": [{"n": s0["n"], "info": s0["info"], "units": s0["vunits"], "hdr": s0["vpics"][0]["hdr"][:12] if s0["vpics"] else [], "y": s0["vpics"][0]["y"][:16] if s0["vpics"] else []}],
        }
    )
    ctx.level = "model_checking"
    ctx.assumptions += [
        "streams are produced by the library's encoder/serialiser for random tiny configurations and re-packed slice payloads; only streams the validator accepts are in scope",
        "the deserialiser's raw slice values are dequantised / placed with the repository's own inverse_quant / slice geometry functions (faults there are C12/C13's); default quantisation matrices come from the third-party vc2_data_tables (TLA+ table), DC prediction is redone in TLA+",
        "sequences whose pictures differ in transform / slice parameters are spliced at byte level from separately serialised parts (the library's encoder only produces uniform sequences)",
        "the validator is observed through in-process wrappers of decoder.stream.parse_info and picture_decode",
        "|coefficient| <= 1000 and qindex < 40 so that dequantised values stay below 2^31 for TLC",
    ]


def _pick(e, b, side):
    at = b.get("at") or [0, 0]
    try:
        if b["clause"] in ("UnitFields",):
            return e[side + "units"][at[0] - 1]
        if b["clause"] == "UnitCount":
            return len(e[side + "units"])
        if b["clause"] == "PictureCount":
            return len(e[side + "pics"])
        if b["clause"] in ("HeaderValues", "QuantMatrix"):
            return e[side + "pics"][at[0] - 1]["hdr" if b["clause"] == "HeaderValues" else "qm"]
        if b["clause"] == "Coefficients":
            p = e[side + "pics"][at[0] - 1]
            return {c: p[c][:24] for c in ("y", "c1", "c2")}
    except Exception:  # noqa
        pass
    return None


def replay(case_):
    if "bounded" in case_:
        o = bounded_case(tuple(case_["bounded"]))
        return {"violations": [o] if (o["vv"] != o["dv"] or o["vpos"] != o["dpos"]) else [], "observed": o}
    ev = case((1, case_["seed"]))
    bad, _ = validate([_slim(ev)])
    return {"violations": [b for b in bad if b["alarm"]], "info": ev.get("info"), "accepted": ev.get("accepted")}
