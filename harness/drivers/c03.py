"""C03 -- encoder output is always a conformant stream in the requested format.

Spec: spec/CodecConfig.tla (configuration space as a choice machine; TLC enumerates a pairwise covering design of
the valid space and predicts the abstract outcome) + spec/CodecTrace.tla (clauses C03.*).
Binding: G -- every TLC configuration is concretised into CodecFeatures + pictures + make_sequence arguments and run
through make_sequence / autofill_and_serialise_stream / the validator with _output_picture_callback;
T -- each run is recorded as one trace line and judged by TLC.
Alarm (R1): C03.Serialises, C03.ValidatorAccepts, C03.OnePicturePerInput, C03.VideoParameters,
C03.PictureCodingMode, C03.PictureNumbers.  Predicted units / version / ETP flags are S.* (logged only).
"""
from . import codec_common as cc


def selftest(ctx, cfgs):
    """(a) a broken implementation (autofill numbering starts at 1) must be flagged; (b) a corrupted recorded field."""
    from vc2_conformance.bitstream import vc2_autofill

    orig = vc2_autofill.autofill_picture_number

    def broken(stream, initial_picture_number=0):
        return orig(stream, 1)

    vc2_autofill.autofill_picture_number = broken
    try:
        recs = cc.selftest_runs(cfgs, lambda c: c["pn"] == "auto")
    finally:
        vc2_autofill.autofill_picture_number = orig
    bad, _, _ = cc.judge(recs)
    hit = sorted(set(b["clause"] for b in bad if b["clause"].startswith("C03.")))
    if not hit:
        raise RuntimeError("binding self-test failed: autofill numbering from 1 was not flagged")
    good = cc.selftest_runs(cfgs, lambda c: c["pn"] == "auto")
    bad0, _, _ = cc.judge(good)
    dirty = set(b["line"] for b in bad0 if b["clause"].startswith("C03."))
    probe = [dict(r) for r in good]
    tgt = next((i for i, r in enumerate(probe) if r["pics"] and (i + 1) not in dirty), None)
    note = "skipped: every baseline run already violates C03"
    if tgt is not None:
        probe[tgt] = dict(probe[tgt], pics=[dict(probe[tgt]["pics"][0], vpeq=False)] + probe[tgt]["pics"][1:])
        bad1, _, _ = cc.judge(probe)
        if not any(b["clause"] == "C03.VideoParameters" and b["line"] == tgt + 1 for b in bad1):
            raise RuntimeError("binding self-test failed: corrupted vpeq field not rejected")
        note = "pics[0].vpeq=false rejected with C03.VideoParameters"
    return {"mutant": "autofill_picture_number starting at 1 (in-process monkeypatch)", "clauses_flagging_it": hit, "corrupted_field": note}


def nontrivial(job, result):
    r = result["records"][0]
    return r["verdict"] == "accepted" and (job["cfg"]["npics"] >= 2 or job["cfg"]["fsc"] != 0)


def run(ctx):
    cc.run_family(
        ctx,
        "C03",
        selftest=selftest,
        nontrivial=nontrivial,
        rule="one real encode/serialise/validate/decode run per configuration of the TLC-enumerated pairwise design; evaluations = runs judged by the C03 clauses (encoder accepted); non-trivial = accepted run with >= 2 pictures or fragmented pictures",
    )


def replay(case):
    return cc.replay_case(case, "C03")
