"""C03 -- encoder output is always a conformant stream in the requested format.

Spec: spec/CodecConfig.tla (configuration space as a choice machine; TLC enumerates a pairwise covering design of
the valid space and predicts the abstract outcome) + spec/CodecTrace.tla (clauses C03.*).
Binding: G -- every TLC configuration is concretised into CodecFeatures + pictures + make_sequence arguments and run
through make_sequence / autofill_and_serialise_stream / the validator with _output_picture_callback;
T -- each run is recorded as one trace line and judged by TLC.
Alarm (R1): C03.Serialises, C03.ValidatorAccepts, C03.OnePicturePerInput, C03.VideoParameters,
C03.PictureCodingMode, C03.PictureNumbers.  Predicted units / version / ETP flags are S.* (logged only).
"""
from . import codec_common as cc


def selftest(ctx, cfgs):
    """(a) a broken implementation (autofill numbering starts at 1) must be flagged; (b) a corrupted recorded field."""
    from vc2_conformance.bitstream import vc2_autofill

    orig = vc2_autofill.autofill_picture_number

    def broken(stream, initial_picture_number=0):
        return orig(stream, 1)

    vc2_autofill.autofill_picture_number = broken
    try:
        recs = cc.selftest_runs(cfgs, lambda c: c["pn"] == "auto")
    finally:
        vc2_autofill.autofill_picture_number = orig
    bad, _, _ = cc.judge(recs)
    hit = sorted(set(b["clause"] for b in bad if b["clause"].startswith("C03.")))
    if not hit:
        raise RuntimeError("binding self-test failed: autofill numbering from 1 was not flagged")
    good = cc.selftest_runs(cfgs, lambda c: c["pn"] == "auto")
    bad0, _, _ = cc.judge(good)
    dirty = set(b["line"] for b in bad0 if b["clause"].startswith("C03."))
    probe = [dict(r) for r in good]
    tgt = next((i for i, r in enumerate(probe) if r["pics"] and (i + 1) not in dirty), None)
    note = "skipped: every baseline run already violates C03"
    if tgt is not None:
        probe[tgt] = dict(probe[tgt], pics=[dict(probe[tgt]["pics"][0], vpeq=False)] + probe[tgt]["pics"][1:])
        bad1, _, _ = cc.judge(probe)
        if not any(b["clause"] == "C03.VideoParameters" and b["line"] == tgt + 1 for b in bad1):
            raise RuntimeError("binding self-test failed: corrupted vpeq field not rejected")
        note = "pics[0].vpeq=false rejected with C03.VideoParameters"
    return {"mutant": "autofill_picture_number starting at 1 (in-process monkeypatch)", "clauses_flagging_it": hit, "corrupted_field": note}


def nontrivial(job, result):
    r = result["records"][0]
    return r["verdict"] == "accepted" and (job["cfg"]["npics"] >= 2 or job["cfg"]["fsc"] != 0)


def run(ctx):
    out = cc.run_family(
        ctx,
        "C03",
        selftest=selftest,
        nontrivial=nontrivial,
        rule="one real encode/serialise/validate/decode run per configuration of the TLC-enumerated pairwise design; evaluations = runs judged by the C03 clauses (encoder accepted); non-trivial = accepted run with >= 2 pictures or fragmented pictures",
    )
    ctx.coverage["supplementary_runs"] = supplement(ctx, out["cfgs"])
    ctx.assumptions.append("supplement: low-delay picture_bytes = k * slices + r for every remainder r in 1..slices-1, k about 1/5 and 1/2 of the raw bytes of a slice, noise / checkerboard content")


# ---------------------------------------------------------------------------------- supplement
# Low-delay pictures whose slices have DIFFERENT byte sizes (13.5.3.2: picture_bytes is not a multiple of the
# slice count) and are filled tightly.  The picture_bytes classes of the design (n, n+1, 5n+1, 260n+7, ...) have
# remainder 0, 1 or 7 only and are mostly either starved or slack; an encoder that budgets a slice with the size of
# ANOTHER slice (transposed / shifted slice numbering) is invisible there.  For enumerated low-delay configurations
# of every slice grid (non-square grids first: there slices_x and slices_y are distinguishable) the encoder is run
# with picture_bytes = k * slices + r for EVERY remainder r, two budgets k well below the raw size of a slice (so
# the rate control has to quantise and fills the slices to the last byte) and noise / checkerboard content.
# The runs are judged by the same CodecTrace clauses (TLC); concretisation only here.
def _uneven_cfgs(allc, per_grid):
    grids = {}
    for c in allc:
        cfg = c["cfg"]
        if cfg["mode"] == "ld_lossy" and cfg["sx"] * cfg["sy"] >= 2:
            grids.setdefault((cfg["sx"], cfg["sy"]), []).append(c)
    picked = []
    for g in sorted(grids, key=lambda g: (g[0] == g[1], g)):
        want = per_grid if g[0] != g[1] else max(1, per_grid // 3)
        seen, first, rest = set(), [], []
        for c in grids[g]:
            cfg = c["cfg"]
            key = (cfg["d"], cfg["dho"], cfg["size"], cfg["cdf"])
            (rest if key in seen else first).append(c)
            seen.add(key)
        # prefer pictures with enough samples per slice for the budget to bind
        first.sort(key=lambda c: -(c["outcome"]["dims"]["yw"] * c["outcome"]["dims"]["yh"]))
        picked += (first + rest)[:want]
    return picked


def _uneven_jobs(ctx, allc):
    jobs = []
    for i, c in enumerate(_uneven_cfgs(allc, ctx.pick(4, 40))):
        cfg, o = c["cfg"], c["outcome"]
        n = cfg["sx"] * cfg["sy"]
        dm = o["dims"]
        raw = (dm["yw"] * dm["yh"] * o["ydepth"] + 2 * dm["cw"] * dm["ch"] * o["cdepth"]) // (8 * n)  # raw bytes of a slice
        for r in range(1, n):
            for j, k in enumerate((max(2, raw // 5), max(3, raw // 2))):
                content = "random" if (r + j) % 3 else "checker"
                c2 = dict(cfg, minq=0, minscaler=1, content=content, pb="uneven", npics=(2 if cfg["pcm"] == 1 else 1))
                if c2["pn"] in ("seven", "wrap1") and cfg["pcm"] == 1:
                    c2["pn"] = "zero"
                o2 = dict(o, picture_bytes=k * n + r, numbers=o["numbers"][: c2["npics"]])
                jobs.append({"tid": len(jobs) + 1, "cfg": c2, "outcome": o2, "seed": ctx.seed * 23 + 7 * i + r + 100 * j, "repack": [], "rem": r, "k": k})
    return jobs


def _supp_selftest_runs(jobs):
    """binding self-test, part 1: supplementary runs executed with a broken implementation (the encoder budgets every
    low-delay slice with the size of the NEXT slice in raster order); the records are judged together with the real ones"""
    from vc2_conformance.encoder import pictures as encp

    orig = encp.slice_bytes

    def broken(state, sx, sy):
        k = (sy * state["slices_x"] + sx + 1) % (state["slices_x"] * state["slices_y"])
        return orig(state, k % state["slices_x"], k // state["slices_x"])

    nonsq = [j for j in jobs if j["cfg"]["sx"] != j["cfg"]["sy"]]
    step = max(1, len(nonsq) // 30)
    encp.slice_bytes = broken
    try:
        recs = []
        for j in nonsq[::step][:30]:
            recs += cc.execute(j)["records"]
    finally:
        encp.slice_bytes = orig
    return recs


def no_default_matrix_supplement(ctx, allc):
    """Configurations OUTSIDE the design's valid space in one respect: the default quantisation matrix is
    requested for a transform Annex D has no default for (every wavelet pair x small depths, including no
    transform at all).  The design says the encoder refuses them; the property speaks about every configuration
    the encoder ACCEPTS -- an encoder that accepts one of these must still produce a stream the validator accepts."""
    from vc2_data_tables import QUANTISATION_MATRICES

    have = set((int(a), int(b), c, d) for a, b, c, d in QUANTISATION_MATRICES)
    base = next(c for c in allc if c["cfg"]["mode"] == "hq_lossless" and c["cfg"]["fsc"] == 0 and c["cfg"]["npics"] >= 1)
    jobs = []
    for wi in range(7):
        for wiho in range(7):
            for d, dho in ((0, 0), (0, 1), (0, 2), (1, 0), (1, 1), (2, 0)):
                if (wi, wiho, d, dho) in have:
                    continue
                cfg = dict(base["cfg"], wi=wi, wiho=wiho, d=d, dho=dho, qm="default", sx=1, sy=1, npics=1, pn="auto")
                jobs.append({"tid": len(jobs) + 1, "cfg": cfg, "outcome": base["outcome"], "seed": ctx.seed + len(jobs), "repack": []})
    results = cc.run_jobs(jobs)
    records, owner = cc.flatten(results)
    bad, _, res = cc.judge(records)
    ctx.add_tlc(res, "trace validation (CodecTrace) of %d runs requesting a default quantisation matrix that Annex D does not define" % len(records))
    for b in bad:
        if b["clause"].startswith("C03.") and b["alarm"]:
            j = owner[b["line"] - 1]
            rec, det = records[b["line"] - 1], results[j]["detail"]
            ctx.violation("C03|%s|no-default-matrix|%s" % (b["clause"].split(".", 1)[1], det.get("exc", "")), "%s: the encoder accepted wavelets (%d, %d), depths (%d, %d) with the default quantisation matrix (Annex D has none): enc=%s ser=%s verdict=%s %s" % (b["clause"], rec["cfg"]["wi"], rec["cfg"]["wiho"], rec["cfg"]["d"], rec["cfg"]["dho"], rec["enc"], rec["ser"], rec["verdict"], det.get("exc", "")), cc.case_of(jobs[j]))
    out = {}
    for r in records:
        out[r["enc"]] = out.get(r["enc"], 0) + 1
    if out.get("refused", 0) + out.get("ok", 0) < len(records) - 5 or len(records) < 100:
        raise RuntimeError("no-default-matrix supplement: unexpected encoder outcomes %s" % out)
    return {"runs": len(records), "encoder_outcomes": out}


def supplement(ctx, cfgs):
    import time

    t0 = time.time()
    allc = cc.LAST_ALL or cfgs
    jobs = _uneven_jobs(ctx, allc)
    if not jobs:
        raise RuntimeError("vacuous supplement: no low-delay configuration with more than one slice")
    results = cc.run_jobs(jobs)
    records, owner = cc.flatten(results)
    st_recs = _supp_selftest_runs(jobs)
    allbad, _, res = cc.judge(records + st_recs)  # one TLC run; the lines after len(records) are the self-test's
    bad = [b for b in allbad if b["line"] <= len(records)]
    st_bad = [b for b in allbad if b["line"] > len(records) and b["alarm"] and b["clause"].startswith("C03.")]
    if not st_bad:
        raise RuntimeError("binding self-test failed: an encoder that budgets each low-delay slice with the next slice's size was not flagged")
    ctx.add_tlc(res, "trace validation (CodecTrace) of %d supplementary runs (low-delay, uneven slice sizes, tight budgets) + %d self-test runs" % (len(records), len(st_recs)))
    for b in bad:
        if b["clause"].startswith("C03.") and b["alarm"]:
            j = owner[b["line"] - 1]
            rec, det = records[b["line"] - 1], results[j]["detail"]
            ctx.violation(
                "C03|%s|ld-uneven-slices|%s" % (b["clause"].split(".", 1)[1], det.get("exc", "")),
                "%s on a low-delay run with picture_bytes %d = %d * %d slices + %d: cfg %s: enc=%s ser=%s verdict=%s %s"
                % (b["clause"], jobs[j]["outcome"]["picture_bytes"], jobs[j]["k"], rec["cfg"]["sx"] * rec["cfg"]["sy"], jobs[j]["rem"], rec["cfg"], rec["enc"], rec["ser"], rec["verdict"], det.get("exc", "")),
                cc.case_of(jobs[j]),
            )
    judged = sum(1 for r in records if r["enc"] == "ok")  # CodecTrace!C03Clause applies to every run the encoder accepted
    nonsq = [(j, r) for j, r in zip(jobs, records) if j["cfg"]["sx"] != j["cfg"]["sy"]]
    binding = sum(1 for j, r in nonsq if r["enc"] == "ok" and r["q0"] and not all(r["q0"]))
    stats = {
        "runs": len(records),
        "judged_by_C03_clauses": judged,
        "non_square_grid_runs": len(nonsq),
        "non_square_grid_runs_with_binding_budget": binding,
        "slice_grids": sorted(set("%dx%d" % (j["cfg"]["sx"], j["cfg"]["sy"]) for j in jobs)),
        "remainders_covered": sorted(set(j["rem"] for j in jobs)),
        "encoder_outcomes": {},
    }
    for r in records:
        k = "%s/%s/%s" % (r["enc"], r["ser"], r["verdict"])
        stats["encoder_outcomes"][k] = stats["encoder_outcomes"].get(k, 0) + 1
    if (binding < 50 and not ctx.violations) or not judged:
        raise RuntimeError("vacuous supplement: %s" % stats)
    stats["binding_selftest"] = {
        "mutant": "encoder.pictures.slice_bytes looked up for the next slice in raster order (in-process monkeypatch)",
        "runs": len(st_recs),
        "runs_flagged": len(set(b["line"] for b in st_bad)),
        "clauses_flagging_it": sorted(set(b["clause"] for b in st_bad)),
    }
    stats["no_default_quantisation_matrix"] = no_default_matrix_supplement(ctx, allc)
    stats["wall_s"] = round(time.time() - t0, 1)
    return stats


def replay(case):
    return cc.replay_case(case, "C03")
