"""C25 -- the validator command reports verdicts and decoded pictures faithfully.

Spec: spec/ToolOutcomeTrace.tla ("cli" events: exit 0 <=> conformant, then file pair i holds the i-th decoded
picture numbered from 0; exit 2 <=> non-conformant, located and explained; never exit 3).  Binding (T): the
real vc2_bitstream_validator.main is run in-process on conformant streams (encoder output for 11
configurations, hand-assembled streams, C01-style histories) and on seeded mutants, with several output
filename patterns; the library verdict and decoder output for the same bytes are recorded next to the
command's exit status, stdout markers and written files; TLC validates each event.
"""
import contextlib
import io
import os
import shutil

from .. import common, trace, tlc
from .. import validator_common as vc

PATTERNS = ["picture_%d.raw", "sub/dir/p_%03d.raw", "noext_%d", "odd.name_%d.bin", "%d", "dot.dir/pic_%d", "v1.2/out.d/%02d", "x.y/z_%d.raw"]


def pictures_equal(a, b):
    (pa, vpa, ma), (pb, vpb, mb) = a, b
    return pa == pb and dict(vpa) == dict(vpb) and int(ma) == int(mb)


def run_one(job):
    name, kind, data = vc.make_mutant(job)
    return run_bytes(data, name, kind, PATTERNS[job[1] % len(PATTERNS)], job[1])


def run_bytes(data, name, kind, pattern, salt):
    from vc2_conformance.scripts import vc2_bitstream_validator as cli
    from vc2_conformance import file_format

    job = (0, salt)
    lib = vc.guarded_validate(data, want_pictures=True)
    ev = {"ev": "cli", "lib": lib["outcome"], "exc": lib["exc"] or "", "base": name, "kind": kind, "pattern": pattern, "npics_lib": len(lib["pics"]), "exit": -1, "marker_offset": False, "marker_explain": False, "marker_hint": False, "files": [], "pairs_equal": [], "sig": ""}
    ev["offset_lib"] = -1
    ev["offset_cli"] = -2
    # conformance known without asking the library: an unmutated corpus stream that is conformant by construction
    from .. import corpus

    ev["known"] = "conformant" if kind == "identity" and name != "validator-history" and corpus.conformant_by_construction(name) else "unknown"
    if lib["outcome"] == "reject":
        # where the library itself locates the error: offending_offset(), else the read position
        try:
            from vc2_conformance.decoder import tell
            from vc2_conformance.bitstream import to_bit_offset

            off = lib["error"].offending_offset()
            ev["offset_lib"] = int(off if off is not None else to_bit_offset(*tell(lib["state"])))
            if not (0 <= ev["offset_lib"] < (1 << 30)):
                ev["offset_lib"] = -1
        except Exception:  # noqa  (C02's business)
            ev["offset_lib"] = -1
    if lib["outcome"] in ("oos", "timeout"):
        return ev
    wd = tlc.mkscratch("cli")
    try:
        path = os.path.join(wd, "in.vc2")
        with open(path, "wb") as f:
            f.write(data)
        outdir = os.path.join(wd, "o")
        os.makedirs(os.path.join(outdir, os.path.dirname(pattern)), exist_ok=True)
        so, se = io.StringIO(), io.StringIO()

        def call():
            with contextlib.redirect_stdout(so), contextlib.redirect_stderr(se):
                try:
                    # the status line (stderr) is on by default; two runs in three keep it on
                    extra = ["--no-status"] if job[1] % 3 == 0 else (["--verbose"] if job[1] % 3 == 1 else [])
                    return cli.main([path] + extra + ["--output", os.path.join(outdir, pattern)])
                except SystemExit as e:
                    return e.code if isinstance(e.code, int) else -1
                except Exception as e:  # noqa: an exception escaping main() is as bad as the internal-error status
                    ev["sig"] = common.exc_signature(e)
                    return -1

        status, code = vc.with_timeout(call, 10.0)
        if status != "ok":
            ev["lib"] = status
            return ev
        ev["exit"] = code
        out = so.getvalue()
        ev["marker_offset"] = "Conformance error at bit offset " in out
        import re

        m = re.search(r"Conformance error at bit offset (\d+)", out)
        if m and len(m.group(1)) < 10:
            ev["offset_cli"] = int(m.group(1))
        ev["marker_explain"] = "Details\n-------" in out
        ev["marker_hint"] = "Suggested bitstream viewer commands" in out and "vc2-bitstream-viewer" in out
        if code == 3:
            ev["sig"] = se.getvalue().strip().splitlines()[-1][:200] if se.getvalue().strip() else "exit3"
        # which indices were written (both files of the pair must exist)
        base, _ = os.path.splitext(os.path.join(outdir, pattern))
        found = []
        for root, _dirs, files in os.walk(outdir):
            for fn in files:
                found.append(os.path.join(root, fn))
        idx = []
        i = 0
        remaining = set(found)
        while True:
            stem = os.path.splitext(os.path.join(outdir, pattern % (i,)))[0]
            raw, js = stem + ".raw", stem + ".json"
            if raw in remaining and js in remaining:
                idx.append(i)
                remaining.discard(raw)
                remaining.discard(js)
                i += 1
            else:
                break
        if remaining:
            idx.append(-len(remaining))  # stray / unpaired files: makes the index list differ from 0..n-1
        ev["files"] = idx
        eq = []
        for j in [k for k in idx if k >= 0]:
            stem = os.path.splitext(os.path.join(outdir, pattern % (j,)))[0]
            try:
                got = file_format.read(stem + ".raw")
                eq.append(j < len(lib["pics"]) and pictures_equal(got, lib["pics"][j]))
            except Exception:  # noqa
                eq.append(False)
        ev["pairs_equal"] = eq
    finally:
        shutil.rmtree(wd, ignore_errors=True)
    return ev


def run_history(arg):
    """one Validator.tla history (structured, possibly malformed stream) through the command"""
    i, st = arg
    data = vc.history_bytes(st["cfg"], st["hist"])
    return run_bytes(data, "validator-history", "+".join(h["u"]["k"] for h in st["hist"]), PATTERNS[i % len(PATTERNS)], i)


def history_chunk(text):
    vc.install_permissive_levels()
    return [run_history((i, st)) for i, st in enumerate(vc.parse_chunk(text)) if st["hist"]]


def run(ctx):
    vc.install_permissive_levels()
    jobs = vc.mutant_jobs(ctx, 70, 1500)
    # every base stream unmutated under every pattern (make_mutant: seed % 50 == 0 -> identity)
    from .. import corpus

    nb = len(corpus.base_streams())
    jobs += [(i, 50 * (1000 + p)) for i in range(nb) for p in range(len(PATTERNS))]
    outs = common.pmap(run_one, jobs)
    # structured streams: every transition of Validator.tla for one configuration with fragments and pictures
    from . import c01

    hcfg = [{"prof": "HQ", "ver": 3, "pat": "any", "fields": False, "sx": 1}] if ctx.quick else vc.ALL_CFGS[1::8]
    mc = vc.write_mc_module(hcfg)
    hres = tlc.run("ValidatorMC", c01.MC_CFG, dump=True, extra_files=[mc], timeout=3000)
    ctx.add_tlc(hres, "Validator.tla transitions (structured streams through the command)", {"Cfgs": hcfg})
    houts = []
    for part in common.pmap(history_chunk, vc.split_dump(hres.dump_path, 64), chunksize=1):
        houts += part
    nmut = len(outs)
    outs = outs + houts
    records = [dict(ev, tid=t) for t, ev in enumerate(outs)]
    good = next(r for r in records if r["lib"] == "accept" and r["npics_lib"] > 0 and r["exit"] == 0)
    probe = dict(good, tid=len(records), exit=3)
    probe2 = dict(good, tid=len(records) + 1, files=[1])
    bad, res = trace.validate("ToolOutcomeTrace", records + [probe, probe2])
    ctx.add_tlc(res, "trace validation (ToolOutcomeTrace, cli events)")
    flagged = {b["tid"]: b["clause"] for b in bad if b["alarm"]}
    if flagged.get(probe["tid"]) != "NeverInternalError" or flagged.get(probe2["tid"]) != "OnePairPerPictureNumberedFromZero":
        raise RuntimeError("binding self-test failed: corrupted cli events accepted (%s)" % flagged)
    counts = {}
    for ev in records:
        k = "%s/exit%s" % (ev["lib"], ev["exit"])
        counts[k] = counts.get(k, 0) + 1
    for b in bad:
        if b["tid"] >= len(records) or not b["alarm"]:
            continue
        ev = records[b["tid"]]
        case = {"job": list(jobs[b["tid"]])} if b["tid"] < nmut else {"history_index": b["tid"] - nmut, "kind": ev["kind"]}
        ctx.violation("C25|%s|%s" % (b["clause"], ev["sig"] or ev["exc"] or ev["pattern"]), "%s: lib=%s exit=%s files=%s equal=%s pattern=%s stream %s of %s" % (b["clause"], ev["lib"], ev["exit"], ev["files"], ev["pairs_equal"], ev["pattern"], ev["kind"], ev["base"]), case)
    acc = sum(1 for ev in records if ev["lib"] == "accept" and ev["npics_lib"] > 0)
    rej = sum(1 for ev in records if ev["lib"] == "reject")
    if acc < 10 or rej < 10:
        raise RuntimeError("vacuous: %d conformant-with-pictures, %d non-conformant runs" % (acc, rej))
    ctx.coverage.update(
        {
            "traces_validated_against_impl": len(records),
            "evaluations": len(records),
            "distinct_nontrivial": len(set((ev["base"], ev["kind"], ev["lib"], ev["exc"], ev["pattern"], ev["npics_lib"]) for ev in records)),
            "rule": "one in-process run of the validator command per (stream, output pattern): all 21 base streams x 5 patterns unmutated + seeded mutants; distinct = different (base, mutator, library verdict, exception class, pattern, #pictures)",
            "exhaustive": False,
            "outcomes": counts,
            "conformant_runs_with_pictures": acc,
            "structured_histories_from_Validator_tla": len(houts),
            "nonconformant_runs": rej,
            "patterns": PATTERNS,
            "binding_selftest": "events corrupted to exit=3 and to a wrong file index list are rejected (NeverInternalError, OnePairPerPictureNumberedFromZero)",
            "spec_disagreements": sum(1 for b in bad if not b["alarm"]),
            "samples": [dict((k, records[i][k]) for k in ("base", "kind", "pattern", "lib", "exit", "npics_lib", "files", "pairs_equal")) for i in (0, len(records) // 2, len(records) - 1)],
        }
    )
    ctx.assumptions += ["file contents are read back with vc2_conformance.file_format.read (verified separately by C23)", "resource guard and timeouts as in C02"]


def replay(case):
    vc.install_permissive_levels()
    ev = run_one(tuple(case["job"]))
    bad, _ = trace.validate("ToolOutcomeTrace", [dict(ev, tid=0)])
    return {"event": ev, "violations": [b for b in bad if b["alarm"]]}
