"""C01 -- the validator accepts exactly the structurally conformant data-unit histories.

Spec: spec/Validator.tla.  TLC explores every (abstract validator state, data unit) transition for each
configuration (profile x major version x level pattern x frames/fields); `-dump` yields one history per
transition with the rules each unit violates.  Binding (G): each history is turned into bytes by the
independent writer (harness/vc2bytes.py), run through vc2_conformance.decoder.parse_stream, and the
verdict compared: accept <=> the spec accepts; every rejection must be a ConformanceError.
"""
import json

from .. import common, tlc, tlaval
from .. import validator_common as vc

MC_CFG = """SPECIFICATION Spec
CONSTANTS
  S = 2
  MaxLen = 40
  Cfgs <- MCCfgs
INVARIANT TypeOK
INVARIANT FragmentAccounting
INVARIANT AcceptMeansCleanEnd
INVARIANT AcceptMeansMinimalVersion
INVARIANT OutputCount
INVARIANT MachineMatchesDeclarative
VIEW View
CHECK_DEADLOCK FALSE
"""


def expected(st):
    """spec verdict for the byte stream of this history: a sequence that has not ended by the end of the
    input is rejected (the end of the stream is reached inside a sequence)."""
    return "accept" if st["verdict"] == "accept" else "reject"


def exec_case(st):
    cfg, hist = st["cfg"], st["hist"]
    data = vc.history_bytes(cfg, hist)
    r = vc.run_validator(data)
    want = expected(st)
    out = {"got": r["outcome"], "want": want, "exc": r["exc"], "viol": None, "npics": len(r["pics"]), "sig": None, "what": None}
    rules = sorted(set(x for h in hist for x in h["viol"]))
    if r["outcome"] == "crash":
        out["sig"] = "C01|crash|%s" % r["sig"]
        out["what"] = "validator raised %s (%s) instead of a conformance error; units=%s" % (r["exc"], r.get("msg"), [h["u"]["k"] for h in hist])
    elif r["outcome"] != want:
        if want == "reject":
            out["sig"] = "C01|accepted-nonconformant|%s" % ("+".join(rules) or "sequence-not-ended")
            out["what"] = "validator accepted a history violating %s; units=%s" % (rules or "EOS missing", [h["u"] for h in hist])
        else:
            out["sig"] = "C01|rejected-conformant|%s" % r["exc"]
            out["what"] = "validator rejected a conformant history with %s; units=%s" % (r["exc"], [h["u"] for h in hist])
    return out


POST_VARS = ["started", "lastPN", "np", "fragRem", "fragRecv", "lvl", "needVer", "pend", "taint"]


def _key(x):
    return json.dumps(x, sort_keys=True)


def process_chunk(text):
    """Worker: parse a slice of the TLC dump, replay every history, return compact results."""
    vc.install_permissive_levels()
    res = {"n": 0, "nontrivial": 0, "accept": 0, "reject": 0, "rules": {}, "viol": [], "edges": [], "todo": [], "samples": [], "eof_disagree": 0}
    for st in vc.parse_chunk(text):
        hist = st["hist"]
        if not hist:
            continue
        o = exec_case(st)
        res["n"] += 1
        res["nontrivial"] += 1 if len(hist) >= 2 else 0
        res["accept" if o["want"] == "accept" else "reject"] += 1
        for r in hist[-1]["viol"]:
            res["rules"][r] = res["rules"].get(r, 0) + 1
        if o["sig"]:
            res["viol"].append((o["sig"], o["what"], {"cfg": st["cfg"], "hist": hist, "verdict": st["verdict"]}))
        if hist[-1]["viol"] and o["exc"] == "UnexpectedEndOfStream":
            res["eof_disagree"] += 1
        ck = _key(st["cfg"])
        post = _key([st[v] for v in POST_VARS])
        prek = _key(list(st["pre"]))
        if st["taint"] != "":
            res["edges"].append((ck, prek, st["inp"], post, st["verdict"]))
            if st["verdict"] == "run" and len(st["pre"]) == 9 and st["pre"][8] == "":
                res["todo"].append((ck, post, st["cfg"], hist, st["taint"]))
        if res["n"] % 997 == 1:
            res["samples"].append({"cfg": st["cfg"], "units": [h["u"] for h in hist], "spec_verdict": o["want"], "validator": o["got"], "exception": o["exc"]})
    return res


def exec_completion(case):
    o = exec_case(case)
    return o


def completions(edges, todo):
    """Graph search over TLC's dumped lenient transitions: shortest suffix from each tainted state to end_of_sequence."""
    succ = {}
    for ck, prek, inp, post, verdict in edges:
        succ.setdefault((ck, prek), []).append((inp, post, verdict))
    memo = {}

    def suffix(ck, y):
        if (ck, y) in memo:
            return memo[(ck, y)]
        seen = {y}
        frontier = [(y, [])]
        found = None
        while frontier and found is None:
            nxt = []
            for node, path in frontier:
                for inp, post, verdict in succ.get((ck, node), []):
                    if inp["k"] == "EOS":
                        found = path + [inp]
                        break
                    if verdict == "run" and post not in seen:
                        seen.add(post)
                        nxt.append((post, path + [inp]))
                if found is not None:
                    break
            frontier = nxt
        memo[(ck, y)] = found
        return found

    cases = []
    nosuffix = 0
    for ck, y, cfg, hist, taint in todo:
        sfx = suffix(ck, y)
        if sfx is None:
            nosuffix += 1
            continue
        full = hist + [{"u": u, "viol": [], "verdict": "run", "taint": taint} for u in sfx]
        cases.append({"cfg": cfg, "hist": full, "verdict": "reject", "completed_for_rule": taint})
    return cases, nosuffix


def run_cfgs(ctx, cfgs, name, acc):
    mc = vc.write_mc_module(cfgs)
    res = tlc.run("ValidatorMC", MC_CFG, dump=True, extra_files=[mc], timeout=3000)
    ctx.add_tlc(res, name, {"S": 2, "MaxLen": 40, "Cfgs": cfgs})
    if res.coverage.get("Feed", [0, 0])[0] == 0:
        raise RuntimeError("vacuous: action Feed never taken")
    parts = common.pmap(process_chunk, vc.split_dump(res.dump_path, 128), chunksize=1)
    edges, todo = [], []
    for r in parts:
        for k in ("n", "nontrivial", "accept", "reject", "eof_disagree"):
            acc[k] = acc.get(k, 0) + r[k]
        for k, v in r["rules"].items():
            acc["rules"][k] = acc["rules"].get(k, 0) + v
        acc["viol"] += r["viol"]
        acc["samples"] += r["samples"]
        edges += r["edges"]
        todo += r["todo"]
    cases, nosuffix = completions(edges, todo)
    acc["completion_none"] = acc.get("completion_none", 0) + nosuffix
    outs = common.pmap(exec_completion, cases)
    for c, o in zip(cases, outs):
        acc["completed"] = acc.get("completed", 0) + 1
        acc["completed_rules"][c["completed_for_rule"]] = acc["completed_rules"].get(c["completed_for_rule"], 0) + 1
        if o["sig"]:
            acc["viol"].append((o["sig"], o["what"], c))
    if cases:
        acc["samples"].append({"cfg": cases[0]["cfg"], "units": [h["u"] for h in cases[0]["hist"]], "completed_for_rule": cases[0]["completed_for_rule"], "spec_verdict": "reject", "validator": outs[0]["got"], "exception": outs[0]["exc"]})
    return acc


# ---------------------------------------------------------------------------------- T direction
def record_job(job):
    """Record one validator run on a corpus mutant (in-process wrappers, see validator_common.Recorder)."""
    name, kind, data = vc.make_mutant(job)
    rec = vc.Recorder()
    rec.install()
    try:
        ev, r = rec.record(data, 0, {"base": name, "kind": kind})
    finally:
        rec.uninstall()
    return ev, (r["sig"] or ""), (r.get("msg") or "")


def trace_direction(ctx):
    from .. import trace

    jobs = vc.mutant_jobs(ctx, 130, 3000)
    outs = common.pmap(record_job, jobs)
    records = []
    for tid, (ev, sig, msg) in enumerate(outs):
        for e in ev:
            e["tid"] = tid
        records += ev
    # binding self-test: turn the verdict of rejected runs into "accept" in a copy of the trace: every run
    # whose rejection the structural model explains must then be flagged
    flipped = []
    for tid, (ev, sig, msg) in enumerate(outs[:400]):
        for e in ev:
            e2 = dict(e, tid=len(outs) + tid)
            if e2["ev"] == "end" and e2["outcome"] == "reject":
                e2["outcome"] = "accept"
            flipped.append(e2)
    # one TLC invocation per batch of <= 3000 runs (the verdict sequence `bad` grows with the trace; a single
    # invocation over several 10^5 lines made TLC's JSON printing of it fail in the thorough tier)
    bad = []
    batch = 3000
    allrec = records + flipped
    by_tid = {}
    for e in allrec:
        by_tid.setdefault(e["tid"], []).append(e)
    tids = sorted(by_tid)
    for i in range(0, len(tids), batch):
        part = [e for t in tids[i : i + batch] for e in by_tid[t]]
        b, res = trace.validate("ValidatorTrace", part, timeout=3000)
        ctx.add_tlc(res, "trace validation (ValidatorTrace), runs %d..%d" % (i, min(len(tids), i + batch) - 1))
        bad += b
    self_hits = sum(1 for b in bad if b["alarm"] and b["tid"] >= len(outs))
    if self_hits == 0:
        raise RuntimeError("trace binding self-test failed: rejected runs relabelled as accepted were all accepted by ValidatorTrace")
    explained = {}
    nrej = nacc = 0
    for b in bad:
        if b["tid"] >= len(outs):
            continue
        if b["alarm"]:
            ev, sig, msg = outs[b["tid"]]
            meta = ev[0]
            if b["clause"] == "VerdictIsAcceptOrConformanceError":
                ctx.violation("C01|crash|%s" % sig, "validator raised a non-conformance exception (%s) on mutant %s of %s" % (msg, meta["kind"], meta["base"]), {"trace_job": list(jobs[b["tid"]])})
            else:
                ctx.violation("C01|trace|%s|%s" % (b["clause"], b["rule"]), "validator accepted mutant %s of %s although its recorded data units violate %s" % (meta["kind"], meta["base"], b["rule"] or "sequence termination"), {"trace_job": list(jobs[b["tid"]])})
        else:
            nrej += 1
            explained[b["rule"] or "(value-level or end of stream)"] = explained.get(b["rule"] or "(value-level or end of stream)", 0) + 1
    nacc = sum(1 for ev, _, _ in outs if ev[-1]["outcome"] == "accept")
    return {
        "recorded_runs": len(outs),
        "recorded_events": len(records),
        "accepted_runs": nacc,
        "rejected_runs": nrej,
        "rejections_by_structural_rule": explained,
        "selftest_relabelled_runs_flagged": self_hits,
        "sample": [dict((k, v) for k, v in e.items() if k != "tid") for e in outs[1][0][:8]],
    }


def binding_selftest():
    """A validator whose slice-contiguity check is disabled must be flagged by the same replay machinery."""
    from vc2_conformance.decoder import fragment_syntax as fs

    cfg = {"prof": "HQ", "ver": 3, "pat": "any", "fields": False, "sx": 2}

    def U(viol=(), **kw):
        return {"u": dict({"npo": "ok", "ppo": "ok"}, **kw), "viol": list(viol)}

    hist = [
        U(k="SH", same=True),
        U(k="F0", prof="HQ", pn="a0"),
        U(["R7_contiguous"], k="FN", prof="HQ", cnt=1, off="bad", pnsame=True),
        U(k="FN", prof="HQ", cnt=1, off="ok", pnsame=True),
        U(k="EOS", npo="zero"),
    ]
    case = {"cfg": cfg, "hist": hist, "verdict": "reject"}
    if exec_case(case)["sig"] is not None:
        return 0  # the real validator must reject this stream; reported by the main run
    real = fs.fragment_header

    def mutant(state):
        try:
            return real(state)
        except fs.FragmentSlicesNotContiguous:
            return None  # the check is the last statement of fragment_header: swallowing it == no check

    fs.fragment_header = mutant
    try:
        o = exec_case(case)
    finally:
        fs.fragment_header = real
    return 1 if o["sig"] else 0  # (accepted, or crashed while decoding the never-received slice)


def run(ctx):
    vc.install_permissive_levels()
    cfgs = vc.QUICK_CFGS if ctx.quick else vc.ALL_CFGS
    acc = {"rules": {}, "viol": [], "samples": [], "completed_rules": {}}
    batch = 6 if ctx.quick else 8
    for i in range(0, len(cfgs), batch):
        run_cfgs(ctx, cfgs[i : i + batch], "exhaustive cfgs %d..%d" % (i, min(len(cfgs), i + batch) - 1), acc)
    for sig, what, case in acc["viol"]:
        ctx.violation(sig, what, case)
    if acc["accept"] == 0 or acc["reject"] == 0 or acc.get("completed", 0) == 0:
        raise RuntimeError("vacuous: accept=%d reject=%d completed=%d" % (acc["accept"], acc["reject"], acc.get("completed", 0)))
    tinfo = trace_direction(ctx)
    if tinfo["accepted_runs"] < 20:
        raise RuntimeError("vacuous trace direction: %d accepted runs" % tinfo["accepted_runs"])
    hit = binding_selftest()
    if hit == 0:
        raise RuntimeError("binding self-test failed: mutant validator not detected")
    total = acc["n"] + acc["completed"] + tinfo["recorded_runs"]
    ctx.coverage.update(
        {
            "traces_validated_against_impl": total,
            "evaluations": total,
            "distinct_nontrivial": acc["nontrivial"] + acc["completed"],
            "rule": "one history per distinct (configuration, abstract validator state, data unit) transition of Validator.tla, plus, for every transition whose unit violates exactly one completable rule, the same history completed to end_of_sequence along TLC's lenient transitions (a whole stream violating only that rule); non-trivial = history of >= 2 data units",
            "exhaustive": True,
            "configurations": len(cfgs),
            "spec_accepting_histories": acc["accept"],
            "spec_rejecting_histories": acc["reject"] + acc["completed"],
            "single_rule_streams_completed": acc["completed"],
            "single_rule_streams_by_rule": acc["completed_rules"],
            "violating_transitions_without_completion": acc.get("completion_none", 0),
            "rules_exercised": acc["rules"],
            "binding_selftest": {"mutant": "validator with the FragmentSlicesNotContiguous check disabled (in-process)", "streams_flagging_it": hit},
            "spec_disagreements": acc["eof_disagree"],
            "spec_disagreements_note": "histories ending in a violating unit that the validator rejected only with UnexpectedEndOfStream (logged, not an alarm)",
            "trace_direction": tinfo,
            "samples": acc["samples"][:8] + [{"recorded_trace": tinfo["sample"]}],
        }
    )
    ctx.assumptions += [
        "data units are the fixed tiny units of harness/vc2bytes.py (4x4 picture, 2x1 slices, depth 0, zero coefficients); value-level header rules are C02/C15/C16",
        "levels 1/64/66 keep the repository's ordering patterns but their value tables are swapped in-process for an any-value column (as tests/alternative_level_constraints.py does)",
        "picture numbers are abstracted to {small even, small odd, 2^32-2, 2^32-1}; the driver tracks the concrete 32-bit number",
    ]


def replay(case):
    vc.install_permissive_levels()
    if "trace_job" in case:
        from .. import trace

        ev, sig, msg = record_job(tuple(case["trace_job"]))
        bad, _ = trace.validate("ValidatorTrace", ev)
        return {"events": ev, "crash": sig, "violations": [b for b in bad if b["alarm"]]}
    o = exec_case(case)
    o["violations"] = [o["sig"]] if o["sig"] else []
    o["bytes_hex"] = vc.history_bytes(case["cfg"], case["hist"]).hex()
    return o
