"""C10 -- concatenated sequences are validated and decoded independently.

Spec: spec/ConcatStreams.tla.  The per-archetype tables Ok / NPics are measured on the implementation one
sequence at a time (the property is relational); TLC enumerates every list of <= 3 archetypes (thorough: plus
random lists of 4-5), checks the design invariants and dumps the expected verdict and picture list for each.
Binding (G): each list is concatenated byte-wise and run through the real validator; verdict and the decoded
pictures (content, numbers, parameters) are compared with the composition of the individual results.
Archetypes are chosen so that leaking any one piece of per-sequence decoder state flips some pair.
"""
import os

from .. import common, tlc, tlaval
from .. import validator_common as vc
from .. import vc2bytes as vb

_ARCH = None


def _tiny(prof, ver, level, fields, body, width=4, eos_npo="zero"):
    """body: list of ('PIC', pn) | ('FRAG', pn) | ('SH',) | ('PAD',) | ('AUX',) ; returns sequence bytes"""
    f = vb.Fmt(profile=prof, version=ver, level=level, fields=fields, width=width)
    sh = vb.sequence_header_payload(f)
    units = [dict(code=vb.PC_SH, payload=sh, first_in_sequence=True)]
    pic = vb.PC_HQ_PIC if prof == "HQ" else vb.PC_LD_PIC
    frag = vb.PC_HQ_FRAG if prof == "HQ" else vb.PC_LD_FRAG
    for b in body:
        if b[0] == "PIC":
            units.append(dict(code=pic, payload=vb.picture_payload(f, prof, b[1])))
        elif b[0] == "FRAG":
            units.append(dict(code=frag, payload=vb.fragment0_payload(f, prof, b[1])))
            units.append(dict(code=frag, payload=vb.fragmentn_payload(f, prof, b[1], 2, 0, 0)))
        elif b[0] == "F0":
            units.append(dict(code=frag, payload=vb.fragment0_payload(f, prof, b[1])))
        elif b[0] == "FN":
            units.append(dict(code=frag, payload=vb.fragmentn_payload(f, prof, b[1], b[2], b[3], 0)))
        elif b[0] == "SHDIFF":
            units.append(dict(code=vb.PC_SH, payload=vb.sequence_header_payload(f, 1)))
        elif b[0] == "SH":
            units.append(dict(code=vb.PC_SH, payload=sh))
        elif b[0] == "PAD":
            units.append(dict(code=vb.PC_PAD, payload=b"\x00\x00\x00"))
        elif b[0] == "AUX":
            units.append(dict(code=vb.PC_AUX, payload=b"hello"))
        elif b[0] == "PICNPO0":
            units.append(dict(code=pic, payload=vb.picture_payload(f, prof, b[1]), npo="zero"))
    units.append(dict(code=vb.PC_EOS, payload=b"", npo=eos_npo))
    return vb.assemble(units)[0]


def _header_only(base, level, fields, prof="HQ", ver=2):
    """sequence_header + end_of_sequence, every video parameter taken from base video format `base` (real level
    tables: which base formats / coding modes a multi-column level such as 3 (HD) admits depends on the column)"""
    units = [dict(code=vb.PC_SH, payload=vb.sequence_header_base_defaults(base, version=ver, profile=prof, clean=None, fields=fields, level=level), first_in_sequence=True)]
    units.append(dict(code=vb.PC_EOS, payload=b"", npo="zero"))
    return vb.assemble(units)[0]


def _first_ppo(data, v):
    return data[:9] + vb.u32(v) + data[13:]


def _noisy_minimal():
    """the minimal lossy HQ configuration (default quantisation matrix, qindex > 0) on high-contrast noise"""
    import random
    from .. import corpus

    rnd = random.Random(99)
    cf = dict(corpus._features())["hq_minimal"]
    pics = corpus._pictures(cf, 2, rnd)
    for p in pics:
        for c in ("Y", "C1", "C2"):
            p[c] = [[rnd.choice([0, 255]) for _ in row] for row in p[c]]
    return corpus.encode_pics(cf, pics)


def _default_then_custom_qm():
    """one sequence: a picture using the DEFAULT quantisation matrix followed by one with a CUSTOM matrix for the
    same wavelet/depth (a decoder that let the custom matrix overwrite the shared default table would dequantise
    every later default-matrix picture -- also in later sequences -- with the wrong matrix)"""
    import random
    from .. import corpus
    from vc2_conformance.codec_features import CodecFeatures

    rnd = random.Random(7)
    base = dict(corpus._features())["hq_minimal"]
    parts = []
    for i, qm in enumerate((None, {0: {"LL": 3}, 1: {"HL": 7, "LH": 7, "HH": 9}})):
        cf = CodecFeatures(base, quantization_matrix=qm)
        pics = corpus._pictures(cf, 1, rnd)
        pics[0]["pic_num"] = i
        parts.append(corpus._units(corpus.encode_pics(cf, pics)))
    return corpus.fix_offsets(b"".join(parts[0][:-1] + parts[1][1:-1] + [parts[0][-1]]))


def archetypes():
    """[(name, bytes)] : conformant archetypes first, then non-conformant ones"""
    global _ARCH
    if _ARCH is not None:
        return _ARCH
    M = 1 << 32
    P = lambda *pns: [("PIC", p) for p in pns]
    F = lambda *pns: [("FRAG", p) for p in pns]
    A = [
        ("ld_v1_frames_pn0-1", _tiny("LD", 1, 0, False, P(0, 1))),
        ("hq_v2_frames_single_pn5", _tiny("HQ", 2, 0, False, P(5))),
        ("hq_v3_fragments_pn0-1", _tiny("HQ", 3, 0, False, F(0, 1))),
        ("hq_v2_fields_pn0-1", _tiny("HQ", 2, 0, True, P(0, 1))),
        ("hq_v2_fields_wrap", _tiny("HQ", 2, 0, True, P(M - 2, M - 1, 0, 1))),
        ("hq_v2_frames_odd_start_3pics", _tiny("HQ", 2, 0, False, P(7, 8, 9))),
        ("lvl1_pictures", _tiny("HQ", 2, 1, False, P(0, 1))),
        ("lvl1_fragments", _tiny("HQ", 3, 1, False, F(0))),
        ("lvl66_alternating", _tiny("HQ", 2, 66, False, [("PIC", 0), ("SH",), ("PIC", 1)])),
        ("lvl64_alternating", _tiny("LD", 1, 64, False, [("PIC", 3)])),
        ("empty_hq_v3", _tiny("HQ", 3, 0, False, [])),
        ("empty_ld_v1", _tiny("LD", 1, 0, False, [])),
        ("hq_v2_pad_aux_repeat_header_wide", _tiny("HQ", 2, 0, False, [("PAD",), ("PIC", 0), ("SH",), ("AUX",), ("PICNPO0", 1)], width=8)),
        ("ld_v3_fragments_fields", _tiny("LD", 3, 0, True, F(10, 11))),
    ]
    from .. import corpus

    real = dict(corpus.base_streams())
    for n in ("hq_minimal", "ld_fragments", "hq_420_fields", "hq_lossless"):
        A.append(("encoder_" + n, real[n]))
    # level 3 (HD) has several columns: 720p formats only as frames, 1080i formats as frames or fields, ...
    A.append(("lvl3_hd720p60_frames_header_only", _header_only(9, 3, False)))
    A.append(("lvl3_hd1080i60_fields_header_only", _header_only(11, 3, True)))
    A.append(("lvl2_sd480i_fields_header_only", _header_only(7, 2, True)))
    A.append(("lvl2_sd576i_fields_header_only", _header_only(8, 2, True)))
    A.append(("default_then_custom_quant_matrix", _default_then_custom_qm()))
    A.append(("encoder_hq_minimal_noisy", _noisy_minimal()))
    B = [
        ("BAD_first_previous_offset_13", _first_ppo(_tiny("HQ", 2, 0, False, P(0, 1)), 13)),
        ("BAD_version_too_high", _tiny("HQ", 3, 0, False, P(0))),
        ("BAD_odd_fields", _tiny("HQ", 2, 0, True, P(0, 1, 2))),
        ("BAD_nonconsecutive", _tiny("LD", 1, 0, False, P(0, 2))),
        ("BAD_odd_first_field", _tiny("HQ", 2, 0, True, P(1, 2))),
        ("BAD_level1_mixed", _tiny("HQ", 3, 1, False, P(0) + F(1))),
        ("BAD_incomplete_fragmented_picture_at_end", _tiny("HQ", 3, 0, False, [("F0", 0), ("FN", 0, 1, 0)])),
        ("BAD_picture_interleaved_with_fragments", _tiny("HQ", 3, 0, False, [("F0", 0), ("FN", 0, 1, 0), ("PIC", 1), ("FN", 1, 1, 1)])),
        ("BAD_header_changed", _tiny("HQ", 2, 0, False, [("PIC", 0), ("SHDIFF",), ("PIC", 1)])),
        ("BAD_eos_next_offset_13", _tiny("LD", 1, 0, False, P(0), eos_npo=13)),
        ("BAD_level66_ends_after_header", _tiny("HQ", 2, 66, False, [("PIC", 0), ("SH",)])),
        ("BAD_fragment_without_initial_fragment", _tiny("HQ", 3, 0, False, [("FN", 0, 1, 0)])),
        ("BAD_lvl3_hd720p60_fields_header_only", _header_only(9, 3, True)),
        ("BAD_wrong_prev_offset", _tiny("HQ", 2, 0, False, P(0, 1))[:-4] + b"\x00\x00\x00\x01"),
    ]
    _ARCH = A + B
    return _ARCH


def pic_key(entry):
    pic, vp, pcm = entry
    return (pic["pic_num"], repr(pic["Y"]), repr(pic["C1"]), repr(pic["C2"]), repr(sorted(dict(vp).items())), int(pcm))


def measure(i):
    name, data = archetypes()[i]
    r = vc.run_validator(data, want_pictures=True)
    return {"name": name, "outcome": r["outcome"], "exc": r["exc"], "pics": [pic_key(p) for p in r["pics"]], "sig": r["sig"]}


def exec_list(arg):
    lst, alone_pics = arg
    data = b"".join(archetypes()[a - 1][1] for a in lst)
    r = vc.run_validator(data, want_pictures=True)
    return {"outcome": r["outcome"], "exc": r["exc"], "pics": [pic_key(p) for p in r["pics"]], "sig": r["sig"]}


def run(ctx):
    vc.install_permissive_levels()
    arch = archetypes()
    # each archetype alone in a process of its own (forked from this one, which has not run the validator yet):
    # "accepted alone" must not depend on what a process validated before
    import multiprocessing

    with multiprocessing.get_context("fork").Pool(processes=8, maxtasksperchild=1) as pool:
        alone = pool.map(measure, range(len(arch)), chunksize=1)
    for m in alone:
        if m["outcome"] == "crash":
            ctx.violation("C10|crash-alone|%s" % m["sig"], "archetype %s crashes the validator alone" % m["name"], {"list": [alone.index(m) + 1]})
    n_ok = sum(1 for m in alone if m["outcome"] == "accept")
    if n_ok < 12 or len(alone) - n_ok < 10:
        raise RuntimeError("archetype set degenerate: %s" % [(m["name"], m["outcome"], m["exc"]) for m in alone])
    wd = tlc.mkscratch("c10")
    mc = os.path.join(wd, "ConcatMC.tla")
    with open(mc, "w") as f:
        f.write("---- MODULE ConcatMC ----\nEXTENDS ConcatStreams\nMCOk == <<%s>>\nMCNPics == <<%s>>\n====\n" % (", ".join("TRUE" if m["outcome"] == "accept" else "FALSE" for m in alone), ", ".join(str(len(m["pics"])) for m in alone)))
    maxseqs = 3
    cfg = "SPECIFICATION Spec\nCONSTANTS\n  N = %d\n  MaxSeqs = %d\n  Ok <- MCOk\n  NPics <- MCNPics\nINVARIANT AcceptIffAllConformant\nINVARIANT PicturesAreConcatenation\nPROPERTY Independence\nCHECK_DEADLOCK FALSE\n" % (len(alone), maxseqs)
    res = tlc.run("ConcatMC", cfg, dump=True, extra_files=[mc])
    ctx.add_tlc(res, "all lists of <= %d archetypes" % maxseqs, {"N": len(alone), "MaxSeqs": maxseqs})
    cases = [tlaval.to_jsonable(s) for s in tlaval.iter_dump(res.dump_path)]
    if not ctx.quick:
        sim = tlc.run("ConcatMC", cfg.replace("MaxSeqs = 3", "MaxSeqs = 5"), simulate=3000, depth=6, seed=ctx.seed, workers=1, extra_files=[mc])
        import glob

        for p in sorted(glob.glob(os.path.join(sim.sim_dir, "tr*"))):
            sts = list(tlaval.iter_dump(p))
            if sts:
                cases.append(tlaval.to_jsonable(sts[-1]))
    cases = [c for c in cases if c["list"]]
    if ctx.quick:
        # all pairs, and every triple whose middle element is one of 6 state-rich archetypes
        rich = {1, 3, 5, 7, 8, 19}
        cases = [c for c in cases if len(c["list"]) <= 2 or c["list"][1] in rich]
    outs = common.pmap(exec_list, [(c["list"], None) for c in cases])
    nviol = 0
    for c, o in zip(cases, outs):
        names = [arch[a - 1][0] for a in c["list"]]
        want_pics = [alone[a - 1]["pics"][k - 1] for a, k in c["pics"]]
        if o["outcome"] == "crash":
            ctx.violation("C10|crash|%s" % o["sig"], "validator crashed on concatenation %s" % names, {"list": c["list"]})
        elif o["outcome"] != c["verdict"]:
            firstbad = next((n for n, a in zip(names, c["list"]) if alone[a - 1]["outcome"] != "accept"), None)
            ctx.violation("C10|verdict-differs|%s" % (o["exc"] if o["outcome"] == "reject" else "accepted:" + str(firstbad)), "concatenation %s: validator %s (%s) but composition of individual verdicts is %s" % (names, o["outcome"], o["exc"], c["verdict"]), {"list": c["list"]})
        elif o["pics"] != want_pics:
            ctx.violation("C10|pictures-differ", "concatenation %s: %d pictures output, composition of individual outputs has %d (or contents differ)" % (names, len(o["pics"]), len(want_pics)), {"list": c["list"]})
    # binding self-test: a decoder whose reset keeps the last picture number must be flagged
    from vc2_conformance.pseudocode import state as st_mod

    st_mod.retained_state_fields.append("_last_picture_number")
    st_mod.retained_state_fields.append("_last_picture_number_offset")
    try:
        hit = 0
        for c in cases:
            if len(c["list"]) == 2 and c["verdict"] == "accept":
                o = exec_list((c["list"], None))
                if o["outcome"] != "accept":
                    hit += 1
    finally:
        st_mod.retained_state_fields.remove("_last_picture_number")
        st_mod.retained_state_fields.remove("_last_picture_number_offset")
    if hit == 0:
        raise RuntimeError("binding self-test failed: leaking _last_picture_number across sequences was not detected")
    ctx.coverage.update(
        {
            "traces_validated_against_impl": len(cases),
            "evaluations": len(cases),
            "distinct_nontrivial": sum(1 for c in cases if len(c["list"]) >= 2),
            "rule": "every list of <= 2 archetypes and (quick) every triple with a state-rich middle archetype / (thorough) every triple plus 3000 random lists of <= 5; non-trivial = at least two sequences",
            "exhaustive": not ctx.quick,
            "archetypes": [(m["name"], m["outcome"], m["exc"], len(m["pics"])) for m in alone],
            "accepted_concatenations": sum(1 for c in cases if c["verdict"] == "accept"),
            "binding_selftest": {"mutant": "reset_state retaining _last_picture_number (in-process)", "accepted_pairs_flagging_it": hit},
            "spec_disagreements": 0,
            "samples": [{"list": [arch[a - 1][0] for a in cases[i]["list"]], "expected_verdict": cases[i]["verdict"], "expected_pictures": len(cases[i]["pics"]), "validator": outs[i]["outcome"], "pictures": len(outs[i]["pics"])} for i in (0, len(cases) // 2, len(cases) - 1)],
        }
    )
    ctx.assumptions += ["archetype verdicts/pictures alone are measured on the implementation (the property is relational)", "levels 1/64/66 value tables swapped for any-value columns as in C01"]


def replay(case):
    vc.install_permissive_levels()
    arch = archetypes()
    import multiprocessing

    with multiprocessing.get_context("fork").Pool(processes=4, maxtasksperchild=1) as pool:
        alone = pool.map(measure, [a - 1 for a in case["list"]], chunksize=1)
        o = pool.map(exec_list, [(case["list"], None)], chunksize=1)[0]
    want = "accept" if all(m["outcome"] == "accept" for m in alone) else "reject"
    return {"alone": [(m["name"], m["outcome"], m["exc"], len(m["pics"])) for m in alone], "concatenated": (o["outcome"], o["exc"], len(o["pics"])), "violations": [] if o["outcome"] == want else ["verdict differs"]}
