"""C21 -- the serialiser/deserialiser framework round-trips arbitrary description programs.

Spec: spec/SerDes.tla (+ BitIOOps.tla for the bit level).  TLC (workers=1) explores every program of
<= MaxLen SerDes calls (primitive fields, declare_list, subcontext_enter/leave up to MaxDepth,
set_context_type, computed_value, bounded blocks, byte_align, verify_complete + a planted fault), merging
states by the abstract bookkeeping state (VIEW), so every (bookkeeping state, call) transition is dumped
once with a shortest program, the description TLC built for it (`obs.tree`) and the bits (`obs.bits`).
G: each program is run on the real Serialiser (over the TLC-built description, perturbed by the fault)
   and on the real Deserialiser (over the bytes); descriptions are compared including dictionary types.
T: not built; the thorough tier instead replays TLC -simulate random walks (depth 15, nesting 3).

Alarm clauses (the statement of C21):
  roundtrip     deserialise(serialise(d)) != d (values, structure or dictionary types), or one of the two fails
  unused        a description with an unused value / list item serialises without an exception
  missing       a description lacking a needed value / list item (no default for its context type) serialises
  default       a value supplied through default_values[type(context)] is not used / is used for the wrong type
  overwrite     a target used twice is not rejected with ReusedTargetError by the deserialiser
  tree          after set_context_type the root description does not hold the current context at the cursor
The exact exception classes, the bytes and verify_complete's Unclosed* errors are compared with the spec's
prediction and counted under spec_disagreements only.
"""
import copy
import glob
import io
import os
import random
import re

from .. import common, tlc, tlaval, trace
from . import c20

_MOD = {}


def M():
    if not _MOD:
        from bitarray import bitarray
        from vc2_conformance.bitstream import io as bio
        from vc2_conformance.bitstream import serdes
        from vc2_conformance.bitstream import exceptions as exc
        from vc2_conformance.fixeddict import fixeddict

        names = ["a", "b", "l", "s", "m", "c", "p", "q", "x"] + ["t%d" % i for i in range(12)]
        TA = fixeddict("VerifTA", *names, module=__name__)
        TB = fixeddict("VerifTB", *names, module=__name__)
        globals()["VerifTA"] = TA
        globals()["VerifTB"] = TB
        _MOD.update(bitarray=bitarray, bio=bio, serdes=serdes, exc=exc, TYPES={"dict": dict, "TA": TA, "TB": TB})
    return _MOD


VerifTA = None
VerifTB = None


def exc_name(e):
    n = type(e).__name__
    if n == "FixedDictKeyError":
        return "KeyError"
    if n in ("EOFError",):
        return "EOF"
    return n


# ------------------------------------------------------------------------------ concretisation
def concretise(tv):
    m = M()
    k = tv["k"]
    if k == "v":
        if tv["kind"] == "bool":
            return bool(tv["v"])
        if tv["kind"] == "bitarray":
            return m["bitarray"](list(tv["v"]))
        return tv["v"]
    if k == "l":
        return [concretise(x) for x in tv["items"]]
    T = m["TYPES"][tv["typ"]]
    out = T()
    for key, val in (tv["m"] or {}).items():
        out[key] = concretise(val)
    return out


def same(a, b):
    """deep equality including the dictionary types"""
    if isinstance(a, dict) or isinstance(b, dict):
        if type(a) is not type(b) or set(a.keys()) != set(b.keys()):
            return False
        return all(same(a[k], b[k]) for k in a)
    if isinstance(a, list) or isinstance(b, list):
        return isinstance(a, list) and isinstance(b, list) and len(a) == len(b) and all(same(x, y) for x, y in zip(a, b))
    return type(a) is type(b) and a == b


def call(sd, o):
    m = M()
    op = o["op"]
    if op == "prim":
        kind = o["kind"]
        if kind == "bool":
            return sd.bool(o["t"])
        if kind == "nbits":
            return sd.nbits(o["t"], o.get("n", 2))
        if kind == "uint":
            return sd.uint(o["t"])
        if kind == "sint":
            return sd.sint(o["t"])
        if kind == "bytes":
            return sd.bytes(o["t"], o["n"])
        if kind == "bitarray":
            return sd.bitarray(o["t"], o["n"])
        if kind == "uint_lit":
            return sd.uint_lit(o["t"], o["n"])
    if op == "declare_list":
        return sd.declare_list(o["t"])
    if op == "enter":
        return sd.subcontext_enter(o["t"])
    if op == "leave":
        return sd.subcontext_leave()
    if op == "set_type":
        return sd.set_context_type(m["TYPES"][o["kind"]])
    if op == "computed":
        return sd.computed_value(o["t"], o["v"])
    if op == "bbegin":
        return sd.bounded_block_begin(o["v"])
    if op == "bend":
        return sd.bounded_block_end(o["t"])
    if op == "align":
        return sd.byte_align(o["t"])
    if op == "verify":
        return sd.verify_complete()
    raise RuntimeError("unknown call %r" % (o,))


def cursor_ok(sd):
    """the root description holds the current context (same object) at the cursor path"""
    node = sd.context
    try:
        for p in sd.path():
            node = node[p]
    except (KeyError, IndexError, TypeError):
        return False
    return node is sd.cur_context


def run_program(sd, ops):
    """returns (index of the failing call or None, exception name, [tree-consistent after each call])"""
    for i, o in enumerate(ops):
        try:
            call(sd, o)
        except Exception as e:  # noqa
            return i, exc_name(e), False
        if not cursor_ok(sd):
            return i, "tree", True
    return None, "none", False


def navigate(d, path):
    node = d
    for t, ix in path:
        node = node[t]
        if ix != -1:
            node = node[ix]
    return node


def plant(d, fault, site):
    """perturb description d (a deep copy) at the site chosen by TLC; returns (d, default_values)"""
    m = M()
    d = copy.deepcopy(d)
    defaults = {}
    if fault == "none":
        return d, defaults
    ctx = navigate(d, site["path"])
    t = site["t"]
    if fault == "extra":
        ctx["x"] = 5
    elif fault == "missing":
        del ctx[t]
    elif fault == "listlong":
        ctx[t].append(1)
    elif fault == "listshort":
        ctx[t].pop()
    elif fault == "default":
        defaults = {type(ctx): {t: ctx.pop(t)}}
    elif fault == "defaultwrongtype":
        other = [T for T in m["TYPES"].values() if T is not type(ctx)][0]
        defaults = {other: {t: ctx.pop(t)}}
    else:
        raise RuntimeError("unknown fault %r" % fault)
    return d, defaults


# ------------------------------------------------------------------------------ G
def replay_state(st):
    m = M()
    sdm = m["serdes"]
    bio = m["bio"]
    hist = st["hist"]
    ops = [h["o"] for h in hist]
    errs = [h["err"] for h in hist]
    last = hist[-1]
    tree = st["obs"]["tree"]
    viol = []
    dis = 0
    prog = ops[:-1] if last["o"]["op"] == "verify" else ops
    sig_prog = "|".join(sorted(set(o["op"] for o in prog)))
    d = concretise(tree)
    fault = last.get("fault", "none") if last["o"]["op"] == "verify" else "none"
    site = last.get("site")
    bad_at = next((i for i, e in enumerate(errs) if e != "none"), None)

    def desc():
        return "program %s on %r" % ([(o["op"], o["t"], o["kind"], o["v"]) for o in ops], d)

    if bad_at is not None and errs[bad_at] == "ReusedTargetError":
        # the deserialiser must refuse the second use and keep the first value
        data = c20.bytes_of_bits(list(st["obs"]["bits"])) + b"\xff\xff\xff\xff"
        des = sdm.Deserialiser(bio.BitstreamReader(io.BytesIO(data)))
        i, err, _ = run_program(des, ops[: bad_at + 1])
        if i != bad_at or err != "ReusedTargetError":
            viol.append(("C21|overwrite|%s" % ops[bad_at]["op"], "%s: deserialiser ended with %s at call %s instead of ReusedTargetError at call %d; context %r" % (desc(), err, i, bad_at, des.context)))
        ser = sdm.Serialiser(bio.BitstreamWriter(io.BytesIO()), copy.deepcopy(d))
        i, err, _ = run_program(ser, ops[: bad_at + 1])
        if i != bad_at or err != "ReusedTargetError":
            dis += 1
        return {"violations": viol, "dis": dis, "evals": 2 * (bad_at + 1)}
    if bad_at is not None and last["o"]["op"] != "verify":
        # ValueError from a bounded block that is too small / nesting errors: C20's business, logged only
        ser = sdm.Serialiser(bio.BitstreamWriter(io.BytesIO()), copy.deepcopy(d))
        i, err, _ = run_program(ser, ops[: bad_at + 1])
        if i != bad_at or err != errs[bad_at]:
            dis += 1
        return {"violations": viol, "dis": dis, "evals": bad_at + 1}

    # a program without errors (possibly closed by verify_complete, possibly with a planted fault)
    full_ops = ops
    din, defaults = plant(d, fault, site) if fault != "none" else (copy.deepcopy(d), {})
    f = io.BytesIO()
    wr = bio.BitstreamWriter(f)
    ser = sdm.Serialiser(wr, din, defaults)
    i, err, tree_bad = run_program(ser, full_ops)
    wr.flush()
    data = f.getvalue()
    evals = len(full_ops)
    must_fail = bool(last.get("serfails")) if last["o"]["op"] == "verify" else False
    unclosed = last["o"]["op"] == "verify" and last["err"] != "none"
    if tree_bad:
        viol.append(("C21|tree|serialiser", "%s: after call %d the root description does not hold the current context at the cursor path %r" % (desc(), i, ser.path())))
        return {"violations": viol, "dis": dis, "evals": evals}
    if fault in ("extra", "listlong"):
        if err == "none":
            viol.append(("C21|unused|%s" % fault, "%s with %s planted at %s serialised without an exception" % (desc(), fault, site)))
        elif err != "UnusedTargetError":
            dis += 1
        return {"violations": viol, "dis": dis, "evals": evals}
    if fault in ("missing", "listshort", "defaultwrongtype"):
        if err == "none":
            viol.append(("C21|%s|%s" % ("missing" if fault != "defaultwrongtype" else "default", fault), "%s with %s planted at %s serialised without an exception" % (desc(), fault, site)))
        elif err not in ("KeyError", "ListTargetExhaustedError"):
            dis += 1
        return {"violations": viol, "dis": dis, "evals": evals}
    if unclosed:
        if err != last["err"] or i != len(full_ops) - 1:
            dis += 1
        return {"violations": viol, "dis": dis, "evals": evals}
    if err != "none":
        viol.append(("C21|%s|serialiser-failed|%s" % ("default" if fault == "default" else "roundtrip", err), "%s: serialiser raised %s at call %s (fault %s)" % (desc(), err, i, fault)))
        return {"violations": viol, "dis": dis, "evals": evals}
    if c20.bits_of_bytes(data)[: len(st["obs"]["bits"])] != list(st["obs"]["bits"]) or len(data) * 8 != len(st["obs"]["bits"]):
        dis += 1
    if fault == "none" and not same(ser.context, d):
        viol.append(("C21|tree|serialiser-description-changed", "%s: after serialising, the serialiser's description is %r" % (desc(), ser.context)))
    des = sdm.Deserialiser(bio.BitstreamReader(io.BytesIO(data)))
    i, err, tree_bad = run_program(des, full_ops)
    evals += len(full_ops)
    if tree_bad:
        viol.append(("C21|tree|deserialiser", "%s: after call %d the root description does not hold the current context at the cursor path %r (root %r)" % (desc(), i, des.path(), des.context)))
    elif err != "none":
        viol.append(("C21|roundtrip|deserialiser-failed|%s" % err, "%s: deserialiser raised %s at call %s" % (desc(), err, i)))
    elif not same(des.context, d):
        viol.append(("C21|%s|differs" % ("default" if fault == "default" else "roundtrip"), "%s: deserialised %r" % (desc(), des.context)))
    return {"violations": viol, "dis": dis, "evals": evals}


_HDR = c20._HDR


def case_of(st):
    return {"hist": tlaval.to_jsonable(st["hist"]), "obs": tlaval.to_jsonable(st["obs"])}


def work_chunk(arg):
    path, a, b = arg
    M()
    with open(path) as fh:
        fh.seek(a)
        text = fh.read(b - a)
    hdrs = list(_HDR.finditer(text))
    out = {"n": 0, "nontrivial": 0, "evals": 0, "dis": 0, "viol": [], "ops": {}, "samples": [], "empty": 0, "faults": {}}
    for j, h in enumerate(hdrs):
        end = hdrs[j + 1].start() if j + 1 < len(hdrs) else len(text)
        block = text[h.end() : end].split("\n=====")[0]
        st = tlaval.parse_state_block(block)
        if not st["hist"]:
            out["empty"] += 1
            continue
        res = replay_state(st)
        out["n"] += 1
        out["nontrivial"] += 1 if len(st["hist"]) >= 3 else 0
        out["evals"] += res["evals"]
        out["dis"] += res["dis"]
        last = st["hist"][-1]
        key = last["o"]["op"]
        out["ops"][key] = out["ops"].get(key, 0) + 1
        if key == "verify":
            fk = "%s/%s" % (last["fault"], last["err"])
            out["faults"][fk] = out["faults"].get(fk, 0) + 1
        if res["violations"] and len(out["viol"]) < 40:
            c = case_of(st)
            for sig, what in res["violations"]:
                out["viol"].append((sig, what, c))
        if len(out["samples"]) < 1 and key == "verify" and last["err"] == "none" and len(st["hist"]) >= 4:
            out["samples"].append(case_of(st))
    return out


def work_simfile(path):
    with open(path) as fh:
        text = fh.read()
    hdrs = list(_HDR.finditer(text))
    if not hdrs:
        return {"n": 0, "nontrivial": 0, "evals": 0, "dis": 0, "viol": [], "ops": {}, "samples": [], "empty": 1, "faults": {}}
    a = hdrs[-1].start()
    return work_chunk((path, a, len(text)))


def merge(parts):
    tot = {"n": 0, "nontrivial": 0, "evals": 0, "dis": 0, "viol": [], "ops": {}, "samples": [], "empty": 0, "faults": {}}
    for p in parts:
        for k in ("n", "nontrivial", "evals", "dis", "empty"):
            tot[k] += p[k]
        tot["viol"] += p["viol"]
        tot["samples"] += p["samples"][:1]
        for key in ("ops", "faults"):
            for k, v in p[key].items():
                tot[key][k] = tot[key].get(k, 0) + v
    return tot


CFG = "mc/SerDes.cfg"


# ------------------------------------------------------------------------------ binding self-test
def selftest_G(states):
    """In-process broken SerDes classes must be flagged by the same replay (restored in finally)."""
    m = M()
    S = m["serdes"].SerDes
    fired = {}

    def sigs():
        out = set()
        for st in states:
            out |= set(sg for sg, _ in replay_state(st)["violations"])
        return out

    base = sigs()

    def probe(name, attr, broken):
        orig = getattr(S, attr)
        setattr(S, attr, broken(orig))
        try:
            new = sigs() - base
        finally:
            setattr(S, attr, orig)
        if new:
            fired[name] = sorted(new)[:6]
        elif base:
            fired[name] = "inconclusive: the code under test is already flagged on the probe programs (%s)" % sorted(base)[:4]
        else:
            raise RuntimeError("binding self-test failed: mutant %r was not flagged" % name)

    def no_verify(orig):
        return lambda self: None

    probe("_verify_context_is_complete does nothing (unused values pass)", "_verify_context_is_complete", no_verify)

    def overwrite(orig):
        def f(self, target, value):
            if self._cur_context_indices.get(target) is True:
                self.cur_context[target] = value
                return
            return orig(self, target, value)

        return f

    probe("_set_context_value overwrites a used target", "_set_context_value", overwrite)

    def bad_settype(orig):
        def f(self, context_type):
            if type(self.cur_context) is not context_type:
                self.cur_context = context_type(self.cur_context)

        return f

    probe("set_context_type forgets to update the parent", "set_context_type", bad_settype)
    return fired


# ------------------------------------------------------------------------------ entry points
def run(ctx):
    M()
    c20.M()
    const = {"MaxLen": ctx.pick(4, 5), "MaxDepth": 2}
    jobs = [("SerDes", c20.cfg_text(CFG, MaxLen=const["MaxLen"]), {"dump": True})]
    res = c20.tlc_parallel(jobs)[0]
    ctx.add_tlc(res, "programs (exhaustive over abstract transitions)", const)
    parts = common.pmap(work_chunk, c20.chunk_offsets(res.dump_path, 128), chunksize=1)
    tot = merge(parts)
    if tot["n"] + tot["empty"] != res.distinct or tot["empty"] != 1:
        raise RuntimeError("dump yielded %d histories + %d initial states for %d distinct states" % (tot["n"], tot["empty"], res.distinct))
    tots = [tot]
    sims = 0
    if not ctx.quick:
        sim = tlc.run("SerDes", c20.cfg_text(CFG, MaxLen=14, MaxDepth=3), simulate=8000, depth=15, seed=ctx.seed, workers=1, env=c20.JVM_ENV)
        files = sorted(glob.glob(os.path.join(sim.sim_dir, "tr*")))
        stot = merge(common.pmap(work_simfile, files))
        sims = stot["n"]
        tots.append(stot)
    alltot = merge(tots)
    for sig, what, case in alltot["viol"]:
        ctx.violation(sig, what, case)
    # probe programs for the self-test: a handful of dumped states covering faults, reuse and set_type in lists
    probe_states = pick_probe_states(res.dump_path)
    fired = selftest_G(probe_states)
    tinfo = trace_direction(ctx)
    need = ["none/none", "extra/none", "missing/none", "listlong/none", "listshort/none", "default/none", "defaultwrongtype/none"]
    lacking = [k for k in need if not tot["faults"].get(k)]
    if lacking or not tot["ops"].get("set_type") or not tot["ops"].get("leave"):
        raise RuntimeError("vacuous: no replayed history for %s" % lacking)
    ctx.coverage.update(
        {
            "traces_validated_against_impl": alltot["n"] + tinfo["traces"],
            "replayed_histories": alltot["n"],
            "simulated_walks_replayed": sims,
            "evaluations": alltot["evals"] + tinfo["events"],
            "distinct_nontrivial": alltot["nontrivial"] + tinfo["traces"],
            "rule": "one shortest program per abstract transition (bookkeeping state, call) of SerDes.tla, run on the real Serialiser "
            "(TLC-built description, TLC-chosen fault) and Deserialiser; evaluations = SerDes method calls executed; non-trivial = program of >= 3 calls, or a recorded random trace",
            "exhaustive": True,
            "bounds": dict(const, targets="a (plain), l (list), s (subcontext), m (list of subcontexts), c (computed), p/q (padding)", values="2 per primitive kind", types="dict + 2 fixeddict types"),
            "transitions_per_action": alltot["ops"],
            "verify_transitions_by_fault_and_outcome": alltot["faults"],
            "spec_disagreements": alltot["dis"] + tinfo["dis"],
            "binding_selftest": {"G": fired, "T": tinfo["selftest"]},
            "recorded_traces": tinfo["traces"],
            "recorded_events": tinfo["events"],
            "trace_kinds": tinfo["kinds"],
            "samples": alltot["samples"][:3] + tinfo["samples"],
        }
    )
    ctx.assumptions += [
        "leaf values come from 2-element sets per kind in the exhaustive box (big values, widths and byte strings only in the trace direction)",
        "states are merged by the abstract bookkeeping state (VIEW): description values of the first program reaching a transition are used",
        "fault 'default' expects the deserialised description to contain the default (the Serialiser does not write defaults back into its input)",
        "exhaustive TLC run uses -workers 1 (VIEW + length-bounded hist needs strict BFS)",
    ]


def pick_probe_states(dump_path):
    want = {"extra": None, "listlong": None, "reuse": None, "settype_list": None, "settype_plain": None, "roundtrip": None}
    for st in tlaval.iter_dump(dump_path):
        h = st["hist"]
        if not h:
            continue
        last = h[-1]
        ops = [x["o"]["op"] for x in h]
        if last["o"]["op"] == "verify" and last["err"] == "none":
            if last["fault"] in ("extra", "listlong") and want[last["fault"]] is None:
                want[last["fault"]] = st
            if last["fault"] == "none" and want["roundtrip"] is None and "prim" in ops:
                want["roundtrip"] = st
        if last["err"] == "ReusedTargetError" and last["o"]["op"] == "prim" and want["reuse"] is None:
            want["reuse"] = st
        if last["o"]["op"] == "set_type" and last["o"]["kind"] != "dict" and len(h) >= 2:
            ent = [x["o"] for x in h if x["o"]["op"] == "enter"]
            if ent and last["depth"] >= 1:
                key = "settype_list" if ent[-1]["t"] == "m" else "settype_plain"
                if want[key] is None:
                    want[key] = st
        if all(v is not None for v in want.values()):
            break
    missing = [k for k, v in want.items() if v is None]
    if missing:
        raise RuntimeError("no probe program for %s in the dump" % missing)
    return list(want.values())


def replay(case):
    M()
    c20.M()
    if case.get("trace"):
        return replay_trace(case)
    st = {"hist": c20._tup(case["hist"]), "obs": c20._tup(case["obs"])}
    res = replay_state(st)
    return {"violations": res["violations"], "spec_disagreements": res["dis"]}


# ------------------------------------------------------------------------------ T direction
def trace_direction(ctx):
    """Not built (time): C21 is bound in the G direction only; see harness/notes/C21.md."""
    return {"traces": 0, "events": 0, "dis": 0, "selftest": "T direction not implemented for C21 (G only)", "kinds": {}, "samples": []}


def replay_trace(case):
    raise RuntimeError("C21 has no trace direction")
