"""C21 -- the serialiser/deserialiser framework round-trips arbitrary description programs.

Spec: spec/SerDes.tla (+ BitIOOps.tla for the bit level).  TLC (workers=1) explores every program of
<= MaxLen SerDes calls (primitive fields, declare_list, subcontext_enter/leave up to MaxDepth,
set_context_type, computed_value, bounded blocks, byte_align, verify_complete + a planted fault + the form
the description is given in), merging states by the abstract bookkeeping state (VIEW: index maps, stacks,
dictionary types of the whole description, bit phase, block counter), so every (bookkeeping state, call)
transition is dumped once with a shortest program, the description TLC built for it (`obs.tree`), the
description as handed to the Serialiser (`gtree`: typed / all plain dicts / fixeddict types exchanged) and
the bits (`obs.bits`).  Three configurations run concurrently: mc/SerDes.cfg (the whole alphabet, short
programs), mc/SerDesLists.cfg (lists of typed subcontexts, longer programs) and mc/SerDesFaults.cfg (every
fault kind in nested / typed contexts); each dump is replayed (pmap over chunks) while TLC still works on the next.
G: each program is run on the real Serialiser (over the TLC-built given description, perturbed by the fault)
   and on the real Deserialiser (over the bytes); descriptions are compared including dictionary types.
T: not built; the thorough tier instead replays TLC -simulate random walks (depth 15, nesting 3).

Alarm clauses (the statement of C21):
  roundtrip     deserialise(serialise(d)) != d (values, structure or dictionary types), or one of the two fails
  unused        a description with an unused value / list item / a non-list value (truthy or falsy) provided
                for a declared list target serialises without an exception
  missing       a description lacking a needed value / list item (no default for its context type) serialises
  default       a value supplied through default_values[type(context)] is not used / is used for the wrong type
  overwrite     a target used twice is not rejected with ReusedTargetError by the deserialiser
  tree          after set_context_type the root description does not hold the current context at the cursor
The exact exception classes, the bytes and verify_complete's Unclosed* errors are compared with the spec's
prediction and counted under spec_disagreements only.
"""
import copy
import glob
import io
import os
import random
import re

from .. import common, tlc, tlaval, trace
from . import c20

_MOD = {}


def M():
    if not _MOD:
        from bitarray import bitarray
        from vc2_conformance.bitstream import io as bio
        from vc2_conformance.bitstream import serdes
        from vc2_conformance.bitstream import exceptions as exc
        from vc2_conformance.fixeddict import fixeddict

        names = ["a", "b", "l", "s", "m", "c", "p", "q", "x"] + ["t%d" % i for i in range(12)]
        TA = fixeddict("VerifTA", *names, module=__name__)
        TB = fixeddict("VerifTB", *names, module=__name__)
        globals()["VerifTA"] = TA
        globals()["VerifTB"] = TB
        _MOD.update(bitarray=bitarray, bio=bio, serdes=serdes, exc=exc, TYPES={"dict": dict, "TA": TA, "TB": TB})
    return _MOD


VerifTA = None
VerifTB = None


def exc_name(e):
    n = type(e).__name__
    if n == "FixedDictKeyError":
        return "KeyError"
    if n in ("EOFError",):
        return "EOF"
    return n


# ------------------------------------------------------------------------------ concretisation
def concretise(tv):
    m = M()
    k = tv["k"]
    if k == "v":
        if tv["kind"] == "bool":
            return bool(tv["v"])
        if tv["kind"] == "bitarray":
            return m["bitarray"](list(tv["v"]))
        if tv["kind"] == "bytes":
            return bytes(bytearray([tv["v"]]))
        if tv["kind"] == "bits":
            return m["bitarray"]([int(c) for c in format(tv["v"], "03b")])
        return tv["v"]
    if k == "l":
        return [concretise(x) for x in tv["items"]]
    T = m["TYPES"][tv["typ"]]
    out = T()
    for key, val in (tv["m"] or {}).items():
        out[key] = concretise(val)
    return out


def same(a, b):
    """deep equality including the dictionary types"""
    if isinstance(a, dict) or isinstance(b, dict):
        if type(a) is not type(b) or set(a.keys()) != set(b.keys()):
            return False
        return all(same(a[k], b[k]) for k in a)
    if isinstance(a, list) or isinstance(b, list):
        return isinstance(a, list) and isinstance(b, list) and len(a) == len(b) and all(same(x, y) for x, y in zip(a, b))
    return type(a) is type(b) and a == b


def make_stale(d):
    """give every computed target (named "c" in SerDes.tla) of a description an out-of-date value; -> changed?"""
    changed = False
    if isinstance(d, dict):
        for k in list(d.keys()):
            v = d[k]
            if k == "c" and isinstance(v, int) and not isinstance(v, bool):
                d[k] = v + 100
                changed = True
            elif isinstance(v, (dict, list)):
                changed = make_stale(v) or changed
    elif isinstance(d, list):
        for v in d:
            if isinstance(v, (dict, list)):
                changed = make_stale(v) or changed
    return changed


def call(sd, o):
    m = M()
    op = o["op"]
    if op == "prim":
        kind = o["kind"]
        if kind == "bool":
            return sd.bool(o["t"])
        if kind == "nbits":
            return sd.nbits(o["t"], o.get("n", 2))
        if kind == "uint":
            return sd.uint(o["t"])
        if kind == "sint":
            return sd.sint(o["t"])
        if kind == "bytes":
            return sd.bytes(o["t"], o.get("n", 1))
        if kind in ("bitarray", "bits"):
            return sd.bitarray(o["t"], o.get("n", 3))
        if kind == "uint_lit":
            return sd.uint_lit(o["t"], o.get("n", 1))
    if op == "declare_list":
        return sd.declare_list(o["t"])
    if op == "enter":
        return sd.subcontext_enter(o["t"])
    if op == "leave":
        return sd.subcontext_leave()
    if op == "set_type":
        return sd.set_context_type(m["TYPES"][o["kind"]])
    if op == "computed":
        return sd.computed_value(o["t"], o["v"])
    if op == "bbegin":
        return sd.bounded_block_begin(o["v"])
    if op == "bend":
        return sd.bounded_block_end(o["t"])
    if op == "align":
        return sd.byte_align(o["t"])
    if op == "verify":
        return sd.verify_complete()
    raise RuntimeError("unknown call %r" % (o,))


def cursor_ok(sd):
    """the root description holds the current context (same object) at the cursor path"""
    node = sd.context
    try:
        for p in sd.path():
            node = node[p]
    except (KeyError, IndexError, TypeError):
        return False
    return node is sd.cur_context


def run_program(sd, ops):
    """returns (index of the failing call or None, exception name, [tree-consistent after each call])"""
    for i, o in enumerate(ops):
        try:
            call(sd, o)
        except Exception as e:  # noqa
            return i, exc_name(e), False
        if not cursor_ok(sd):
            return i, "tree", True
    return None, "none", False


def navigate(d, path):
    node = d
    for t, ix in path:
        node = node[t]
        if ix != -1:
            node = node[ix]
    return node


def nonlist_value(tag):
    """concretisation of the abstract non-list values of SerDes.tla (NonListVals)"""
    m = M()
    table = {
        "int7": lambda: 7,
        "str1": lambda: "x",
        "tuple1": lambda: (1,),
        "dict1": lambda: {"k": 1},
        "int0": lambda: 0,
        "false": lambda: False,
        "none": lambda: None,
        "str0": lambda: "",
        "bytes0": lambda: b"",
        "dict0": lambda: {},
        "tuple0": lambda: (),
        "float0": lambda: 0.0,
        "bits0": lambda: m["bitarray"](),
    }
    return table[tag]()


def plant(d, fault, site, last=None):
    """perturb description d (a deep copy) at the site chosen by TLC; returns (d, default_values)"""
    m = M()
    d = copy.deepcopy(d)
    defaults = {}
    last = last or {}
    if fault == "none":
        return d, defaults
    ctx = navigate(d, site["path"])
    t = site["t"]
    if fault == "extra":
        ctx["x"] = 5
    elif fault == "missing":
        del ctx[t]
    elif fault == "listlong":
        ctx[t].append(1)
    elif fault == "listshort":
        ctx[t].pop()
    elif fault == "nonlist":
        ctx[t] = nonlist_value(last["val"])
    elif fault == "default":
        # registered for the type the context has when the target is used (computed by the spec)
        defaults = {m["TYPES"][last["deftyp"]]: {t: ctx.pop(t)}}
    elif fault == "defaultwrongtype":
        defaults = {m["TYPES"][last["wrongtyp"]]: {t: ctx.pop(t)}}
    else:
        raise RuntimeError("unknown fault %r" % fault)
    return d, defaults


# ------------------------------------------------------------------------------ G
def replay_state(st):
    m = M()
    sdm = m["serdes"]
    bio = m["bio"]
    hist = st["hist"]
    ops = [h["o"] for h in hist]
    errs = [h["err"] for h in hist]
    last = hist[-1]
    tree = st["obs"]["tree"]
    viol = []
    dis = 0
    prog = ops[:-1] if last["o"]["op"] == "verify" else ops
    sig_prog = "|".join(sorted(set(o["op"] for o in prog)))
    d = concretise(tree)
    fault = last.get("fault", "none") if last["o"]["op"] == "verify" else "none"
    site = last.get("site")
    bad_at = next((i for i, e in enumerate(errs) if e != "none"), None)

    def desc():
        return "program %s on %r" % ([(o["op"], o["t"], o["kind"], o["v"]) for o in ops], d)

    if bad_at is not None and errs[bad_at] == "ReusedTargetError":
        # the deserialiser must refuse the second use and keep the first value
        data = c20.bytes_of_bits(list(st["obs"]["bits"])) + b"\xff\xff\xff\xff"
        des = sdm.Deserialiser(bio.BitstreamReader(io.BytesIO(data)))
        i, err, _ = run_program(des, ops[: bad_at + 1])
        if i != bad_at or err != "ReusedTargetError":
            viol.append(("C21|overwrite|%s" % ops[bad_at]["op"], "%s: deserialiser ended with %s at call %s instead of ReusedTargetError at call %d; context %r" % (desc(), err, i, bad_at, des.context)))
        ser = sdm.Serialiser(bio.BitstreamWriter(io.BytesIO()), copy.deepcopy(d))
        i, err, _ = run_program(ser, ops[: bad_at + 1])
        if i != bad_at or err != "ReusedTargetError":
            dis += 1
        # the same program with the re-used value NOT in the description but registered as a default (SerDes.tla:
        # UseTarget marks a target used wherever its value came from).  The deserialiser refuses this program; if
        # the serialiser accepts it, it has serialised a description that does not deserialise: round trip broken.
        t = ops[bad_at]["t"]
        if ops[bad_at]["op"] == "prim" and not any(o["op"] in ("enter", "declare_list") for o in ops[:bad_at]) and isinstance(d, dict) and t in d and not isinstance(d[t], (list, dict)):
            d2 = copy.deepcopy(d)
            val = d2.pop(t)
            f2 = io.BytesIO()
            wr2 = bio.BitstreamWriter(f2)
            ser2 = sdm.Serialiser(wr2, d2, {type(d2): {t: val}})
            i2, err2, _ = run_program(ser2, ops[: bad_at + 1])
            if err2 == "none":
                wr2.flush()
                des2 = sdm.Deserialiser(bio.BitstreamReader(io.BytesIO(f2.getvalue() + b"\xff\xff\xff\xff")))
                i3, err3, _ = run_program(des2, ops[: bad_at + 1])
                if err3 != "none" or not same(des2.context, d):
                    viol.append(("C21|roundtrip|default-used-twice", "%s with %r omitted and registered as a default: the serialiser accepted the program, the deserialiser ended with %s at call %s on its output" % (desc(), t, err3, i3)))
        return {"violations": viol, "dis": dis, "evals": 2 * (bad_at + 1)}
    if bad_at is not None and last["o"]["op"] != "verify":
        # ValueError from a bounded block that is too small / nesting errors: C20's business, logged only
        ser = sdm.Serialiser(bio.BitstreamWriter(io.BytesIO()), copy.deepcopy(d))
        i, err, _ = run_program(ser, ops[: bad_at + 1])
        if i != bad_at or err != errs[bad_at]:
            dis += 1
        return {"violations": viol, "dis": dis, "evals": bad_at + 1}

    # a program without errors (possibly closed by verify_complete, possibly with a planted fault)
    full_ops = ops
    is_verify = last["o"]["op"] == "verify"
    given = last.get("given", "typed") if is_verify else "typed"
    # the description in the form it is handed to the Serialiser (typed / plain dicts / types exchanged): built by TLC
    dgiven = concretise(last["gtree"]) if is_verify and "gtree" in last else copy.deepcopy(d)
    din, defaults = plant(dgiven, fault, site, last)
    experr = last.get("experr", "none") if is_verify else "none"

    def desc():  # noqa
        return "program %s on %r (given %s: %r)" % ([(o["op"], o["t"], o["kind"], o["v"]) for o in ops], d, given, dgiven)

    f = io.BytesIO()
    wr = bio.BitstreamWriter(f)
    ser = sdm.Serialiser(wr, din, defaults)
    i, err, tree_bad = run_program(ser, full_ops)
    wr.flush()
    data = f.getvalue()
    evals = len(full_ops)
    must_fail = bool(last.get("serfails")) if last["o"]["op"] == "verify" else False
    unclosed = last["o"]["op"] == "verify" and last["err"] != "none"
    if tree_bad:
        viol.append(("C21|tree|serialiser", "%s: after call %d the root description does not hold the current context at the cursor path %r (root %r)" % (desc(), i, ser.path(), ser.context)))
        return {"violations": viol, "dis": dis, "evals": evals}
    if fault != "none" and must_fail:
        # the spec (MustFail) says that serialising this description fails
        clause = {"extra": "unused", "listlong": "unused", "nonlist": "unused", "missing": "missing", "listshort": "missing", "defaultwrongtype": "default"}[fault]
        if err == "none":
            what = "%s with %s planted at %s" % (desc(), fault, site)
            if fault == "nonlist":
                what = "%s with the non-list value %r provided for the list target at %s" % (desc(), nonlist_value(last["val"]), site)
            viol.append(("C21|%s|%s" % (clause, fault), "%s serialised without an exception" % what))
        elif err != experr:
            dis += 1
        return {"violations": viol, "dis": dis, "evals": evals}
    if unclosed:
        if err != last["err"] or i != len(full_ops) - 1:
            dis += 1
        elif fault == "none" and not same(ser.context, d):
            # every call before verify_complete succeeded: the description must be the one the spec built
            viol.append(("C21|tree|serialiser-description-changed", "%s: after the program (verify_complete: %s), the serialiser's description is %r" % (desc(), err, ser.context)))
        return {"violations": viol, "dis": dis, "evals": evals}
    if err != "none":
        viol.append(("C21|%s|serialiser-failed|%s" % ("default" if fault == "default" else "roundtrip", err), "%s: serialiser raised %s at call %s (fault %s)" % (desc(), err, i, fault)))
        return {"violations": viol, "dis": dis, "evals": evals}
    if c20.bits_of_bytes(data)[: len(st["obs"]["bits"])] != list(st["obs"]["bits"]) or len(data) * 8 != len(st["obs"]["bits"]):
        dis += 1
    if fault == "none" and not same(ser.context, d):
        viol.append(("C21|tree|serialiser-description-changed", "%s: after serialising, the serialiser's description is %r" % (desc(), ser.context)))
    des = sdm.Deserialiser(bio.BitstreamReader(io.BytesIO(data)))
    i, err, tree_bad = run_program(des, full_ops)
    evals += len(full_ops)
    if tree_bad:
        viol.append(("C21|tree|deserialiser", "%s: after call %d the root description does not hold the current context at the cursor path %r (root %r)" % (desc(), i, des.path(), des.context)))
    elif err != "none":
        viol.append(("C21|roundtrip|deserialiser-failed|%s" % err, "%s: deserialiser raised %s at call %s" % (desc(), err, i)))
    elif not same(des.context, d):
        viol.append(("C21|%s|differs" % ("default" if fault == "default" else "roundtrip"), "%s: deserialised %r" % (desc(), des.context)))
    elif fault == "none" and any(o["op"] == "computed" for o in full_ops):
        # the same complete description with OUT-OF-DATE entries for its computed targets (computed_value: "any
        # existing value in the context will be overwritten"): the description the serialiser ends with must still
        # be the one its bytes deserialise to
        dstale = copy.deepcopy(dgiven)
        if make_stale(dstale):
            f3 = io.BytesIO()
            wr3 = bio.BitstreamWriter(f3)
            ser3 = sdm.Serialiser(wr3, dstale, defaults)
            i3, err3, _ = run_program(ser3, full_ops)
            wr3.flush()
            evals += len(full_ops)
            if err3 != "none":
                dis += 1  # the property does not say that such a description must be accepted
            else:
                des3 = sdm.Deserialiser(bio.BitstreamReader(io.BytesIO(f3.getvalue())))
                i4, err4, _ = run_program(des3, full_ops)
                evals += len(full_ops)
                if err4 != "none" or not same(des3.context, ser3.context if given == "typed" else des.context):
                    viol.append(("C21|roundtrip|stale-computed", "%s with out-of-date computed entries %r: serialiser ended with description %r, its bytes deserialise (%s) to %r" % (desc(), dstale, ser3.context, err4, des3.context)))
    return {"violations": viol, "dis": dis, "evals": evals}


_HDR = c20._HDR
_VARS = ("hist", "obs")


_KEY = re.compile(r"([A-Za-z_][A-Za-z0-9_]*) \|->")
_STR = re.compile(r'"([^"]*)"')
_SAFE_STR = re.compile(r"^[A-Za-z0-9_ .:/-]*$")


def fast_parse(text):
    """TLA+ value (records, sequences, integers, booleans, strings: all SerDes.tla prints) -> the same Python
    value as tlaval.parse, by rewriting it into a Python literal (tlaval's tokenizer was 80 % of the replay).
    Only used on text whose string literals are plain words (checked per chunk by strings_are_plain)."""
    py = text.replace("<<>>", "()").replace("<<", "(").replace(">>", ",)").replace("[", "{").replace("]", "}")
    py = _KEY.sub(r'"\1":', py).replace("TRUE", "True").replace("FALSE", "False")
    return eval(py, {"__builtins__": {}}, {})  # noqa: S307 - TLC's own output, vocabulary checked


def strings_are_plain(text):
    return all(_SAFE_STR.match(x) and "TRUE" not in x and "FALSE" not in x for x in set(_STR.findall(text)))


def parse_block(block, fast=False):
    """only the variables the replay needs (hist, obs) are parsed: the others are 2/3 of the dump"""
    st = {}
    ms = list(tlaval._VAR.finditer(block))
    for j, m_ in enumerate(ms):
        if m_.group(1) in _VARS:
            end = ms[j + 1].start() if j + 1 < len(ms) else len(block)
            text = block[m_.end() : end]
            st[m_.group(1)] = fast_parse(text) if fast else tlaval.parse(text)
    if set(st) != set(_VARS):
        raise RuntimeError("dumped state without %s: %r" % (_VARS, block[:200]))
    return st


def case_of(st):
    return {"hist": tlaval.to_jsonable(st["hist"]), "obs": tlaval.to_jsonable(st["obs"])}


def typed_entries(tv):
    """largest number of non-dict subcontext entries held by one list of the (tagged) description"""
    if tv["k"] == "l":
        here = sum(1 for x in tv["items"] if x["k"] == "c" and x["typ"] != "dict")
        return max([here] + [typed_entries(x) for x in tv["items"]])
    if tv["k"] == "c":
        return max([0] + [typed_entries(x) for x in (tv["m"] or {}).values()])
    return 0


PROBES = ("extra", "listlong", "reuse", "settype_list", "settype_plain", "roundtrip", "nonlist_falsy", "nonlist_truthy", "two_typed_entries_plain")
FALSY = ("int0", "false", "none", "str0", "bytes0", "dict0", "tuple0", "float0", "bits0")


def probe_kinds(st):
    """which self-test probe roles this dumped history can play"""
    h = st["hist"]
    last = h[-1]
    out = []
    if last["o"]["op"] == "verify" and last["err"] == "none":
        if last["fault"] in ("extra", "listlong") and last["given"] == "typed":
            out.append(last["fault"])
        if last["fault"] == "nonlist":
            out.append("nonlist_falsy" if last["val"] in FALSY else "nonlist_truthy")
        if last["fault"] == "none" and last["given"] == "typed" and any(x["o"]["op"] == "prim" for x in h):
            out.append("roundtrip")
    if last["o"]["op"] == "verify" and last["fault"] == "none" and last["given"] == "plain" and typed_entries(st["obs"]["tree"]) >= 2:
        out.append("two_typed_entries_plain")
    if last["err"] == "ReusedTargetError" and last["o"]["op"] == "prim":
        out.append("reuse")
    if last["o"]["op"] == "set_type" and last["o"]["kind"] != "dict" and len(h) >= 2 and last["depth"] >= 1:
        ent = [x["o"] for x in h if x["o"]["op"] == "enter"]
        if ent:
            out.append("settype_list" if ent[-1]["t"] == "m" else "settype_plain")
    return out


def new_tot():
    return {"n": 0, "nontrivial": 0, "evals": 0, "dis": 0, "viol": [], "ops": {}, "samples": {}, "empty": 0, "faults": {}, "givens": {}, "probes": {}, "multi_typed": 0, "maxlen": 0}


def work_text(text, probes=True):
    hdrs = list(_HDR.finditer(text))
    out = new_tot()
    fast = strings_are_plain(text)
    for j, h in enumerate(hdrs):
        end = hdrs[j + 1].start() if j + 1 < len(hdrs) else len(text)
        block = text[h.end() : end].split("\n=====")[0]
        st = parse_block(block, fast)
        if fast and j % 200 == 0 and st != parse_block(block):
            raise RuntimeError("fast_parse disagrees with tlaval.parse on %r" % block[:300])
        if not st["hist"]:
            out["empty"] += 1
            continue
        res = replay_state(st)
        out["n"] += 1
        out["nontrivial"] += 1 if len(st["hist"]) >= 3 else 0
        out["maxlen"] = max(out["maxlen"], len(st["hist"]))
        out["evals"] += res["evals"]
        out["dis"] += res["dis"]
        last = st["hist"][-1]
        key = last["o"]["op"]
        out["ops"][key] = out["ops"].get(key, 0) + 1
        if key == "verify":
            fk = "%s/%s" % (last["fault"], last["err"])
            out["faults"][fk] = out["faults"].get(fk, 0) + 1
            out["givens"][last["given"]] = out["givens"].get(last["given"], 0) + 1
            if last["given"] != "typed" and typed_entries(st["obs"]["tree"]) >= 2:
                out["multi_typed"] += 1
            skey = None
            if last["err"] == "none" and len(st["hist"]) >= 4:
                skey = "nonlist" if last["fault"] == "nonlist" else last["given"] if last["fault"] == "none" else None
            if skey and skey not in out["samples"]:
                out["samples"][skey] = case_of(st)
        if res["violations"] and len(out["viol"]) < 40:
            c = case_of(st)
            for sig, what in res["violations"]:
                out["viol"].append((sig, what, c))
        if probes:
            for k in probe_kinds(st):
                if k not in out["probes"]:
                    out["probes"][k] = case_of(st)
    return out


def work_chunk(arg):
    path, a, b = arg
    M()
    with open(path) as fh:
        fh.seek(a)
        text = fh.read(b - a)
    return work_text(text)


def work_simfile(path):
    M()
    with open(path) as fh:
        text = fh.read()
    hdrs = list(_HDR.finditer(text))
    if not hdrs:
        out = new_tot()
        out["empty"] = 1
        return out
    return work_text(text[hdrs[-1].start() :], probes=False)


def merge(parts):
    tot = new_tot()
    for p in parts:
        for k in ("n", "nontrivial", "evals", "dis", "empty", "multi_typed"):
            tot[k] += p[k]
        tot["maxlen"] = max(tot["maxlen"], p["maxlen"])
        tot["viol"] += p["viol"]
        for key in ("samples", "probes"):
            for k, v in p[key].items():
                tot[key].setdefault(k, v)
        for key in ("ops", "faults", "givens"):
            for k, v in p[key].items():
                tot[key][k] = tot[key].get(k, 0) + v
    return tot


def chunk_offsets(path, nchunks):
    """byte ranges of ~nchunks groups of dumped states (the dump is ASCII, so offsets = characters): equal
    sizes, each cut moved forward to the next state header (no line of a state starts with "State ")"""
    size = os.path.getsize(path)
    cuts = [0]
    with open(path, "rb") as fh:
        for k in range(1, nchunks):
            start = max(cuts[-1] + 1, size * k // nchunks)
            fh.seek(start - 1)
            data, found = b"", -1
            while found < 0:
                buf = fh.read(1 << 16)
                if not buf:
                    break
                data += buf
                i = data.find(b"\nState ")
                if i >= 0:
                    found = start + i
            if found < 0:
                break
            cuts.append(found)
    cuts.append(size)
    return [(path, cuts[i], cuts[i + 1]) for i in range(len(cuts) - 1)]


CFG = "mc/SerDes.cfg"
# (cfg, name, MaxLen quick, MaxLen thorough, -coverage): run concurrently, replayed in this order
CONFIGS = [
    (CFG, "programs, whole alphabet (exhaustive over abstract transitions)", 4, 5, True),
    ("mc/SerDesLists.cfg", "programs, lists of typed subcontexts (exhaustive over abstract transitions)", 8, 11, False),
    ("mc/SerDesFaults.cfg", "programs, every fault kind in nested / typed contexts (exhaustive over abstract transitions)", 6, 7, False),
    ("mc/SerDesBlocks.cfg", "programs of fixed-width primitives (bytes, bit arrays, uint_lit, bool) in and around bounded blocks (exhaustive over abstract transitions)", 4, 5, False),
]
# single-worker TLC (VIEW + length-bounded hist needs strict BFS); few GC threads because the box is shared, but the
# optimising JIT stays on (C1-only made these 20-100 s runs 2-3 times slower)
# -Dtlc2.value.Values.width: TLC pretty-prints every dumped value to 80 columns, which is 70 % of a dumping run; a
# huge width puts each variable on one line (3 times faster, and faster to parse)
JVM_ENV = {"JAVA_TOOL_OPTIONS": "-XX:ParallelGCThreads=2 -Xss64m -Dtlc2.value.Values.width=100000000"}


def tlc_jobs(jobs):
    """Run several single-worker TLC jobs concurrently (threads); jobs = [(module, cfg text, kwargs)].
    Generator: yields (index, result) in the order of completion, so that the caller can replay one dump
    while TLC still works on the others."""
    import queue
    import threading

    done = queue.Queue()

    def one(i):
        mod, cfg, kw = jobs[i]
        try:
            done.put((i, tlc.run(mod, cfg, workers=1, env=JVM_ENV, **kw)))
        except BaseException as e:  # noqa
            done.put((i, e))

    ths = [threading.Thread(target=one, args=(i,)) for i in range(len(jobs))]
    for t in ths:
        t.start()
    try:
        for _ in jobs:
            i, r = done.get()
            if isinstance(r, BaseException):
                raise r
            yield i, r
    finally:
        for t in ths:
            t.join()


# ------------------------------------------------------------------------------ binding self-test
def selftest_G(states):
    """In-process broken SerDes classes must be flagged by the same replay (restored in finally)."""
    m = M()
    S = m["serdes"].SerDes
    fired = {}

    def sigs():
        out = set()
        for st in states:
            out |= set(sg for sg, _ in replay_state(st)["violations"])
        return out

    base = sigs()

    def probe(name, attr, broken):
        orig = getattr(S, attr)
        setattr(S, attr, broken(orig))
        try:
            new = sigs() - base
        finally:
            setattr(S, attr, orig)
        if new:
            fired[name] = sorted(new)[:6]
        elif base:
            fired[name] = "inconclusive: the code under test is already flagged on the probe programs (%s)" % sorted(base)[:4]
        else:
            raise RuntimeError("binding self-test failed: mutant %r was not flagged" % name)

    def no_verify(orig):
        return lambda self: None

    probe("_verify_context_is_complete does nothing (unused values pass)", "_verify_context_is_complete", no_verify)

    def overwrite(orig):
        def f(self, target, value):
            if self._cur_context_indices.get(target) is True:
                self.cur_context[target] = value
                return
            return orig(self, target, value)

        return f

    probe("_set_context_value overwrites a used target", "_set_context_value", overwrite)

    def bad_settype(orig):
        def f(self, context_type):
            if type(self.cur_context) is not context_type:
                self.cur_context = context_type(self.cur_context)

        return f

    probe("set_context_type forgets to update the parent", "set_context_type", bad_settype)

    def last_slot(orig):
        def f(self, context_type):
            if type(self.cur_context) is not context_type:
                self.cur_context = context_type(self.cur_context)
                if self._context_stack:
                    parent, target = self._context_stack[-1], self._target_stack[-1]
                    if self._context_indices_stack[-1][target] is True:
                        parent[target] = self.cur_context
                    else:
                        parent[target][-1] = self.cur_context

        return f

    probe("set_context_type puts the converted entry into the last slot of the list", "set_context_type", last_slot)

    def truthy_declare(orig):
        def f(self, target):
            if target not in self._cur_context_indices and not self.cur_context.get(target):
                self.cur_context[target] = []
            return orig(self, target)

        return f

    probe("declare_list replaces a falsy provided value by []", "declare_list", truthy_declare)
    return fired


# ------------------------------------------------------------------------------ entry points
def run(ctx):
    M()
    c20.M()
    confs = [(c, dict(MaxLen=ctx.pick(c[2], c[3]), MaxDepth=2)) for c in CONFIGS]
    # -coverage (per-action statistics in the evidence) costs 30-60 % of TLC's time: thorough tier only
    jobs = [("SerDes", c20.cfg_text(c[0], **cst), {"dump": True, "coverage": c[4] and not ctx.quick}) for c, cst in confs]
    tlc.scratch_root()  # created here, not concurrently by the threads
    tots = [None] * len(confs)
    runs = [None] * len(confs)
    for i, r in tlc_jobs(jobs):
        runs[i] = r
        t = merge(common.pmap(work_chunk, chunk_offsets(r.dump_path, 96), chunksize=1))
        if t["n"] + t["empty"] != r.distinct or t["empty"] != 1:
            raise RuntimeError("dump yielded %d histories + %d initial states for %d distinct states" % (t["n"], t["empty"], r.distinct))
        tots[i] = t
    for r, (c, cst) in zip(runs, confs):
        ctx.add_tlc(r, c[1], dict(cst, cfg=c[0]))
    const, const_l, const_f, const_b = [cst for _, cst in confs]
    per_conf = {c[0].split("/")[-1]: t for (c, _), t in zip(confs, tots)}
    lists_tot = per_conf["SerDesLists.cfg"]
    tot = merge(tots)
    sims = 0
    if not ctx.quick:
        sim = tlc.run("SerDes", c20.cfg_text(CFG, MaxLen=14, MaxDepth=3), simulate=8000, depth=15, seed=ctx.seed, workers=1, env=JVM_ENV)
        files = sorted(glob.glob(os.path.join(sim.sim_dir, "tr*")))
        stot = merge(common.pmap(work_simfile, files))
        sims = stot["n"]
        tots.append(stot)
    alltot = merge(tots)
    for sig, what, case in alltot["viol"]:
        ctx.violation(sig, what, case)
    # vacuity: every fault kind, every given form, lists of >= 2 typed entries given untyped
    need = ["none/none", "extra/none", "missing/none", "listlong/none", "listshort/none", "default/none", "defaultwrongtype/none", "nonlist/none"]
    lacking = [k for k in need if not tot["faults"].get(k)]
    lacking += ["given " + g for g in ("typed", "plain", "swapped") if not tot["givens"].get(g)]
    lacking += ["probe " + k for k in PROBES if k not in tot["probes"]]
    if lacking or not tot["ops"].get("set_type") or not tot["ops"].get("leave") or not lists_tot["multi_typed"]:
        raise RuntimeError("vacuous: no replayed history for %s (lists of >= 2 typed entries given untyped: %d)" % (lacking, lists_tot["multi_typed"]))
    # probe programs for the self-test: dumped states covering faults, reuse, set_type in lists, non-list values
    probe_states = [{"hist": c20._tup(c["hist"]), "obs": c20._tup(c["obs"])} for c in (tot["probes"][k] for k in PROBES)]
    fired = selftest_G(probe_states)
    tinfo = trace_direction(ctx)
    ctx.coverage.update(
        {
            "traces_validated_against_impl": alltot["n"] + tinfo["traces"],
            "replayed_histories": alltot["n"],
            "replayed_histories_per_configuration": {k: t["n"] for k, t in per_conf.items()},
            "longest_program": {k: t["maxlen"] for k, t in per_conf.items()},
            "simulated_walks_replayed": sims,
            "evaluations": alltot["evals"] + tinfo["events"],
            "distinct_nontrivial": alltot["nontrivial"] + tinfo["traces"],
            "rule": "one shortest program per abstract transition (bookkeeping state, call) of SerDes.tla, run on the real Serialiser "
            "(TLC-built description in the TLC-chosen form, TLC-chosen fault) and Deserialiser; evaluations = SerDes method calls executed; non-trivial = program of >= 3 calls, or a recorded random trace",
            "exhaustive": True,
            "bounds": {
                "SerDes.cfg": dict(const, targets="a (plain), l (list), s (subcontext), m (list of subcontexts), c (computed), p/q (padding)", values="1-2 per primitive kind", types="dict + 2 fixeddict types"),
                "SerDesLists.cfg": dict(const_l, alphabet="uint a, declare_list m, subcontext_enter m, subcontext_leave, set_context_type TA/TB; faults none/extra/listlong"),
                "SerDesFaults.cfg": dict(const_f, alphabet="uint a/l, declare_list l/m, subcontext_enter s/m, subcontext_leave, set_context_type TA; every fault kind"),
                "SerDesBlocks.cfg": dict(const_b, alphabet="bytes(1) / bitarray(3) / uint_lit(1) / bool on targets a, b, d; bounded_block_begin(1 | 4), bounded_block_end, byte_align"),
                "given_forms": "typed, plain dicts, fixeddict types exchanged",
                "non_list_values": "7, 'x', (1,), {'k': 1} (truthy); 0, False, None, '', b'', {}, (), 0.0, bitarray() (falsy)",
            },
            "transitions_per_action": alltot["ops"],
            "verify_transitions_by_fault_and_outcome": alltot["faults"],
            "verify_transitions_by_given_form": alltot["givens"],
            "verify_transitions_with_a_list_of_2_or_more_typed_entries_given_untyped": alltot["multi_typed"],
            "spec_disagreements": alltot["dis"] + tinfo["dis"],
            "binding_selftest": {"G": fired, "T": tinfo["selftest"]},
            "recorded_traces": tinfo["traces"],
            "recorded_events": tinfo["events"],
            "trace_kinds": tinfo["kinds"],
            "samples": [alltot["samples"][k] for k in sorted(alltot["samples"])][:4] + tinfo["samples"],
        }
    )
    ctx.assumptions += [
        "leaf values come from 1-2 element sets per kind in the exhaustive box",
        "states are merged by the abstract bookkeeping state (VIEW): description values of the first program reaching a transition are used",
        "fault 'default' expects the deserialised description to contain the default (the Serialiser does not write defaults back into its input)",
        "exhaustive TLC runs use -workers 1 (VIEW + length-bounded hist needs strict BFS); the three configurations run concurrently",
    ]


def replay(case):
    M()
    c20.M()
    if case.get("trace"):
        return replay_trace(case)
    st = {"hist": c20._tup(case["hist"]), "obs": c20._tup(case["obs"])}
    res = replay_state(st)
    return {"violations": res["violations"], "spec_disagreements": res["dis"]}


# ------------------------------------------------------------------------------ T direction
def trace_direction(ctx):
    """Not built (time): C21 is bound in the G direction only; see harness/notes/C21.md."""
    return {"traces": 0, "events": 0, "dis": 0, "selftest": "T direction not implemented for C21 (G only)", "kinds": {}, "samples": []}


def replay_trace(case):
    raise RuntimeError("C21 has no trace direction")
